(* driver.ml -- thin I/O shell around the extracted model.
   Reads protocol lines on stdin ("<id>\t<input line>"), prints "<id>\t<model observation>".
   All parsing/printing of the protocol itself is done by extracted Coq code
   (Model.run_line : list N -> list N over ASCII codes). *)
open Model

let rec pos_of_int (n : int) : positive =
  if n = 1 then XH
  else if n land 1 = 0 then XO (pos_of_int (n lsr 1))
  else XI (pos_of_int (n lsr 1))

let n_of_int (n : int) : n = if n = 0 then N0 else Npos (pos_of_int n)

let rec int_of_pos (p : positive) : int =
  match p with XH -> 1 | XO q -> 2 * int_of_pos q | XI q -> 2 * int_of_pos q + 1

let int_of_n (x : n) : int = match x with N0 -> 0 | Npos p -> int_of_pos p

let table = Array.init 256 n_of_int

let coq_of_string (s : string) : n list =
  let r = ref [] in
  for i = String.length s - 1 downto 0 do
    r := table.(Char.code s.[i]) :: !r
  done; !r

let string_of_coq (l : n list) : string =
  let b = Buffer.create 256 in
  List.iter (fun c -> Buffer.add_char b (Char.chr ((int_of_n c) land 255))) l;
  Buffer.contents b

let () =
  try
    while true do
      let line = input_line stdin in
      match String.index_opt line '\t' with
      | None -> ()
      | Some i ->
        let id = String.sub line 0 i in
        let inp = String.sub line (i + 1) (String.length line - i - 1) in
        let out = string_of_coq (run_line (coq_of_string inp)) in
        print_string id; print_char '\t'; print_string out; print_newline ()
    done
  with End_of_file -> ()
