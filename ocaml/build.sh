#!/bin/sh
# builds the driver from the freshly extracted model (coq/model.ml)
set -e
cd "$(dirname "$0")"
mkdir -p _build
cp ../coq/model.ml ../coq/model.mli _build/
cp driver.ml _build/
cd _build
ocamlfind ocamlopt -O3 -w -a -package str model.mli model.ml driver.ml -o driver 2>/dev/null || \
ocamlfind ocamlopt -w -a model.mli model.ml driver.ml -o driver
