(* DisciplineFacts.v -- C07: soundness of the syscall discipline w.r.t. a small
   durable-disk semantics, and the fs-layer model obeys the discipline. *)
From Coq Require Import ZifyN ZifyNat ZifyBool.
From RW Require Import Base.Bytes Fs.Discipline.
Open Scope N_scope.

(* ---- finite sets ----------------------------------------------------------- *)
Lemma memb_In : forall s l, memb s l = true <-> In s l.
Proof.
  intros s l. unfold memb. rewrite existsb_exists. split.
  - intros [x [H1 H2]]. apply N.eqb_eq in H2. subst. exact H1.
  - intros H. exists s. split; [exact H|apply N.eqb_refl].
Qed.
Lemma memb_false : forall s l, memb s l = false <-> ~ In s l.
Proof.
  intros s l. rewrite <- memb_In. destruct (memb s l); split; intros H.
  - discriminate.
  - exfalso. apply H. reflexivity.
  - discriminate.
  - reflexivity.
Qed.
Lemma In_add : forall x s l, In x (add s l) <-> x = s \/ In x l.
Proof.
  intros x s l. unfold add. destruct (memb s l) eqn:E.
  - apply memb_In in E. split; [auto|]. intros [->|H]; auto.
  - cbn. split; intros [H|H]; auto.
Qed.
Lemma In_del : forall x s l, In x (del s l) <-> In x l /\ x <> s.
Proof.
  intros x s l. unfold del. split.
  - intros H. apply in_remove in H. exact H.
  - intros [H1 H2]. apply in_in_remove; auto.
Qed.
Lemma is_nil_true : forall l, is_nil l = true -> l = [].
Proof. intros [|x l] H; [reflexivity|discriminate]. Qed.

(* ---- a small durable-disk semantics --------------------------------------- *)
(* A file has the writes that an fsync has made durable and the writes still
   pending; its directory entry is durable or not.  A write is the range
   (offset, length).  This is the model of DESIGN.md section 3 (`base` /
   `writes` / `dirst`) with contents abstracted to written ranges. *)
Record file := { f_exists : bool; f_synced : list (N * N); f_pend : list (N * N); f_dur : bool }.
Definition absent : file := {| f_exists := false; f_synced := []; f_pend := []; f_dur := false |}.
Definition fresh : file := {| f_exists := true; f_synced := []; f_pend := []; f_dur := false |}.

Record disk := {
  segs : N -> file;
  t_exists : bool; t_pend : bool; t_open : bool; t_written : bool;   (* wal-meta.db.tmp *)
  meta : option bool;   (* None: the name wal-meta.db is unbound; Some b: bound to a file that
                           was (b = true) / was not complete when it received the name       *)
  m_pend : bool;        (* wal-meta.db has page writes not yet synced                        *)
  m_dur : bool }.       (* the directory entry wal-meta.db is durable                        *)

Definition d0 : disk :=
  {| segs := fun _ => absent; t_exists := false; t_pend := false; t_open := false; t_written := false;
     meta := None; m_pend := false; m_dur := false |}.

Definition upd {A : Type} (f : N -> A) (s : N) (v : A) : N -> A :=
  fun x => if x =? s then v else f x.

Definition with_segs (d : disk) (g : N -> file) : disk :=
  {| segs := g; t_exists := t_exists d; t_pend := t_pend d; t_open := t_open d; t_written := t_written d;
     meta := meta d; m_pend := m_pend d; m_dur := m_dur d |}.
Definition with_tmp (d : disk) (e p o w : bool) : disk :=
  {| segs := segs d; t_exists := e; t_pend := p; t_open := o; t_written := w;
     meta := meta d; m_pend := m_pend d; m_dur := m_dur d |}.
Definition with_meta (d : disk) (m : option bool) (p du : bool) : disk :=
  {| segs := segs d; t_exists := t_exists d; t_pend := t_pend d; t_open := t_open d;
     t_written := t_written d; meta := m; m_pend := p; m_dur := du |}.

Definition is_some {A : Type} (o : option A) : bool := match o with Some _ => true | None => false end.

Definition tmp_touch (d : disk) : disk :=
  if t_exists d then with_tmp d true true (t_open d) true else d.
Definition meta_touch (d : disk) : disk :=
  if is_some (meta d) then with_meta d (meta d) true (m_dur d) else d.

Definition dstep (e : event) (d : disk) : disk :=
  match e with
  | OpenExcl (Seg s) => with_segs d (upd (segs d) s fresh)
  | OpenCreat (Seg s) => if f_exists (segs d s) then d else with_segs d (upd (segs d) s fresh)
  | Pwrite (Seg s) off len =>
      let f := segs d s in
      if f_exists f
      then with_segs d (upd (segs d) s {| f_exists := true; f_synced := f_synced f;
                                          f_pend := f_pend f ++ [(off, len)]; f_dur := f_dur f |})
      else d
  | Fsync (Seg s) | Fdatasync (Seg s) =>
      let f := segs d s in
      with_segs d (upd (segs d) s {| f_exists := f_exists f; f_synced := f_synced f ++ f_pend f;
                                     f_pend := []; f_dur := f_dur f |})
  | FsyncDir =>
      with_meta (with_segs d (fun s => let f := segs d s in
                                       {| f_exists := f_exists f; f_synced := f_synced f;
                                          f_pend := f_pend f; f_dur := f_exists f |}))
                (meta d) (m_pend d) (is_some (meta d))
  | Unlink (Seg s) | Rename (Seg s) _ =>
      with_segs d (upd (segs d) s {| f_exists := false; f_synced := []; f_pend := [];
                                     f_dur := f_dur (segs d s) |})
  | Rename _ (Seg s) => with_segs d (upd (segs d) s fresh)
  (* wal-meta.db.tmp *)
  | OpenExcl MetaTmp | OpenCreat MetaTmp =>
      if t_exists d then with_tmp d true (t_pend d) true (t_written d)
      else with_tmp d true false true false
  | OpenW MetaTmp => if t_exists d then with_tmp d true (t_pend d) true (t_written d) else d
  | Pwrite MetaTmp _ _ | Truncate MetaTmp _ | Fallocate MetaTmp _ _ _ => tmp_touch d
  | Fsync MetaTmp | Fdatasync MetaTmp => with_tmp d (t_exists d) false (t_open d) (t_written d)
  | Close MetaTmp => with_tmp d (t_exists d) (t_pend d) false (t_written d)
  | Unlink MetaTmp => with_tmp d false false false false
  | Rename MetaTmp Meta =>
      if t_exists d
      then with_meta (with_tmp d false false false false)
                     (Some (t_written d && negb (t_pend d) && negb (t_open d))) (t_pend d) false
      else d
  | Rename MetaTmp _ => with_tmp d false false false false
  (* wal-meta.db *)
  | Rename Meta _ => with_meta d None false false
  | Rename _ Meta => with_meta d (Some false) false false
  | OpenExcl Meta | OpenCreat Meta =>
      match meta d with
      | None => with_meta d (Some false) false false   (* created (empty) under its final name *)
      | Some _ => d
      end
  | Pwrite Meta _ _ | Truncate Meta _ | Fallocate Meta _ _ _ => meta_touch d
  | Fsync Meta | Fdatasync Meta => with_meta d (meta d) false (m_dur d)
  | Unlink Meta => with_meta d None false (m_dur d)
  | _ => d
  end.

Definition drun (t : list event) (d : disk) : disk := fold_left (fun d e => dstep e d) t d.

(* the writes a segment file has received since it was created, read off the
   trace alone *)
Definition lwstep (e : event) (lw : N -> list (N * N)) : N -> list (N * N) :=
  match e with
  | OpenExcl (Seg s) | Unlink (Seg s) | Rename (Seg s) _ => upd lw s []
  | Pwrite (Seg s) off len => upd lw s ((off, len) :: lw s)
  | _ => lw
  end.
Definition live_writes (t : list event) : N -> list (N * N) :=
  fold_left (fun lw e => lwstep e lw) t (fun _ => []).

(* ---- checker state vs. disk ------------------------------------------------ *)
Record R (c : cst) (d : disk) (lw : N -> list (N * N)) : Prop := {
  r_lw_written : forall s w, In w (lw s) -> In s (written c);
  r_written_known : forall s, In s (written c) -> In s (known c);
  r_lw_file : forall s w, In w (lw s) -> In w (f_synced (segs d s) ++ f_pend (segs d s));
  r_pend_dirty : forall s, f_pend (segs d s) <> [] -> In s (dirty c);
  r_entry : forall s, f_exists (segs d s) = true -> f_dur (segs d s) = false -> In s (pendent c);
  r_unl : forall s, f_dur (segs d s) = true -> f_exists (segs d s) = false -> unl c = true;
  r_known : forall s, In s (known c) -> f_exists (segs d s) = true;
  r_t_exists : t_exists d = tmp_exists c;
  r_t_pend : t_pend d = true -> tmp_dirty c = true;
  r_t_open : t_open d = true -> tmp_open c = true;
  r_t_written : tmp_written c = true -> t_written d = true;
  r_meta : meta d = if meta_exists c then Some true else None;
  r_m_pend : m_pend d = true -> meta_dirty c = true;
  r_m_dur : meta_exists c = true -> m_dur d = false -> ren_pending c = true }.

Lemma R0 : R c0 d0 (fun _ => []).
Proof. constructor; cbn; intros; try contradiction; try discriminate; auto. Qed.

Lemma upd_same : forall (A : Type) (f : N -> A) s v, upd f s v s = v.
Proof. intros. unfold upd. rewrite N.eqb_refl. reflexivity. Qed.
Lemma upd_other : forall (A : Type) (f : N -> A) s v x, x <> s -> upd f s v x = f x.
Proof. intros. unfold upd. destruct (x =? s) eqn:E; [apply N.eqb_eq in E; congruence|reflexivity]. Qed.

Ltac split_eq x s :=
  destruct (N.eq_dec x s) as [->|?];
  [rewrite ?upd_same in *|rewrite ?upd_other in * by assumption].

Ltac sets :=
  repeat match goal with
         | H : memb _ _ = true |- _ => apply memb_In in H
         | H : memb _ _ = false |- _ => apply memb_false in H
         | H : In _ (add _ _) |- _ => apply In_add in H
         | H : In _ (del _ _) |- _ => apply In_del in H
         | |- In _ (add _ _) => apply In_add
         | |- In _ (del _ _) => apply In_del
         end.

Ltac conds Hs :=
  repeat match type of Hs with
         | context [if ?b then _ else _] => let E := fresh "E" in destruct b eqn:E
         end.

Ltac proj := cbn [known nofalloc dirty pendent written unl tmp_exists tmp_dirty tmp_open tmp_written
                  meta_exists meta_dirty ren_pending set_segs set_meta
                  segs t_exists t_pend t_open t_written meta m_pend m_dur with_segs with_tmp with_meta
                  f_exists f_synced f_pend f_dur fresh absent] in *.

(* events that only touch the metadata files: segment clauses are inherited *)
Ltac meta_case HR :=
  destruct HR as [H1 H2 H3 H4 H5 H6 H7 M1 M2 M3 M4 M5 M6 M7];
  constructor; proj; auto;
  repeat match goal with
         | H : andb _ _ = true |- _ => apply andb_true_iff in H; destruct H
         | H : negb _ = true |- _ => apply negb_true_iff in H
         end;
  try (intros; congruence).

Ltac fin := proj; sets; cbn [In app] in *;
            try solve [intuition (subst; eauto; try congruence; try discriminate)].

Ltac rw_exists HR :=
  rewrite ?(r_t_exists _ _ _ HR);
  repeat match goal with
         | E : tmp_exists _ = _ |- _ => rewrite ?E
         end.
Ltac rw_meta HR :=
  rewrite ?(r_meta _ _ _ HR);
  repeat match goal with
         | E : meta_exists _ = _ |- _ => rewrite ?E
         end; cbn [is_some].
Ltac tmpc HR Hs :=
  unfold tmp_write in Hs; conds Hs; try discriminate; injection Hs as <-;
  cbn [dstep lwstep]; unfold tmp_touch; rw_exists HR; meta_case HR.
Ltac metac HR Hs :=
  unfold meta_write in Hs; conds Hs; try discriminate; injection Hs as <-;
  cbn [dstep lwstep]; unfold meta_touch; rw_meta HR; first [exact HR | meta_case HR].
Ltac segc HR s :=
  destruct HR as [H1 H2 H3 H4 H5 H6 H7 M1 M2 M3 M4 M5 M6 M7];
  constructor; cbn [dstep lwstep]; proj; auto; intros x; intros; split_eq x s; fin.

Lemma step_R : forall seg c d lw e c',
  R c d lw -> step seg c e = inl c' -> R c' (dstep e d) (lwstep e lw).
Proof.
  intros seg c d lw e c' HR Hs.
  destruct e as [n|n|n|n mode off len|n off len|n len|n|n| |n|a b|n|k op m];
    try (destruct n as [s| | |o]); cbn [step] in Hs; try discriminate;
    try (injection Hs as <-; exact HR).
  - (* OpenExcl Seg *)
    conds Hs; [discriminate|]. injection Hs as <-.
    destruct HR as [H1 H2 H3 H4 H5 H6 H7 M1 M2 M3 M4 M5 M6 M7].
    constructor; cbn [dstep lwstep]; proj; auto; intros x; intros; split_eq x s; fin.
  - metac HR Hs.
  - tmpc HR Hs.
  - metac HR Hs.
  - tmpc HR Hs.
  - (* OpenW Seg *) conds Hs; [|discriminate]. injection Hs as <-. exact HR.
  - metac HR Hs.
  - tmpc HR Hs.
  - (* Fallocate Seg *) conds Hs; [|discriminate]. injection Hs as <-.
    destruct HR as [H1 H2 H3 H4 H5 H6 H7 M1 M2 M3 M4 M5 M6 M7]. constructor; proj; auto.
  - metac HR Hs.
  - tmpc HR Hs.
  - (* Pwrite Seg *)
    conds Hs; try discriminate. injection Hs as <-.
    apply negb_false_iff in E. apply memb_In in E.
    assert (Hex : f_exists (segs d s) = true) by (apply (r_known _ _ _ HR); exact E).
    cbn [dstep lwstep]. cbv zeta. rewrite Hex.
    destruct HR as [H1 H2 H3 H4 H5 H6 H7 M1 M2 M3 M4 M5 M6 M7].
    constructor; proj; auto; intros x; intros; split_eq x s; fin.
    rewrite app_assoc. apply in_or_app. destruct H as [<-|H]; [right; left; reflexivity|left; eauto].
  - metac HR Hs.
  - tmpc HR Hs.
  - metac HR Hs.
  - tmpc HR Hs.
  - (* Fsync Seg *)
    conds Hs; [|discriminate]. injection Hs as <-.
    destruct HR as [H1 H2 H3 H4 H5 H6 H7 M1 M2 M3 M4 M5 M6 M7].
    constructor; cbn [dstep lwstep]; cbv zeta; proj; auto; intros x; intros; split_eq x s; fin.
    rewrite app_nil_r. eauto.
  - metac HR Hs.
  - tmpc HR Hs.
  - (* Fdatasync Seg *)
    conds Hs; [|discriminate]. injection Hs as <-.
    destruct HR as [H1 H2 H3 H4 H5 H6 H7 M1 M2 M3 M4 M5 M6 M7].
    constructor; cbn [dstep lwstep]; cbv zeta; proj; auto; intros x; intros; split_eq x s; fin.
    rewrite app_nil_r. eauto.
  - metac HR Hs.
  - tmpc HR Hs.
  - (* FsyncDir *)
    injection Hs as <-.
    destruct HR as [H1 H2 H3 H4 H5 H6 H7 M1 M2 M3 M4 M5 M6 M7].
    constructor; cbn [dstep lwstep]; cbv zeta; proj; auto; intros; try congruence.
    rewrite M5, H in H0. discriminate.
  - (* Unlink Seg *)
    conds Hs; [|discriminate]. injection Hs as <-.
    destruct HR as [H1 H2 H3 H4 H5 H6 H7 M1 M2 M3 M4 M5 M6 M7].
    constructor; cbn [dstep lwstep]; proj; auto; intros x; intros; split_eq x s; fin.
  - tmpc HR Hs.
  - (* Rename *)
    destruct a as [sa| | |oa], b as [sb| | |ob]; cbn [step] in Hs; try discriminate.
    + (* MetaTmp -> Meta *)
      conds Hs; [|discriminate]. injection Hs as <-.
      cbn [dstep lwstep].
      destruct HR as [R1 R2 R3 R4 R5 R6 R7 M1 M2 M3 M4 M5 M6 M7].
      apply andb_true_iff in E. destruct E as [E Eo]. apply andb_true_iff in E. destruct E as [E Ed].
      apply andb_true_iff in E. destruct E as [Ee Ew].
      apply negb_true_iff in Eo. apply negb_true_iff in Ed.
      assert (Tw : t_written d = true) by auto.
      assert (Tp : t_pend d = false) by (destruct (t_pend d); [specialize (M2 eq_refl); congruence|reflexivity]).
      assert (To : t_open d = false) by (destruct (t_open d); [specialize (M3 eq_refl); congruence|reflexivity]).
      rewrite M1, Ee. constructor; proj; auto; try (intros; congruence).
      rewrite Tw, Tp, To. reflexivity.
    + injection Hs as <-. exact HR.
  - tmpc HR Hs.
  - (* Mark *)
    destruct k; cbn [step] in Hs.
    + injection Hs as <-. exact HR.
    + destruct (ack_check op c); [discriminate|]. injection Hs as <-. exact HR.
Qed.

(* ---- whole traces ------------------------------------------------------------ *)
Lemma check_app : forall seg t1 t2 c i,
  check seg c i (t1 ++ t2) =
  match check seg c i t1 with
  | inl c1 => check seg c1 (i + length t1) t2
  | inr v => inr v
  end.
Proof.
  induction t1 as [|e t1 IH]; intros t2 c i; cbn [app check length].
  - rewrite Nat.add_0_r. reflexivity.
  - destruct (step seg c e) as [c1|v]; [|reflexivity].
    rewrite IH. replace (S i + length t1)%nat with (i + S (length t1))%nat by lia. reflexivity.
Qed.

Definition lwrun (t : list event) (lw : N -> list (N * N)) : N -> list (N * N) :=
  fold_left (fun lw e => lwstep e lw) t lw.

Lemma check_R : forall seg t c d lw i c',
  R c d lw -> check seg c i t = inl c' -> R c' (drun t d) (lwrun t lw).
Proof.
  induction t as [|e t IH]; intros c d lw i c' HR Hc; cbn [check] in Hc.
  - injection Hc as <-. exact HR.
  - destruct (step seg c e) as [c1|v] eqn:Es; [|discriminate].
    cbn [drun lwrun fold_left]. eapply IH; [|exact Hc]. eapply step_R; eauto.
Qed.

(* a passing trace has a passing check on every prefix *)
Lemma discipline_prefix : forall seg t1 t2,
  discipline seg (t1 ++ t2) = true -> exists c1, check seg c0 0 t1 = inl c1.
Proof.
  intros seg t1 t2 H. unfold discipline, discipline_res in H. rewrite check_app in H.
  destruct (check seg c0 0 t1) as [c1|v]; [eauto|discriminate].
Qed.

Lemma ack_ok : forall seg c op n c', step seg c (Mark MAck op n) = inl c' -> ack_check op c = None.
Proof. intros seg c op n c' H. cbn [step] in H. destruct (ack_check op c); [discriminate|reflexivity]. Qed.

Lemma ack_check_none : forall op c, ack_check op c = None ->
  dirty c = [] /\ (forall s, In s (pendent c) -> ~ In s (written c)) /\ unl c = false /\
  ren_pending c = false /\ (op <> op_store -> meta_dirty c = false).
Proof.
  intros op c H. unfold ack_check in H.
  destruct (is_nil (dirty c)) eqn:E1; cbn [negb] in H; [|discriminate].
  destruct (forallb (fun s => negb (memb s (written c))) (pendent c)) eqn:E2; cbn [negb] in H; [|discriminate].
  destruct (unl c); [discriminate|]. destruct (ren_pending c); [discriminate|].
  assert (Hm : op <> op_store -> meta_dirty c = false).
  { intros Hop. destruct (meta_dirty c); [|reflexivity].
    replace (op =? op_store) with false in H by (symmetry; apply N.eqb_neq; exact Hop).
    discriminate. }
  split; [apply is_nil_true; exact E1|]. split; [|auto].
  intros s Hs Hw. rewrite forallb_forall in E2. specialize (E2 s Hs).
  apply negb_true_iff in E2. apply memb_false in E2. contradiction.
Qed.

(* C07_discipline_sound: at every ACK of a trace that obeys the discipline,
   every write a live segment file has received is in the synced content of a
   file that exists with a durable directory entry; nothing is pending in it;
   every deletion is durable; the metadata db is complete and durably named
   and -- at every ACK other than a StoreLogs', which may overlap the
   background rotation's metadata commit -- has no unsynced page. *)
Theorem discipline_sound : forall seg t1 op n t2,
  discipline seg (t1 ++ Mark MAck op n :: t2) = true ->
  let d := drun t1 d0 in
  (forall s w, In w (live_writes t1 s) ->
     f_exists (segs d s) = true /\ In w (f_synced (segs d s)) /\
     f_pend (segs d s) = [] /\ f_dur (segs d s) = true) /\
  (forall s, f_dur (segs d s) = true -> f_exists (segs d s) = true) /\
  (op <> op_store -> m_pend d = false) /\
  (meta d <> None -> meta d = Some true /\ m_dur d = true).
Proof.
  intros seg t1 op n t2 H. cbn zeta.
  replace (t1 ++ Mark MAck op n :: t2) with ((t1 ++ [Mark MAck op n]) ++ t2) in H
    by (rewrite <- app_assoc; reflexivity).
  destruct (discipline_prefix _ _ _ H) as [c2 Hc2].
  rewrite check_app in Hc2. destruct (check seg c0 0 t1) as [c1|v] eqn:Hc1; [|discriminate].
  cbn [check] in Hc2. destruct (step seg c1 (Mark MAck op n)) as [c1'|v] eqn:Hs; [|discriminate].
  pose proof (check_R _ _ _ _ _ _ _ R0 Hc1) as HR. fold (live_writes t1) in HR.
  unfold lwrun in HR. change (fold_left (fun lw e => lwstep e lw) t1 (fun _ => [])) with (live_writes t1) in HR.
  destruct (ack_check_none _ _ (ack_ok _ _ _ _ _ Hs)) as (Hd & Hp & Hu & Hr & Hm).
  destruct HR as [H1 H2 H3 H4 H5 H6 H7 M1 M2 M3 M4 M5 M6 M7].
  assert (Hpend : forall s, f_pend (segs (drun t1 d0) s) = []).
  { intros s. destruct (f_pend (segs (drun t1 d0) s)) eqn:E; [reflexivity|].
    exfalso. assert (In s (dirty c1)) by (apply H4; rewrite E; discriminate). rewrite Hd in H0. contradiction. }
  split; [|split; [|split]].
  - intros s w Hw.
    assert (Hk : f_exists (segs (drun t1 d0) s) = true) by eauto.
    split; [exact Hk|]. split.
    + specialize (H3 s w Hw). rewrite Hpend, app_nil_r in H3. exact H3.
    + split; [apply Hpend|].
      destruct (f_dur (segs (drun t1 d0) s)) eqn:E; [reflexivity|].
      exfalso. apply (Hp s); eauto.
  - intros s Hdur. destruct (f_exists (segs (drun t1 d0) s)) eqn:E; [reflexivity|].
    specialize (H6 s Hdur E). congruence.
  - intros Hop. specialize (Hm Hop).
    destruct (m_pend (drun t1 d0)); [specialize (M6 eq_refl); congruence|reflexivity].
  - intros Hne. rewrite M5 in *. destruct (meta_exists c1); [|congruence].
    split; [reflexivity|].
    destruct (m_dur (drun t1 d0)) eqn:E; [reflexivity|]. specialize (M7 eq_refl eq_refl). congruence.
Qed.

(* C07_meta_appears_complete: in no prefix of a trace that obeys the
   discipline is the name wal-meta.db bound to a file that was incomplete
   (unwritten, unsynced or still open for writing) when it received the name *)
Theorem meta_appears_complete : forall seg t1 t2,
  discipline seg (t1 ++ t2) = true -> meta (drun t1 d0) <> Some false.
Proof.
  intros seg t1 t2 H. destruct (discipline_prefix _ _ _ H) as [c1 Hc1].
  pose proof (check_R _ _ _ _ _ _ _ R0 Hc1) as HR.
  rewrite (r_meta _ _ _ HR). destruct (meta_exists c1); discriminate.
Qed.

(* ---- the fs-layer model obeys the discipline ------------------------------- *)
Lemma h_get_set_same : forall s b h, h_get s (h_set s b h) = Some b.
Proof. intros. unfold h_set. cbn [h_get]. rewrite N.eqb_refl. reflexivity. Qed.
Lemma h_get_del_other : forall s x h, x <> s -> h_get x (h_del s h) = h_get x h.
Proof.
  intros s x h Hne. induction h as [|[s' b] h IH]; cbn [h_del h_get]; [reflexivity|].
  destruct (s' =? s) eqn:E.
  - apply N.eqb_eq in E. subst s'. rewrite IH.
    destruct (s =? x) eqn:E2; [apply N.eqb_eq in E2; congruence|reflexivity].
  - cbn [h_get]. rewrite IH. reflexivity.
Qed.
Lemma h_get_set_other : forall s x b h, x <> s -> h_get x (h_set s b h) = h_get x h.
Proof.
  intros. unfold h_set. cbn [h_get]. destruct (s =? x) eqn:E; [apply N.eqb_eq in E; congruence|].
  apply h_get_del_other. assumption.
Qed.
Lemma del_add_nil : forall s, del s (add s []) = [].
Proof. intros s. unfold add, del. cbn. destruct (N.eq_dec s s); [reflexivity|congruence]. Qed.
Lemma memb_add_nil : forall s, memb s (add s []) = true.
Proof. intros s. apply memb_In. apply In_add. left. reflexivity. Qed.

Record Q (w : wst) (h : handles) (c : cst) : Prop := {
  q_known : forall s, In s (known c) <-> In s (w_exists w);
  q_nofalloc : nofalloc c = [];
  q_dirty : forall s, In s (dirty c) -> In s (w_dirty w);
  q_pw : forall s, In s (pendent c) -> In s (written c) -> In s (w_dirty w);
  q_handle : forall s, In s (pendent c) -> In s (w_open w) -> h_get s h = Some false;
  q_unl : unl c = false;
  q_ren : ren_pending c = false;
  q_md : meta_dirty c = false;
  q_tmp : tmp_exists c = false;
  q_meta : meta_exists c = w_meta w }.

Lemma Q0 : Q w0 [] c0.
Proof. constructor; cbn; intros; try tauto; auto. Qed.

Ltac wproj := cbn [w_exists w_open w_dirty w_meta] in *.

Lemma fs_step_ok : forall seg w h c o w' i,
  Q w h c -> wf_step w o = Some w' ->
  exists c', check seg c i (fst (fs_step seg h o)) = inl c' /\ Q w' (snd (fs_step seg h o)) c'.
Proof.
  intros seg w h c o w' i HQ Hw.
  destruct HQ as [K NF D PW HH U RP MD TE ME].
  destruct o as [s|s|s off len|s|s|s| | |k op n]; cbn [wf_step] in Hw; cbn [fs_step fst snd].
  - (* FCreate *)
    destruct (memb s (w_exists w)) eqn:E; [discriminate|]. injection Hw as <-.
    assert (Ek : memb s (known c) = false).
    { apply memb_false. apply memb_false in E. rewrite K. exact E. }
    cbn [check step]. rewrite Ek. proj. rewrite NF, memb_add_nil, !N.eqb_refl. cbn [andb]. proj.
    rewrite del_add_nil. eexists. split; [reflexivity|].
    apply memb_false in E.
    constructor; proj; wproj; auto.
    + intros x. cbn [In]. rewrite K. tauto.
    + intros x Hx. sets. apply D. tauto.
    + intros x Hp Hwr. sets. destruct Hp as [->|Hp]; [tauto|]. apply PW; tauto.
    + intros x Hp Ho. sets. destruct (N.eq_dec x s) as [->|Hne]; [apply h_get_set_same|].
      rewrite h_get_set_other by assumption. apply HH; tauto.
  - (* FOpenWriter *)
    destruct (memb s (w_exists w)) eqn:E; [|discriminate]. injection Hw as <-.
    assert (Ek : memb s (known c) = true).
    { apply memb_In. apply memb_In in E. rewrite K. exact E. }
    cbn [check step]. rewrite Ek. eexists. split; [reflexivity|].
    constructor; wproj; auto.
    intros x Hp Ho. sets. destruct (N.eq_dec x s) as [->|Hne]; [apply h_get_set_same|].
    rewrite h_get_set_other by assumption. apply HH; tauto.
  - (* FWrite *)
    destruct (memb s (w_open w) && memb s (w_exists w)) eqn:E; [|discriminate]. injection Hw as <-.
    apply andb_true_iff in E. destruct E as [Eo Ee].
    assert (Ek : memb s (known c) = true).
    { apply memb_In. apply memb_In in Ee. rewrite K. exact Ee. }
    cbn [check step]. rewrite Ek, NF. cbn [negb memb existsb]. eexists. split; [reflexivity|].
    constructor; proj; wproj; auto.
    + intros x Hx. sets. destruct Hx; auto.
    + intros x Hp Hwr. sets. destruct Hwr; auto.
  - (* FSync *)
    destruct (memb s (w_open w) && memb s (w_exists w)) eqn:E; [|discriminate]. injection Hw as <-.
    apply andb_true_iff in E. destruct E as [Eo Ee].
    assert (Ek : memb s (known c) = true).
    { apply memb_In. apply memb_In in Ee. rewrite K. exact Ee. }
    destruct (h_get s h) as [[|]|] eqn:EH; cbn [fst snd check step]; rewrite Ek; proj.
    + (* handle has synced the directory already *)
      eexists. split; [reflexivity|]. constructor; proj; wproj; auto.
      * intros x Hx. sets. split; [apply D|]; tauto.
      * intros x Hp Hwr. sets. split; [auto|].
        intros ->. rewrite (HH s Hp Eo) in EH. discriminate.
    + (* first Sync through this handle: directory fsync too *)
      eexists. split; [reflexivity|]. constructor; proj; wproj; auto; try (intros; contradiction).
      intros x Hx. sets. split; [apply D|]; tauto.
    + eexists. split; [reflexivity|]. constructor; proj; wproj; auto.
      * intros x Hx. sets. split; [apply D|]; tauto.
      * intros x Hp Hwr. sets. split; [auto|].
        intros ->. rewrite (HH s Hp Eo) in EH. discriminate.
  - (* FClose *)
    destruct (memb s (w_open w)) eqn:E; [|discriminate]. injection Hw as <-.
    cbn [check step]. eexists. split; [reflexivity|]. constructor; wproj; auto.
    intros x Hp Ho. sets. destruct Ho as [Ho Hne]. rewrite h_get_del_other by assumption. auto.
  - (* FDelete *)
    destruct (memb s (w_exists w)) eqn:E; [|discriminate]. injection Hw as <-.
    assert (Ek : memb s (known c) = true).
    { apply memb_In. apply memb_In in E. rewrite K. exact E. }
    cbn [check step]. rewrite Ek. proj. eexists. split; [reflexivity|].
    constructor; proj; wproj; auto; try (intros; contradiction).
    + intros x. split; intros Hx; sets; (split; [apply K|]; tauto).
    + rewrite NF. reflexivity.
    + intros x Hx. sets. split; [apply D|]; tauto.
  - (* FMetaInit *)
    destruct (w_meta w) eqn:E; [discriminate|]. injection Hw as <-.
    unfold meta_init_events. cbn [check step tmp_write]. rewrite TE. proj. cbn [andb negb]. proj.
    eexists. split; [reflexivity|]. constructor; proj; wproj; auto; intros x Hx; contradiction.
  - (* FMetaCommit *)
    destruct (w_meta w) eqn:E; [|discriminate]. injection Hw as <-.
    unfold meta_commit_events. cbn [check step]. unfold meta_write. rewrite ME. cbn [check step]. proj.
    eexists. split; [reflexivity|]. constructor; proj; wproj; auto.
  - (* FMark *)
    destruct k.
    + injection Hw as <-. cbn [check step]. eexists. split; [reflexivity|]. constructor; auto.
    + destruct (is_nil (w_dirty w)) eqn:E; [|discriminate]. injection Hw as <-.
      apply is_nil_true in E.
      assert (Hd : dirty c = []).
      { destruct (dirty c) as [|x l] eqn:Ed; [reflexivity|]. exfalso.
        assert (In x (w_dirty w)) by (apply D; left; reflexivity). rewrite E in H. contradiction. }
      assert (Hf : forallb (fun s => negb (memb s (written c))) (pendent c) = true).
      { apply forallb_forall. intros x Hx. apply negb_true_iff. apply memb_false. intros Hwr.
        assert (In x (w_dirty w)) by (apply PW; assumption). rewrite E in H. contradiction. }
      cbn [check step]. unfold ack_check. rewrite Hd, Hf, U, RP, MD. cbn.
      
      eexists. split; [reflexivity|]. constructor; auto.
Qed.

Lemma fs_trace_ok_from : forall seg ops w h c i,
  Q w h c -> wf_ops_from w ops = true ->
  exists c', check seg c i (fs_trace_from seg h ops) = inl c' /\ nofalloc c' = [].
Proof.
  induction ops as [|o ops IH]; intros w h c i HQ Hwf; cbn [fs_trace_from wf_ops_from] in *.
  - exists c. split; [reflexivity|apply (q_nofalloc _ _ _ HQ)].
  - destruct (wf_step w o) as [w'|] eqn:Ew; [|discriminate].
    destruct (fs_step_ok seg w h c o w' i HQ Ew) as (c1 & Hc1 & HQ1).
    destruct (fs_step seg h o) as [ev h'] eqn:Ef. cbn [fst snd] in *.
    rewrite check_app, Hc1. eapply IH; eauto.
Qed.

(* C07_model_traces_ok *)
Theorem model_traces_ok : forall seg ops, wf_ops ops = true -> discipline seg (fs_trace seg ops) = true.
Proof.
  intros seg ops H. unfold discipline, discipline_res, fs_trace.
  destruct (fs_trace_ok_from seg ops w0 [] c0 0%nat Q0 H) as (c' & Hc & Hn).
  rewrite Hc. unfold final_ok. rewrite Hn. reflexivity.
Qed.
