(* FaultDisciplineFacts.v -- C07 on fault paths: the fs-layer model under one
   injected syscall failure ([fs_step_f], Discipline.v; fs/file.go as of b0161d2,
   metadb.go as of 862e6cb) against the extended discipline [xdiscipline] over
   traces with failed syscalls and call results.
   For ALL op sequences (valid or not) and ALL fault positions:
     fault_full_ok     every clause, the two directory clauses included
     fault_core_ok     (corollary) the clauses without them
   and what acceptance means on the trace itself, for any trace:
     delete_ok_sound, create_ok_sound, sync_ok_sound, meta_ok_sound. *)
From Coq Require Import ZifyN ZifyNat ZifyBool.
From RW Require Import Base.Bytes Fs.Discipline Fs.DisciplineFacts.
Open Scope N_scope.

(* ---- the checker without the index ---------------------------------------- *)
Fixpoint xrun (full : bool) (seg : N) (c : xst) (t : list xevent) : xst + xviol :=
  match t with
  | [] => inl c
  | x :: r => match xstep full seg c x with
              | inl c' => xrun full seg c' r
              | inr v => inr v
              end
  end.

Lemma xcheck_xrun : forall full seg t c i c',
  xrun full seg c t = inl c' -> xcheck full seg c i t = inl c'.
Proof.
  induction t as [|x t IH]; intros c i c' H; cbn [xrun xcheck] in *.
  - injection H as <-. reflexivity.
  - destruct (xstep full seg c x) as [c1|v]; [|discriminate]. apply IH. exact H.
Qed.

Lemma xrun_app : forall full seg t1 t2 c,
  xrun full seg c (t1 ++ t2) =
  match xrun full seg c t1 with inl c1 => xrun full seg c1 t2 | inr v => inr v end.
Proof.
  induction t1 as [|x t1 IH]; intros t2 c; cbn [app xrun]; [reflexivity|].
  destruct (xstep full seg c x) as [c1|v]; [apply IH|reflexivity].
Qed.

(* ---- finite sets / handles -------------------------------------------------- *)
Lemma memb_add_same : forall s l, memb s (add s l) = true.
Proof. intros. apply memb_In. apply In_add. left. reflexivity. Qed.
Lemma memb_del_same : forall s l, memb s (del s l) = false.
Proof. intros. apply memb_false. intros H. apply In_del in H. destruct H as [_ H]. congruence. Qed.
Lemma memb_nil : forall s, memb s [] = false.
Proof. reflexivity. Qed.
Lemma h_get_del_same : forall s h, h_get s (h_del s h) = None.
Proof.
  intros s h. induction h as [|[s' b] h IH]; cbn [h_del h_get]; [reflexivity|].
  destruct (s' =? s) eqn:E; [exact IH|]. cbn [h_get]. rewrite E. exact IH.
Qed.

(* ---- the invariant between the model state and the checker state ------------ *)
Record Inv (full : bool) (st : fstate) (c : xst) : Prop := {
  i_meta : s_meta st = true -> x_me c = true;
  i_hex : forall s, h_get s (s_h st) <> None -> In s (s_ex st);
  i_pend : full = true -> forall s, In s (x_pend c) -> h_get s (s_h st) <> Some true }.

Lemma Inv0 : forall full f, Inv full (st0 f) x0.
Proof.
  intros. constructor; cbn; intros; try discriminate; try contradiction; auto.
Qed.

Ltac xproj := cbn [x_gone x_unl x_pend x_call x_te x_td x_to x_tw x_me x_ren xs_segs xs_meta xs_call
                   s_h s_ex s_tmp s_meta s_mopen s_flt st_files st_meta] in *.
Ltac xsimp := cbn [app xrun xstep xok_step xret_check existsb is_excl is_falloc is_fsync
                   andb orb negb fst snd]; xproj.

Ltac brk H :=
  repeat (match type of H with
          | context [match ?x with _ => _ end] =>
              match type of x with
              | (_ * _)%type => let a := fresh "r" in let b := fresh "f" in destruct x as [a b] eqn:?
              | bool => destruct x eqn:?
              | option _ => destruct x eqn:?
              end
          end; cbn [fst snd] in H).

Lemma sys_natfail : forall c nf f ok f', sys c nf f = (ok, f') -> ok = true -> nf = false.
Proof.
  intros c nf f ok f' H Hok. unfold sys in H. destruct (attempt c f) as [inj f1].
  injection H as H _. subst ok. apply negb_true_iff in Hok. apply orb_false_iff in Hok. tauto.
Qed.

Lemma existsb_cons : forall (A : Type) (f : A -> bool) x l, existsb f (x :: l) = f x || existsb f l.
Proof. reflexivity. Qed.

Ltac xbool :=
  repeat (rewrite ?existsb_cons; cbn [is_excl is_falloc is_fsync];
          rewrite ?N.eqb_refl, ?memb_add_same, ?memb_del_same, ?memb_nil; cbn [andb orb negb]).

Ltac hcase x s :=
  destruct (N.eq_dec x s) as [->|?];
  [rewrite ?h_get_set_same, ?h_get_del_same in *
  |rewrite ?h_get_set_other, ?h_get_del_other in * by assumption].

Lemma syncdir_cases : forall f ev ok f', xf_syncdir f = (ev, ok, f') ->
  (ev = [XOpenDir true; XOk FsyncDir] /\ ok = true) \/
  (ev = [XOpenDir true; XFail FsyncDir] /\ ok = false) \/
  (ev = [XOpenDir false] /\ ok = false).
Proof.
  intros f ev ok f' H. unfold xf_syncdir in H. brk H; injection H as <- <- _; auto.
Qed.

Ltac sd :=
  match goal with
  | H : xf_syncdir _ = (_, _, _) |- _ =>
      let E := fresh "E" in
      destruct (syncdir_cases _ _ _ _ H) as [[-> E]|[[-> E]|[-> E]]]; try discriminate E; try subst
  end.

(* the common end of every case: the checker accepts the call, the invariant holds *)
Ltac accept := eexists; split; [reflexivity|].
Ltac inv HI := destruct HI as [IM IH IP]; constructor; xproj; auto.

Lemma step_create : forall full seg st c s ev ok st',
  Inv full st c -> xf_create seg st s = (ev, ok, st') ->
  exists c', xrun full seg c (ev ++ [XRet (FCreate s) ok]) = inl c' /\ Inv full st' c'.
Proof.
  intros full seg st c s ev ok st' HI H. unfold xf_create in H. brk H.
  all: injection H as <- <- <-; xsimp; xbool; accept; inv HI.
  - (* created *)
    intros x Hx. hcase x s; sets; auto.
  - intros Hf x Hx. sets. hcase x s; [discriminate|]. destruct Hx; [contradiction|auto].
  - (* fallocate failed: the file stays, no handle is returned *)
    intros x Hx. sets. auto.
  - intros Hf x Hx. sets. destruct Hx as [->|Hx]; [|auto].
    apply sys_natfail in Heqp; [|reflexivity]. apply memb_false in Heqp.
    intros Hg. apply Heqp. apply IH. congruence.
Qed.

Lemma step_openw : forall full seg st c s ev ok st',
  Inv full st c -> xf_openw st s = (ev, ok, st') ->
  exists c', xrun full seg c (ev ++ [XRet (FOpenWriter s) ok]) = inl c' /\ Inv full st' c'.
Proof.
  intros full seg st c s ev ok st' HI H. unfold xf_openw in H. brk H.
  all: injection H as <- <- <-; xsimp; xbool; accept; inv HI.
  - intros x Hx. hcase x s; [|auto].
    apply sys_natfail in Heqp; [|reflexivity]. apply negb_false_iff in Heqp. apply memb_In. exact Heqp.
  - intros Hf x Hx. hcase x s; [discriminate|auto].
Qed.

Lemma step_write : forall full seg st c s off len ev ok st',
  Inv full st c -> xf_write st s off len = (ev, ok, st') ->
  exists c', xrun full seg c (ev ++ [XRet (FWrite s off len) ok]) = inl c' /\ Inv full st' c'.
Proof.
  intros full seg st c s off len ev ok st' HI H. unfold xf_write in H. brk H.
  all: injection H as <- <- <-; xsimp; xbool; accept; inv HI.
Qed.

Lemma step_close : forall full seg st c s ev ok st',
  Inv full st c -> xf_close st s = (ev, ok, st') ->
  exists c', xrun full seg c (ev ++ [XRet (FClose s) ok]) = inl c' /\ Inv full st' c'.
Proof.
  intros full seg st c s ev ok st' HI H. unfold xf_close in H. brk H.
  all: injection H as <- <- <-; xsimp; xbool; accept; inv HI.
  - intros x Hx. hcase x s; [congruence|auto].
  - intros Hf x Hx. hcase x s; [discriminate|auto].
Qed.

Lemma step_delete : forall full seg st c s ev ok st',
  Inv full st c -> xf_delete st s = (ev, ok, st') ->
  exists c', xrun full seg c (ev ++ [XRet (FDelete s) ok]) = inl c' /\ Inv full st' c'.
Proof.
  intros full seg st c s ev ok st' HI H. unfold xf_delete in H. brk H.
  all: try sd.
  all: injection H as <- <- <-; xsimp; xbool; accept; inv HI.
  all: try (intros x Hx; hcase x s; [congruence|]; sets; auto; fail).
  all: try (intros Hf x Hx; contradiction).
  all: try (intros Hf x Hx; sets; hcase x s; [discriminate|]; try tauto; auto; fail).
  all: intros Hf x Hx; sets; destruct Hx as [Hx Hn]; hcase x s; [congruence|auto].
Qed.

Lemma step_metacommit : forall full seg st c ev ok st',
  Inv full st c -> xf_metacommit st = (ev, ok, st') ->
  exists c', xrun full seg c (ev ++ [XRet FMetaCommit ok]) = inl c' /\ Inv full st' c'.
Proof.
  intros full seg st c ev ok st' HI H. unfold xf_metacommit in H. brk H.
  all: injection H as <- <- <-; xsimp; xbool; accept; inv HI.
Qed.

(* Sync: the handle is marked only when the directory fsync succeeded, so a
   pending entry always meets a handle that still fsyncs the directory *)
Lemma step_sync : forall full seg st c s ev ok st',
  Inv full st c -> xf_sync st s = (ev, ok, st') ->
  exists c', xrun full seg c (ev ++ [XRet (FSync s) ok]) = inl c' /\ Inv full st' c'.
Proof.
  intros full seg st c s ev ok st' HI H. unfold xf_sync in H. brk H.
  all: try sd.
  all: injection H as <- <- <-.
  - (* the handle has fsynced the directory before: the entry is not pending *)
    xsimp; xbool.
    assert (Hp : full && memb s (x_pend c) = false).
    { destruct full; [|reflexivity]. cbn [andb]. apply memb_false. intros Hin.
      apply (i_pend _ _ _ HI eq_refl s Hin). exact Heqo. }
    rewrite Hp. accept. inv HI.
  - (* directory fsynced: nothing is pending any more *)
    xsimp; xbool. rewrite andb_false_r. accept. inv HI.
    all: try (intros Hf x Hx; contradiction).
    all: try (intros x Hx; hcase x s; [|auto]; apply IH; congruence).
  - (* the directory fsync failed: the handle stays unmarked *)
    xsimp; xbool. accept. inv HI.
  - (* the directory could not be opened *)
    xsimp; xbool. accept. inv HI.
  - (* the file fsync failed: nothing changed *)
    xsimp; xbool. accept. inv HI.
  - xsimp; xbool. accept. inv HI.
Qed.

Ltac te_cases :=
  repeat match goal with
         | |- context [if x_te ?c then _ else _] => destruct (x_te c)
         end.

Lemma step_metainit : forall full seg st c ev ok st',
  Inv full st c -> xf_metainit st = (ev, ok, st') ->
  exists c', xrun full seg c (ev ++ [XRet FMetaInit ok]) = inl c' /\ Inv full st' c'.
Proof.
  intros full seg st c ev ok st' HI H. unfold xf_metainit in H.
  destruct (s_meta st) eqn:Em.
  - (* wal-meta.db exists: directory fsync, then open *)
    pose proof (i_meta _ _ _ HI Em) as Hme.
    destruct (s_mopen st); brk H; try sd; injection H as <- <- <-;
      repeat (progress (xsimp; rewrite ?Hme, ?andb_false_r)); accept; inv HI;
      try (intros Hf x Hx; contradiction).
  - destruct (s_mopen st), (s_tmp st); brk H.
    all: try sd.
    all: injection H as <- <- <-.
    all: repeat (progress (xsimp; te_cases; rewrite ?andb_false_r)); accept; inv HI;
         try (intros; discriminate); try (intros Hf x Hx; contradiction).
Qed.

Lemma step_inv : forall full seg st c o ev ok st',
  Inv full st c -> fs_step_f seg st o = (ev, ok, st') ->
  exists c', xrun full seg c (ev ++ [XRet o ok]) = inl c' /\ Inv full st' c'.
Proof.
  intros full seg st c o ev ok st' HI H. destruct o as [s|s|s off len|s|s|s| | |k op n]; cbn [fs_step_f] in H.
  - eapply step_create; eauto.
  - eapply step_openw; eauto.
  - eapply step_write; eauto.
  - eapply step_sync; eauto.
  - eapply step_close; eauto.
  - eapply step_delete; eauto.
  - eapply step_metainit; eauto.
  - eapply step_metacommit; eauto.
  - injection H as <- <- <-. xsimp. accept. inv HI.
Qed.

Lemma run_inv : forall full seg ops st c,
  Inv full st c -> exists c', xrun full seg c (xtrace_of (fs_run_from seg st ops)) = inl c'.
Proof.
  induction ops as [|o ops IHo]; intros st c HI; cbn [fs_run_from].
  - exists c. reflexivity.
  - destruct (fs_step_f seg st o) as [[ev ok] st'] eqn:Es.
    cbn [xtrace_of flat_map xcall_trace]. fold (xtrace_of (fs_run_from seg st' ops)).
    destruct (step_inv full seg st c o ev ok st' HI Es) as (c1 & Hc1 & HI1).
    rewrite xrun_app, Hc1. apply IHo. exact HI1.
Qed.

Lemma fault_ok : forall full seg ops f, xdiscipline full seg (fs_xtrace seg ops f) = true.
Proof.
  intros full seg ops f. unfold xdiscipline, xdiscipline_res, fs_xtrace, fs_run_f.
  destruct (run_inv full seg ops (st0 f) x0 (Inv0 full f)) as (c' & Hc).
  rewrite (xcheck_xrun _ _ _ _ _ _ Hc). reflexivity.
Qed.

(* C07_fault_full_ok: for every op sequence (valid or not) and every fault
   position the model's trace obeys the whole discipline: a Delete reports nil
   only if the name was unlinked and a successful directory fsync followed the
   unlink; a Create only after a successful O_EXCL open and a successful
   fallocate(0, 0, size); a Sync only after a successful fsync of the file and
   with a successful directory fsync since the file was created; a Load only
   when wal-meta.db got its name by rename of a written, synced and closed tmp
   file and a successful directory fsync followed the rename *)
Theorem fault_full_ok : forall seg ops f, xdiscipline true seg (fs_xtrace seg ops f) = true.
Proof. intros. apply fault_ok. Qed.

(* the same without the two directory clauses (what held before b0161d2 / 862e6cb) *)
Corollary fault_core_ok : forall seg ops f, xdiscipline false seg (fs_xtrace seg ops f) = true.
Proof. intros. apply fault_ok. Qed.

(* ---- what the clauses of the checker mean on the trace itself ---------------- *)
Lemma xcheck_inl_xrun : forall full seg t c i c',
  xcheck full seg c i t = inl c' -> xrun full seg c t = inl c'.
Proof.
  induction t as [|x t IH]; intros c i c' H; cbn [xrun xcheck] in *.
  - injection H as <-. reflexivity.
  - destruct (xstep full seg c x) as [c1|v]; [|discriminate]. eapply IH. exact H.
Qed.

Lemma xdiscipline_split : forall full seg t1 x t2,
  xdiscipline full seg (t1 ++ x :: t2) = true ->
  exists c1 c2, xrun full seg x0 t1 = inl c1 /\ xstep full seg c1 x = inl c2.
Proof.
  intros full seg t1 x t2 H. unfold xdiscipline, xdiscipline_res in H.
  destruct (xcheck full seg x0 0 (t1 ++ x :: t2)) as [c'|v] eqn:E; [|discriminate].
  apply xcheck_inl_xrun in E. rewrite xrun_app in E.
  destruct (xrun full seg x0 t1) as [c1|v]; [|discriminate]. cbn [xrun] in E.
  destruct (xstep full seg c1 x) as [c2|v] eqn:E2; [|discriminate]. eauto.
Qed.

(* a successful syscall other than a create / unlink of a segment file and a
   directory fsync leaves the segment sets alone; none touches [x_call] *)
Lemma xok_step_frame : forall c e c1, xok_step c e = inl c1 ->
  x_call c1 = x_call c /\
  ((forall s, e <> OpenExcl (Seg s)) -> (forall s, e <> Unlink (Seg s)) -> e <> FsyncDir ->
   x_gone c1 = x_gone c /\ x_unl c1 = x_unl c /\ x_pend c1 = x_pend c).
Proof.
  intros c e c1 H.
  destruct e as [n|n|n|n m o l|n o l|n l|n|n| |n|a b|n|k op m];
    try (destruct n as [s| | |i]); try (destruct a as [sa| | |ia]; destruct b as [sb| | |ib]);
    cbn [xok_step] in H; brk H; try discriminate; injection H as <-; xproj; split; auto;
    intros H1 H2 H3; try (exfalso; eapply H1; reflexivity); try (exfalso; eapply H2; reflexivity);
    try (exfalso; apply H3; reflexivity).
Qed.

(* the last successful unlink of [s] in [t] was followed by a successful
   directory fsync, and [s] was not created again *)
Definition last_unlink_dir_synced (s : N) (t : list xevent) : Prop :=
  exists a b, t = a ++ XOk (Unlink (Seg s)) :: b /\
              ~ In (XOk (Unlink (Seg s))) b /\ ~ In (XOk (OpenExcl (Seg s))) b /\
              In (XOk FsyncDir) b.

Definition G (t : list xevent) (c : xst) : Prop :=
  forall s, In s (x_gone c) ->
  exists a b, t = a ++ XOk (Unlink (Seg s)) :: b /\
              ~ In (XOk (Unlink (Seg s))) b /\ ~ In (XOk (OpenExcl (Seg s))) b /\
              (~ In s (x_unl c) -> In (XOk FsyncDir) b).

Lemma G_other : forall t c c' x,
  G t c -> x_gone c' = x_gone c -> x_unl c' = x_unl c ->
  (forall s, x <> XOk (Unlink (Seg s))) -> (forall s, x <> XOk (OpenExcl (Seg s))) ->
  G (t ++ [x]) c'.
Proof.
  intros t c c' x HG Hg Hu H1 H2 s Hin. rewrite Hg in Hin.
  destruct (HG s Hin) as (a & b & -> & Hb1 & Hb2 & Hb3).
  exists a, (b ++ [x]). split; [rewrite <- app_assoc; reflexivity|].
  split; [|split].
  - intros Hi. apply in_app_or in Hi. destruct Hi as [Hi|[Hi|[]]]; [auto|]. eapply H1; eauto.
  - intros Hi. apply in_app_or in Hi. destruct Hi as [Hi|[Hi|[]]]; [auto|]. eapply H2; eauto.
  - intros Hn. rewrite Hu in Hn. apply in_or_app. left. auto.
Qed.

Lemma G_step : forall full seg t c x c', G t c -> xstep full seg c x = inl c' -> G (t ++ [x]) c'.
Proof.
  intros full seg t c x c' HG H. destruct x as [e|e|b|o ok]; cbn [xstep] in H.
  - destruct (xok_step c e) as [c1|v] eqn:E; [|discriminate]. injection H as <-.
    destruct (xok_step_frame _ _ _ E) as [_ Hfr].
    destruct e as [n|n|n|n m o l|n o l|n l|n|n| |n|a b|n|k op m]; try (destruct n as [s'| | |i]).
    all: try (destruct Hfr as (Hg & Hu & _); try (intros; discriminate);
              eapply G_other; eauto; xproj; try exact Hg; try exact Hu; intros; discriminate).
    + (* OpenExcl (Seg s') *)
      cbn [xok_step] in E. injection E as <-. intros s Hin. xproj. sets. destruct Hin as [Hin Hne].
      destruct (HG s Hin) as (a & b & -> & Hb1 & Hb2 & Hb3).
      exists a, (b ++ [XOk (OpenExcl (Seg s'))]). split; [rewrite <- app_assoc; reflexivity|].
      split; [|split].
      * intros Hi. apply in_app_or in Hi. destruct Hi as [Hi|[Hi|[]]]; [auto|discriminate].
      * intros Hi. apply in_app_or in Hi. destruct Hi as [Hi|[Hi|[]]]; [auto|]. injection Hi as ->. congruence.
      * intros Hn. apply in_or_app. left. apply Hb3. intros Hu. apply Hn. sets. auto.
    + (* FsyncDir *)
      cbn [xok_step] in E. injection E as <-. intros s Hin. xproj.
      destruct (HG s Hin) as (a & b & -> & Hb1 & Hb2 & Hb3).
      exists a, (b ++ [XOk FsyncDir]). split; [rewrite <- app_assoc; reflexivity|].
      split; [|split].
      * intros Hi. apply in_app_or in Hi. destruct Hi as [Hi|[Hi|[]]]; [auto|discriminate].
      * intros Hi. apply in_app_or in Hi. destruct Hi as [Hi|[Hi|[]]]; [auto|discriminate].
      * intros _. apply in_or_app. right. left. reflexivity.
    + (* Unlink (Seg s') *)
      cbn [xok_step] in E. injection E as <-. intros s Hin. xproj. sets.
      destruct (N.eq_dec s s') as [->|Hne].
      * exists t, []. split; [reflexivity|]. split; [tauto|]. split; [tauto|].
        intros Hn. exfalso. apply Hn. sets. auto.
      * destruct Hin as [Hin|Hin]; [congruence|].
        destruct (HG s Hin) as (a & b & -> & Hb1 & Hb2 & Hb3).
        exists a, (b ++ [XOk (Unlink (Seg s'))]). split; [rewrite <- app_assoc; reflexivity|].
        split; [|split].
        -- intros Hi. apply in_app_or in Hi. destruct Hi as [Hi|[Hi|[]]]; [auto|]. injection Hi as ->. congruence.
        -- intros Hi. apply in_app_or in Hi. destruct Hi as [Hi|[Hi|[]]]; [auto|discriminate].
        -- intros Hn. apply in_or_app. left. apply Hb3. intros Hu. apply Hn. sets. auto.
  - injection H as <-. eapply G_other; eauto; intros; discriminate.
  - injection H as <-. eapply G_other; eauto; intros; discriminate.
  - assert (Hc : c' = xs_call c []).
    { destruct ok; [destruct (xret_check full seg c o); [discriminate|]|]; injection H as <-; reflexivity. }
    subst c'. eapply G_other; eauto; intros; discriminate.
Qed.

Lemma G_run : forall full seg t2 t1 c c', G t1 c -> xrun full seg c t2 = inl c' -> G (t1 ++ t2) c'.
Proof.
  induction t2 as [|x t2 IH]; intros t1 c c' HG H; cbn [xrun] in H.
  - injection H as <-. rewrite app_nil_r. exact HG.
  - destruct (xstep full seg c x) as [c1|v] eqn:E; [|discriminate].
    replace (t1 ++ x :: t2) with ((t1 ++ [x]) ++ t2) by (rewrite <- app_assoc; reflexivity).
    eapply IH; [|exact H]. eapply G_step; eauto.
Qed.

(* C07_fault_delete_ok_sound: in ANY trace the (core or full) discipline
   accepts, a Delete that reports nil comes after a successful unlink of that
   name which was followed by a successful directory fsync (and the name was
   not created again in between) *)
Theorem delete_ok_sound : forall full seg t1 s t2,
  xdiscipline full seg (t1 ++ XRet (FDelete s) true :: t2) = true -> last_unlink_dir_synced s t1.
Proof.
  intros full seg t1 s t2 H. destruct (xdiscipline_split _ _ _ _ _ H) as (c1 & c2 & Hr & Hs).
  assert (HG : G t1 c1).
  { change t1 with ([] ++ t1). eapply G_run; [|exact Hr]. intros x Hx. contradiction. }
  cbn [xstep xret_check] in Hs.
  destruct (memb s (x_gone c1)) eqn:Eg; cbn [negb] in Hs; [|discriminate].
  destruct (memb s (x_unl c1)) eqn:Eu; [discriminate|].
  apply memb_In in Eg. apply memb_false in Eu.
  destruct (HG s Eg) as (a & b & Ht & Hb1 & Hb2 & Hb3). exists a, b. auto.
Qed.

(* [b] lies inside one call: no call returns in it *)
Definition no_ret (b : list xevent) : Prop := forall o ok, ~ In (XRet o ok) b.

Definition C (t : list xevent) (c : xst) : Prop :=
  exists a b, t = a ++ b /\ no_ret b /\ forall e, In e (x_call c) -> In (XOk e) b.

Lemma C_step : forall full seg t c x c', C t c -> xstep full seg c x = inl c' -> C (t ++ [x]) c'.
Proof.
  intros full seg t c x c' (a & b & -> & Hn & Hc) H. destruct x as [e|e|d|o ok]; cbn [xstep] in H.
  - destruct (xok_step c e) as [c1|v] eqn:E; [|discriminate]. injection H as <-.
    destruct (xok_step_frame _ _ _ E) as [Hcall _].
    exists a, (b ++ [XOk e]). split; [rewrite app_assoc; reflexivity|]. split.
    + intros o ok Hi. apply in_app_or in Hi. destruct Hi as [Hi|[Hi|[]]]; [eapply Hn; eauto|discriminate].
    + intros e' He. xproj. rewrite Hcall in He. apply in_or_app. destruct He as [<-|He]; [right; left; reflexivity|left; auto].
  - injection H as <-. exists a, (b ++ [XFail e]). split; [rewrite app_assoc; reflexivity|]. split.
    + intros o ok Hi. apply in_app_or in Hi. destruct Hi as [Hi|[Hi|[]]]; [eapply Hn; eauto|discriminate].
    + intros e' He. apply in_or_app. left. auto.
  - injection H as <-. exists a, (b ++ [XOpenDir d]). split; [rewrite app_assoc; reflexivity|]. split.
    + intros o' ok Hi. apply in_app_or in Hi. destruct Hi as [Hi|[Hi|[]]]; [eapply Hn; eauto|discriminate].
    + intros e' He. apply in_or_app. left. auto.
  - assert (Hc' : c' = xs_call c []).
    { destruct ok; [destruct (xret_check full seg c o); [discriminate|]|]; injection H as <-; reflexivity. }
    subst c'. exists ((a ++ b) ++ [XRet o ok]), []. split; [rewrite app_nil_r; reflexivity|]. split.
    + intros o' ok' Hi. contradiction.
    + intros e He. contradiction.
Qed.

Lemma C_run : forall full seg t2 t1 c c', C t1 c -> xrun full seg c t2 = inl c' -> C (t1 ++ t2) c'.
Proof.
  induction t2 as [|x t2 IH]; intros t1 c c' HC H; cbn [xrun] in H.
  - injection H as <-. rewrite app_nil_r. exact HC.
  - destruct (xstep full seg c x) as [c1|v] eqn:E; [|discriminate].
    replace (t1 ++ x :: t2) with ((t1 ++ [x]) ++ t2) by (rewrite <- app_assoc; reflexivity).
    eapply IH; [|exact H]. eapply C_step; eauto.
Qed.

Lemma C0 : C [] x0.
Proof. exists [], []. split; [reflexivity|]. split; [intros o ok H; contradiction|intros e H; contradiction]. Qed.

Lemma existsb_In : forall (f : event -> bool) (e0 : event) l,
  (forall e, f e = true -> e = e0) -> existsb f l = true -> In e0 l.
Proof.
  intros f e0 l Hf H. apply existsb_exists in H. destruct H as (e & Hi & He). apply Hf in He. subst. exact Hi.
Qed.
Lemma is_excl_eq : forall s e, is_excl s e = true -> e = OpenExcl (Seg s).
Proof.
  intros s e H. destruct e as [n|n|n|n m o l|n o l|n l|n|n| |n|a b|n|k op m]; try discriminate.
  destruct n; try discriminate. cbn [is_excl] in H. apply N.eqb_eq in H. subst. reflexivity.
Qed.
Lemma is_fsync_eq : forall s e, is_fsync s e = true -> e = Fsync (Seg s).
Proof.
  intros s e H. destruct e as [n|n|n|n m o l|n o l|n l|n|n| |n|a b|n|k op m]; try discriminate.
  destruct n; try discriminate. cbn [is_fsync] in H. apply N.eqb_eq in H. subst. reflexivity.
Qed.
Lemma is_falloc_eq : forall s seg e, is_falloc s seg e = true -> e = Fallocate (Seg s) 0 0 seg.
Proof.
  intros s seg e H. destruct e as [n|n|n|n m o l|n o l|n l|n|n| |n|a b|n|k op m]; try discriminate.
  destruct n; try discriminate. cbn [is_falloc] in H.
  apply andb_true_iff in H. destruct H as [H H4]. apply andb_true_iff in H. destruct H as [H H3].
  apply andb_true_iff in H. destruct H as [H1 H2].
  apply N.eqb_eq in H1, H2, H3, H4. subst. reflexivity.
Qed.

(* C07_fault_create_ok_sound: in any accepted trace a Create that reports nil
   has, within the call itself, successfully opened the name O_CREAT|O_EXCL and
   successfully fallocated (mode 0, offset 0) the requested size *)
Theorem create_ok_sound : forall full seg t1 s t2,
  xdiscipline full seg (t1 ++ XRet (FCreate s) true :: t2) = true ->
  exists a b, t1 = a ++ b /\ no_ret b /\
              In (XOk (OpenExcl (Seg s))) b /\ In (XOk (Fallocate (Seg s) 0 0 seg)) b.
Proof.
  intros full seg t1 s t2 H. destruct (xdiscipline_split _ _ _ _ _ H) as (c1 & c2 & Hr & Hs).
  assert (HC : C t1 c1) by (change t1 with ([] ++ t1); eapply C_run; [exact C0|exact Hr]).
  cbn [xstep xret_check] in Hs.
  destruct (existsb (is_excl s) (x_call c1)) eqn:E1; cbn [andb] in Hs; [|discriminate].
  destruct (existsb (is_falloc s seg) (x_call c1)) eqn:E2; [|discriminate].
  destruct HC as (a & b & Ht & Hn & Hc). exists a, b. split; [exact Ht|]. split; [exact Hn|]. split.
  - apply Hc. eapply existsb_In; [apply is_excl_eq|exact E1].
  - apply Hc. eapply existsb_In; [apply is_falloc_eq|exact E2].
Qed.

(* ---- the directory clauses on the trace itself -------------------------------- *)
Lemma snoc_split : forall (A : Type) (t : list A) x a y b,
  t ++ [x] = a ++ y :: b ->
  (exists b', b = b' ++ [x] /\ t = a ++ y :: b') \/ (a = t /\ y = x /\ b = []).
Proof.
  intros A t x a y b H. destruct b as [|z b0] using rev_ind.
  - right. apply app_inj_tail in H. destruct H as [-> ->]. auto.
  - left. clear IHb0. replace (a ++ y :: b0 ++ [z]) with ((a ++ y :: b0) ++ [z]) in H
      by (rewrite <- app_assoc; reflexivity).
    apply app_inj_tail in H. destruct H as [-> ->]. eauto.
Qed.

(* every successful creation of [s] in [t] was followed by a successful
   directory fsync -- or by an unlink / a later creation of the same name, in
   which case the later creation is the one that counts (the last creation has
   no later one: it is followed by a directory fsync or the file is gone) *)
Definition entry_dir_synced (s : N) (t : list xevent) : Prop :=
  forall a b, t = a ++ XOk (OpenExcl (Seg s)) :: b ->
  In (XOk FsyncDir) b \/ In (XOk (Unlink (Seg s))) b \/ In (XOk (OpenExcl (Seg s))) b.

Definition P (t : list xevent) (c : xst) : Prop :=
  forall s, ~ In s (x_pend c) -> entry_dir_synced s t.

Lemma entry_ext : forall s t x, entry_dir_synced s t -> x <> XOk (OpenExcl (Seg s)) -> entry_dir_synced s (t ++ [x]).
Proof.
  intros s t x H Hx a b Hs. destruct (snoc_split _ _ _ _ _ _ Hs) as [(b' & -> & Ht)|(_ & Hy & _)]; [|congruence].
  destruct (H a b' Ht) as [Hi|[Hi|Hi]]; [left|right; left|right; right]; apply in_or_app; left; exact Hi.
Qed.

Lemma P_step : forall full seg t c x c', P t c -> xstep full seg c x = inl c' -> P (t ++ [x]) c'.
Proof.
  intros full seg t c x c' HP H. destruct x as [e|e|d|o ok]; cbn [xstep] in H.
  - destruct (xok_step c e) as [c1|v] eqn:E; [|discriminate]. injection H as <-.
    destruct (xok_step_frame _ _ _ E) as [_ Hfr].
    destruct e as [n|n|n|n m o l|n o l|n l|n|n| |n|a b|n|k op m]; try (destruct n as [s'| | |i]).
    all: try (destruct Hfr as (_ & _ & Hp); try (intros; discriminate);
              intros s Hs; xproj; rewrite Hp in Hs; apply entry_ext; [apply HP; exact Hs|discriminate]).
    + (* OpenExcl (Seg s') *)
      cbn [xok_step] in E. injection E as <-. intros s Hs. xproj.
      assert (Hne : s <> s') by (intros ->; apply Hs; sets; auto).
      apply entry_ext; [apply HP; intros Hi; apply Hs; sets; auto|congruence].
    + (* FsyncDir *)
      cbn [xok_step] in E. injection E as <-. intros s _ a b Hs.
      destruct (snoc_split _ _ _ _ _ _ Hs) as [(b' & -> & Ht)|(_ & Hy & _)]; [|discriminate].
      left. apply in_or_app. right. left. reflexivity.
    + (* Unlink (Seg s') *)
      cbn [xok_step] in E. injection E as <-. intros s Hs. xproj.
      destruct (N.eq_dec s s') as [->|Hne].
      * intros a b Hsp. destruct (snoc_split _ _ _ _ _ _ Hsp) as [(b' & -> & Ht)|(_ & Hy & _)]; [|discriminate].
        right. left. apply in_or_app. right. left. reflexivity.
      * apply entry_ext; [apply HP; intros Hi; apply Hs; sets; auto|discriminate].
  - injection H as <-. intros s Hs. apply entry_ext; [apply HP; exact Hs|discriminate].
  - injection H as <-. intros s Hs. apply entry_ext; [apply HP; exact Hs|discriminate].
  - assert (Hc : c' = xs_call c []).
    { destruct ok; [destruct (xret_check full seg c o); [discriminate|]|]; injection H as <-; reflexivity. }
    subst c'. intros s Hs. apply entry_ext; [apply HP; exact Hs|discriminate].
Qed.

Lemma P_run : forall full seg t2 t1 c c', P t1 c -> xrun full seg c t2 = inl c' -> P (t1 ++ t2) c'.
Proof.
  induction t2 as [|x t2 IH]; intros t1 c c' HP H; cbn [xrun] in H.
  - injection H as <-. rewrite app_nil_r. exact HP.
  - destruct (xstep full seg c x) as [c1|v] eqn:E; [|discriminate].
    replace (t1 ++ x :: t2) with ((t1 ++ [x]) ++ t2) by (rewrite <- app_assoc; reflexivity).
    eapply IH; [|exact H]. eapply P_step; eauto.
Qed.

Lemma P0 : P [] x0.
Proof. intros s _ a b H. destruct a; discriminate. Qed.

(* C07_fault_sync_ok_sound: in any accepted trace a Sync that reports nil has
   successfully fsynced the file within the call, and (full discipline) every
   successful creation of that name was followed by a successful directory
   fsync (or the file was unlinked / the name created again later) *)
Theorem sync_ok_sound : forall full seg t1 s t2,
  xdiscipline full seg (t1 ++ XRet (FSync s) true :: t2) = true ->
  (exists a b, t1 = a ++ b /\ no_ret b /\ In (XOk (Fsync (Seg s))) b) /\
  (full = true -> entry_dir_synced s t1).
Proof.
  intros full seg t1 s t2 H. destruct (xdiscipline_split _ _ _ _ _ H) as (c1 & c2 & Hr & Hs).
  assert (HC : C t1 c1) by (change t1 with ([] ++ t1); eapply C_run; [exact C0|exact Hr]).
  assert (HP : P t1 c1) by (change t1 with ([] ++ t1); eapply P_run; [exact P0|exact Hr]).
  cbn [xstep xret_check] in Hs.
  destruct (existsb (is_fsync s) (x_call c1)) eqn:E1; cbn [negb] in Hs; [|discriminate].
  split.
  - destruct HC as (a & b & Ht & Hn & Hc). exists a, b. split; [exact Ht|]. split; [exact Hn|].
    apply Hc. eapply existsb_In; [apply is_fsync_eq|exact E1].
  - intros ->. cbn [andb] in Hs. destruct (memb s (x_pend c1)) eqn:Ep; [discriminate|].
    apply HP. apply memb_false. exact Ep.
Qed.

Lemma event_is_dir_or_rename : forall e,
  {e = FsyncDir} + {e = Rename MetaTmp Meta} + {e <> FsyncDir /\ e <> Rename MetaTmp Meta}.
Proof.
  intros e. destruct e as [n|n|n|n m o l|n o l|n l|n|n| |n|a b|n|k op m];
    try (right; split; discriminate).
  - left. left. reflexivity.
  - destruct a as [sa| | |ia]; try (right; split; discriminate).
    destruct b as [sb| | |ib]; try (right; split; discriminate).
    left. right. reflexivity.
Qed.

(* wal-meta.db: it exists only by the rename, and a clear [x_ren] means a
   successful directory fsync followed the (last) rename *)
Definition M (t : list xevent) (c : xst) : Prop :=
  x_me c = true ->
  exists a b, t = a ++ XOk (Rename MetaTmp Meta) :: b /\ (x_ren c = false -> In (XOk FsyncDir) b).

Lemma xok_step_meta_frame : forall c e c1, xok_step c e = inl c1 ->
  e <> FsyncDir -> e <> Rename MetaTmp Meta -> x_me c1 = x_me c /\ x_ren c1 = x_ren c.
Proof.
  intros c e c1 H H1 H2.
  destruct e as [n|n|n|n m o l|n o l|n l|n|n| |n|a b|n|k op m];
    try (destruct n as [s| | |i]); try (destruct a as [sa| | |ia]; destruct b as [sb| | |ib]);
    cbn [xok_step] in H; brk H; try discriminate; try congruence; injection H as <-; xproj; auto.
Qed.

Lemma M_other : forall t c c' x, M t c -> x_me c' = x_me c -> x_ren c' = x_ren c -> M (t ++ [x]) c'.
Proof.
  intros t c c' x HM Hm Hr Hme. rewrite Hm in Hme. destruct (HM Hme) as (a & b & -> & Hb).
  exists a, (b ++ [x]). split; [rewrite <- app_assoc; reflexivity|].
  intros Hf. rewrite Hr in Hf. apply in_or_app. left. auto.
Qed.

Lemma M_step : forall full seg t c x c', M t c -> xstep full seg c x = inl c' -> M (t ++ [x]) c'.
Proof.
  intros full seg t c x c' HM H. destruct x as [e|e|d|o ok]; cbn [xstep] in H.
  - destruct (xok_step c e) as [c1|v] eqn:E; [|discriminate]. injection H as <-.
    destruct (event_is_dir_or_rename e) as [[->| ->]|[Hd Hrn]].
    + (* FsyncDir *)
      cbn [xok_step] in E. injection E as <-. xproj. intros Hme. xproj.
      destruct (HM Hme) as (a & b & -> & Hb).
      exists a, (b ++ [XOk FsyncDir]). split; [rewrite <- app_assoc; reflexivity|].
      intros _. apply in_or_app. right. left. reflexivity.
    + (* the rename *)
      cbn [xok_step] in E. brk E; [|discriminate]. injection E as <-. intros _.
      exists t, []. split; [reflexivity|]. xproj. intros; discriminate.
    + destruct (xok_step_meta_frame _ _ _ E Hd Hrn) as [Hm Hr].
      eapply M_other; eauto.
  - injection H as <-. eapply M_other; eauto.
  - injection H as <-. eapply M_other; eauto.
  - assert (Hc : c' = xs_call c []).
    { destruct ok; [destruct (xret_check full seg c o); [discriminate|]|]; injection H as <-; reflexivity. }
    subst c'. eapply M_other; eauto.
Qed.

Lemma M_run : forall full seg t2 t1 c c', M t1 c -> xrun full seg c t2 = inl c' -> M (t1 ++ t2) c'.
Proof.
  induction t2 as [|x t2 IH]; intros t1 c c' HM H; cbn [xrun] in H.
  - injection H as <-. rewrite app_nil_r. exact HM.
  - destruct (xstep full seg c x) as [c1|v] eqn:E; [|discriminate].
    replace (t1 ++ x :: t2) with ((t1 ++ [x]) ++ t2) by (rewrite <- app_assoc; reflexivity).
    eapply IH; [|exact H]. eapply M_step; eauto.
Qed.

(* C07_fault_meta_ok_sound: in any accepted trace a Load that reports nil comes
   after a successful rename of the tmp db onto wal-meta.db (the checker lets
   the name appear in no other way, and only for a written, synced and closed
   tmp file) and, under the full discipline, a successful directory fsync
   followed that rename *)
Theorem meta_ok_sound : forall full seg t1 t2,
  xdiscipline full seg (t1 ++ XRet FMetaInit true :: t2) = true ->
  exists a b, t1 = a ++ XOk (Rename MetaTmp Meta) :: b /\ (full = true -> In (XOk FsyncDir) b).
Proof.
  intros full seg t1 t2 H. destruct (xdiscipline_split _ _ _ _ _ H) as (c1 & c2 & Hr & Hs).
  assert (HM : M t1 c1).
  { change t1 with ([] ++ t1). eapply M_run; [|exact Hr]. intros Hme. discriminate. }
  cbn [xstep xret_check] in Hs.
  destruct (x_me c1) eqn:Eme; cbn [negb] in Hs; [|discriminate].
  destruct (HM Eme) as (a & b & Ht & Hb). exists a, b. split; [exact Ht|].
  intros ->. cbn [andb] in Hs. destruct (x_ren c1) eqn:Er; [discriminate|]. auto.
Qed.
