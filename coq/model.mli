
val negb : bool -> bool

type nat =
| O
| S of nat

val fst : ('a1 * 'a2) -> 'a1

val snd : ('a1 * 'a2) -> 'a2

val length : 'a1 list -> nat

val app : 'a1 list -> 'a1 list -> 'a1 list

type comparison =
| Eq
| Lt
| Gt

val compOpp : comparison -> comparison

val add : nat -> nat -> nat

val sub : nat -> nat -> nat

val eqb : bool -> bool -> bool

module Nat :
 sig
  val eqb : nat -> nat -> bool

  val leb : nat -> nat -> bool

  val ltb : nat -> nat -> bool

  val max : nat -> nat -> nat

  val divmod : nat -> nat -> nat -> nat -> nat * nat

  val div : nat -> nat -> nat
 end

val nth : nat -> 'a1 list -> 'a1 -> 'a1

val nth_error : 'a1 list -> nat -> 'a1 option

val rev : 'a1 list -> 'a1 list

val rev_append : 'a1 list -> 'a1 list -> 'a1 list

val map : ('a1 -> 'a2) -> 'a1 list -> 'a2 list

val flat_map : ('a1 -> 'a2 list) -> 'a1 list -> 'a2 list

val fold_left : ('a1 -> 'a2 -> 'a1) -> 'a2 list -> 'a1 -> 'a1

val existsb : ('a1 -> bool) -> 'a1 list -> bool

val firstn : nat -> 'a1 list -> 'a1 list

val skipn : nat -> 'a1 list -> 'a1 list

val repeat : 'a1 -> nat -> 'a1 list

type positive =
| XI of positive
| XO of positive
| XH

type n =
| N0
| Npos of positive

type z =
| Z0
| Zpos of positive
| Zneg of positive

module Pos :
 sig
  type mask =
  | IsNul
  | IsPos of positive
  | IsNeg
 end

module Coq_Pos :
 sig
  val succ : positive -> positive

  val add : positive -> positive -> positive

  val add_carry : positive -> positive -> positive

  val pred_double : positive -> positive

  type mask = Pos.mask =
  | IsNul
  | IsPos of positive
  | IsNeg

  val succ_double_mask : mask -> mask

  val double_mask : mask -> mask

  val double_pred_mask : positive -> mask

  val sub_mask : positive -> positive -> mask

  val sub_mask_carry : positive -> positive -> mask

  val mul : positive -> positive -> positive

  val iter : ('a1 -> 'a1) -> 'a1 -> positive -> 'a1

  val pow : positive -> positive -> positive

  val compare_cont : comparison -> positive -> positive -> comparison

  val compare : positive -> positive -> comparison

  val eqb : positive -> positive -> bool

  val coq_Nsucc_double : n -> n

  val coq_Ndouble : n -> n

  val coq_lxor : positive -> positive -> n

  val iter_op : ('a1 -> 'a1 -> 'a1) -> positive -> 'a1 -> 'a1

  val to_nat : positive -> nat

  val of_succ_nat : nat -> positive
 end

module N :
 sig
  val succ_double : n -> n

  val double : n -> n

  val add : n -> n -> n

  val sub : n -> n -> n

  val mul : n -> n -> n

  val compare : n -> n -> comparison

  val eqb : n -> n -> bool

  val leb : n -> n -> bool

  val ltb : n -> n -> bool

  val min : n -> n -> n

  val div2 : n -> n

  val even : n -> bool

  val odd : n -> bool

  val pow : n -> n -> n

  val pos_div_eucl : positive -> n -> n * n

  val div_eucl : n -> n -> n * n

  val div : n -> n -> n

  val modulo : n -> n -> n

  val coq_lxor : n -> n -> n

  val to_nat : n -> nat

  val of_nat : nat -> n
 end

module Z :
 sig
  val double : z -> z

  val succ_double : z -> z

  val pred_double : z -> z

  val pos_sub : positive -> positive -> z

  val add : z -> z -> z

  val opp : z -> z

  val sub : z -> z -> z

  val mul : z -> z -> z

  val compare : z -> z -> comparison

  val leb : z -> z -> bool

  val ltb : z -> z -> bool

  val eqb : z -> z -> bool

  val to_nat : z -> nat

  val to_N : z -> n

  val of_nat : nat -> z

  val of_N : n -> z

  val pos_div_eucl : positive -> z -> z * z

  val div_eucl : z -> z -> z * z

  val modulo : z -> z -> z

  val quotrem : z -> z -> z * z

  val quot : z -> z -> z

  val rem : z -> z -> z
 end

type bytes = n list

val len : bytes -> n

val zeros : nat -> bytes

val sub0 : nat -> nat -> bytes -> bytes

val le32 : n -> bytes

val le64 : n -> bytes

val nth0 : nat -> bytes -> n

val rd32 : bytes -> n

val rd64 : bytes -> n

val be32 : n -> bytes

val be64 : n -> bytes

val rdbe32 : bytes -> n

val rdbe64 : bytes -> n

val be16 : n -> bytes

val rdbe16 : bytes -> n

val two64 : n

val two63 : n

val two32 : n

val two31 : n

val two16 : n

val two15 : n

val z_to_u : n -> z -> n

val u_to_z : n -> n -> n -> z

val overwrite : bytes -> nat -> bytes -> bytes

val beq_bytes : bytes -> bytes -> bool

val all_zero : bytes -> bool

type str = n list

val sp : n

val split_aux : str -> str -> str list

val tokens : str -> str list

val hexval : n -> n option

val hex_to_N_aux : str -> n -> n option

val hex_to_N : str -> n option

val hex_to_Z : str -> z option

val hex_to_bytes_aux : str -> bytes option

val hex_to_bytes : str -> bytes option

val hexdigit : n -> n

val n_to_hex_aux : nat -> n -> str -> str

val n_to_hex : n -> str

val z_to_hex : z -> str

val bytes_to_hex_aux : bytes -> str

val bytes_to_hex : bytes -> str

val join : str list -> str

val s_ok : str

val s_err : str

val s_bad : str

val s_utc : str

val str_eqb : str -> str -> bool

val put_uvarint_aux : nat -> n -> bytes

val put_uvarint : n -> bytes

val get_uvarint_aux : bytes -> nat -> n -> n -> n * z

val get_uvarint : bytes -> n * z

type gotime = { t_sec : z; t_nsec : z; t_zone : z option }

val marshal_time : gotime -> bytes option

val unmarshal_time : bytes -> gotime option

type log = { l_index : n; l_term : n; l_type : n; l_data : bytes;
             l_ext : bytes; l_time : gotime }

val enc_bytes : bytes -> bytes

val encode_log : log -> bytes option

type 'a dres =
| DOk of 'a * bytes
| DErr

val dec_varint : bytes -> n dres

val dec_bytes : bytes -> bytes dres

val decode_log : bytes -> log option

val parse_zone : str -> z option option

val show_zone : z option -> str

val parse_log : str list -> log option

val show_log : bool -> log -> str

val run_enc : str list -> str

val run_dec : str list -> str

val maxEntrySize : n

val frameInvalid : n

val frameEntry : n

val frameIndex : n

val frameCommit : n

val file_header_len : n

val frame_header_len : n

val magic : n

val min_buf_size : n

type seginfo = { si_id : n; si_base : n; si_min : n; si_max : n;
                 si_codec : n; si_index_start : n; si_sealed : bool;
                 si_size_limit : n }

val file_header : seginfo -> bytes

val read_file_header : bytes -> ((n * n) * n) option

val validate_file_header : ((n * n) * n) -> seginfo -> bool

val pad_len : n -> n

val enc_frame_size : n -> n

val index_frame_size : n -> n

val frame_header : n -> n -> bytes

val enc_frame : n -> bytes -> bytes

val commit_frame : n -> bytes

val index_payload : n list -> bytes

val index_frame : n list -> bytes

type fhdr =
| FH of n * n
| FHZero
| FHCorrupt
| FHShort

val read_frame_header : bytes -> fhdr

val fh_len : n -> n -> n

val crc_poly : n

val crc_mask : n

val crc_shift1 : n -> n

val crc_byte : n -> n -> n

val crc_raw : n -> bytes -> n

val crc_update : n -> bytes -> n

val crc32c : bytes -> n

type waction =
| WWrite of n * bytes
| WSync

type wres =
| WOk
| WErrSealed
| WErrTooBig
| WErrNonMono
| WErrShortBuf
| WErrIO

type wfault =
| FNone
| FWrite
| FSync

type wstate = { w_info : seginfo; w_buf : bytes; w_crc : n; w_off : n;
                w_index_start : n; w_offsets : n list; w_commit_idx : 
                n }

val set_buf : wstate -> bytes -> n -> n list -> wstate

val init_empty : seginfo -> wstate

type entry = n * bytes

val append_entry : wstate -> entry -> wstate option

val append_entries : wstate -> entry list -> wstate option

val append_index : wstate -> wstate option

val commit_idx_of : wstate -> n

val append_commit : wstate -> wfault -> wstate option * waction list

val needs_seal : wstate -> bool

val too_big : entry list -> bool

val append : wstate -> entry list -> wfault -> (wres * wstate) * waction list

val force_seal : wstate -> wfault -> (wres * wstate) * waction list

val sealed : wstate -> bool

val apply_waction : bytes -> waction -> bytes

val apply_wactions : bytes -> waction list -> bytes

val read_at : bytes -> n -> n -> bytes

type frame_ev = { fe_typ : n; fe_val : n; fe_off : n }

val scan_from : nat -> bytes -> n -> frame_ev list

val scan_fuel : bytes -> nat

val scan : bytes -> frame_ev list

val scanned_header : bytes -> (n * n) * n

type commit_info = { c_crc : n; c_off : n; c_crc_start : n;
                     c_offsets_len : nat; c_index_start : n }

type rec_acc = { ra_offsets : n list; ra_pending : n;
                 ra_prev : commit_info option; ra_final : commit_info option }

val rec_step : rec_acc -> frame_ev -> rec_acc

val rec_fold : frame_ev list -> rec_acc

val recovered : seginfo -> n -> n -> n list -> wstate

val recover_state : seginfo -> bytes -> wstate option

val scrub_chunks : nat -> bytes -> n -> waction list

val scrub_actions : bytes -> n -> waction list

val recover_tail : seginfo -> bytes -> (wstate * waction list) option

type rres =
| ROk of bytes
| RNotFound
| RCorrupt
| RErr

val read_frame : bytes -> n -> rres * n

val tail_offset : wstate -> n -> n option

val tail_get : wstate -> bytes -> n -> rres

val sealed_get : seginfo -> bytes -> n -> rres

val open_sealed : seginfo -> bytes -> bool

type dump_res =
| DumpOk of (n * bytes) list
| DumpErr of (n * bytes) list

val dump_batch :
  bytes -> ((n * n) * n) list -> (n * bytes) list -> (n * bytes) list
  option * (n * bytes) list

val dump_go :
  bytes -> frame_ev list -> n -> n -> n -> ((n * n) * n) list -> (n * bytes)
  list -> dump_res

val dump_segment : bytes -> n -> n -> n -> dump_res

type smode =
| MTail
| MSealed of seginfo
| MNone

type sst = { s_info : seginfo; s_file : bytes; s_w : wstate; s_mode : 
             smode; s_pre : bytes }

val s_sealedk : str

val s_toobig : str

val s_nonmono : str

val s_nf : str

val s_corrupt : str

val colon : n

val show_wres : wres -> str

val show_rres : rres -> str

val strip_zeros_rev : bytes -> bytes

val strip_trailing_zeros : bytes -> bytes

val parse_entries : nat -> str list -> (entry list * str list) option

val crash_mix : bytes -> bytes -> n -> nat -> bytes

val pad_to : nat -> bytes -> bytes

val show_dump : dump_res -> str

val chr : n -> str -> bool

val pre_of : sst -> waction list -> bytes

val run_ops : nat -> sst -> str list -> str list -> str list

val run_seg : str list -> str

val rs_magic : n

val rs_version : n

val rs_t_invalid : n

val rs_t_entry : n

val rs_t_index : n

val rs_t_commit : n

val rs_max_entry : n

val rs_header_len : n

type rs_header = { h_base : n; h_id : n; h_codec : n }

val rs_pad : n -> n

val rs_frame : n -> bytes -> bytes

val rs_frame_size : n -> n

type rs_batch = bytes list * bool

val rs_entries : bytes list -> bytes

val rs_index_start_from : n -> rs_batch list -> n

val rs_index_start : rs_batch list -> n

val rs_slice : bytes -> n -> n -> bytes

type rs_pst = { p_cur : bytes list; p_seal : bool; p_offs : n list;
                p_start : n; p_done : rs_batch list }

val rs_finish : rs_pst -> rs_batch list option

val rs_pad_ok : bytes -> n -> n -> bool

val rs_parse_frames : nat -> bytes -> n -> rs_pst -> rs_batch list option

val rs_parse_header : bytes -> rs_header option

val parse : bytes -> (rs_header * rs_batch list) option

val s_empty : str

val s_bad_parse : str

val s_bad_hdr : str

val s_bad_seal : str

val s_bad_index : str

val pad8 : bytes -> bytes

val run_rdm : str list -> str

val k_enc : str

val k_dec : str

val k_seg : str

val k_rdm : str

val run_line : str -> str
