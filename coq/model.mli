
val negb : bool -> bool

type nat =
| O
| S of nat

val fst : ('a1 * 'a2) -> 'a1

val snd : ('a1 * 'a2) -> 'a2

val length : 'a1 list -> nat

val app : 'a1 list -> 'a1 list -> 'a1 list

type comparison =
| Eq
| Lt
| Gt

val compOpp : comparison -> comparison

val add : nat -> nat -> nat

val sub : nat -> nat -> nat

module Nat :
 sig
  val eqb : nat -> nat -> bool

  val leb : nat -> nat -> bool

  val ltb : nat -> nat -> bool

  val max : nat -> nat -> nat

  val divmod : nat -> nat -> nat -> nat -> nat * nat

  val div : nat -> nat -> nat
 end

val nth : nat -> 'a1 list -> 'a1 -> 'a1

val nth_error : 'a1 list -> nat -> 'a1 option

val last : 'a1 list -> 'a1 -> 'a1

val rev : 'a1 list -> 'a1 list

val rev_append : 'a1 list -> 'a1 list -> 'a1 list

val map : ('a1 -> 'a2) -> 'a1 list -> 'a2 list

val flat_map : ('a1 -> 'a2 list) -> 'a1 list -> 'a2 list

val fold_left : ('a1 -> 'a2 -> 'a1) -> 'a2 list -> 'a1 -> 'a1

val fold_right : ('a2 -> 'a1 -> 'a1) -> 'a1 -> 'a2 list -> 'a1

val existsb : ('a1 -> bool) -> 'a1 list -> bool

val filter : ('a1 -> bool) -> 'a1 list -> 'a1 list

val firstn : nat -> 'a1 list -> 'a1 list

val skipn : nat -> 'a1 list -> 'a1 list

val repeat : 'a1 -> nat -> 'a1 list

type positive =
| XI of positive
| XO of positive
| XH

type n =
| N0
| Npos of positive

type z =
| Z0
| Zpos of positive
| Zneg of positive

module Pos :
 sig
  type mask =
  | IsNul
  | IsPos of positive
  | IsNeg
 end

module Coq_Pos :
 sig
  val succ : positive -> positive

  val add : positive -> positive -> positive

  val add_carry : positive -> positive -> positive

  val pred_double : positive -> positive

  type mask = Pos.mask =
  | IsNul
  | IsPos of positive
  | IsNeg

  val succ_double_mask : mask -> mask

  val double_mask : mask -> mask

  val double_pred_mask : positive -> mask

  val sub_mask : positive -> positive -> mask

  val sub_mask_carry : positive -> positive -> mask

  val mul : positive -> positive -> positive

  val iter : ('a1 -> 'a1) -> 'a1 -> positive -> 'a1

  val pow : positive -> positive -> positive

  val compare_cont : comparison -> positive -> positive -> comparison

  val compare : positive -> positive -> comparison

  val eqb : positive -> positive -> bool

  val coq_Nsucc_double : n -> n

  val coq_Ndouble : n -> n

  val coq_lxor : positive -> positive -> n

  val iter_op : ('a1 -> 'a1 -> 'a1) -> positive -> 'a1 -> 'a1

  val to_nat : positive -> nat

  val of_succ_nat : nat -> positive
 end

module N :
 sig
  val succ_double : n -> n

  val double : n -> n

  val add : n -> n -> n

  val sub : n -> n -> n

  val mul : n -> n -> n

  val compare : n -> n -> comparison

  val eqb : n -> n -> bool

  val leb : n -> n -> bool

  val ltb : n -> n -> bool

  val min : n -> n -> n

  val div2 : n -> n

  val even : n -> bool

  val odd : n -> bool

  val pow : n -> n -> n

  val pos_div_eucl : positive -> n -> n * n

  val div_eucl : n -> n -> n * n

  val div : n -> n -> n

  val modulo : n -> n -> n

  val coq_lxor : n -> n -> n

  val to_nat : n -> nat

  val of_nat : nat -> n
 end

module Z :
 sig
  val double : z -> z

  val succ_double : z -> z

  val pred_double : z -> z

  val pos_sub : positive -> positive -> z

  val add : z -> z -> z

  val opp : z -> z

  val sub : z -> z -> z

  val mul : z -> z -> z

  val compare : z -> z -> comparison

  val leb : z -> z -> bool

  val ltb : z -> z -> bool

  val eqb : z -> z -> bool

  val to_nat : z -> nat

  val to_N : z -> n

  val of_nat : nat -> z

  val of_N : n -> z

  val pos_div_eucl : positive -> z -> z * z

  val div_eucl : z -> z -> z * z

  val modulo : z -> z -> z

  val quotrem : z -> z -> z * z

  val quot : z -> z -> z

  val rem : z -> z -> z
 end

type bytes = n list

val len : bytes -> n

val zeros : nat -> bytes

val sub0 : nat -> nat -> bytes -> bytes

val le32 : n -> bytes

val le64 : n -> bytes

val nth0 : nat -> bytes -> n

val rd32 : bytes -> n

val rd64 : bytes -> n

val be32 : n -> bytes

val be64 : n -> bytes

val rdbe32 : bytes -> n

val rdbe64 : bytes -> n

val be16 : n -> bytes

val rdbe16 : bytes -> n

val two64 : n

val two63 : n

val two32 : n

val two31 : n

val two16 : n

val two15 : n

val z_to_u : n -> z -> n

val u_to_z : n -> n -> n -> z

val overwrite : bytes -> nat -> bytes -> bytes

val beq_bytes : bytes -> bytes -> bool

val all_zero : bytes -> bool

type str = n list

val sp : n

val split_aux : str -> str -> str list

val tokens : str -> str list

val hexval : n -> n option

val hex_to_N_aux : str -> n -> n option

val hex_to_N : str -> n option

val hex_to_Z : str -> z option

val hex_to_bytes_aux : str -> bytes option

val hex_to_bytes : str -> bytes option

val hexdigit : n -> n

val n_to_hex_aux : nat -> n -> str -> str

val n_to_hex : n -> str

val z_to_hex : z -> str

val bytes_to_hex_aux : bytes -> str

val bytes_to_hex : bytes -> str

val join : str list -> str

val s_ok : str

val s_err : str

val s_bad : str

val s_utc : str

val str_eqb : str -> str -> bool

val put_uvarint_aux : nat -> n -> bytes

val put_uvarint : n -> bytes

val get_uvarint_aux : bytes -> nat -> n -> n -> n * z

val get_uvarint : bytes -> n * z

type gotime = { t_sec : z; t_nsec : z; t_zone : z option }

val marshal_time : gotime -> bytes option

val unmarshal_time : bytes -> gotime option

type log = { l_index : n; l_term : n; l_type : n; l_data : bytes;
             l_ext : bytes; l_time : gotime }

val enc_bytes : bytes -> bytes

val encode_log : log -> bytes option

type 'a dres =
| DOk of 'a * bytes
| DErr

val dec_varint : bytes -> n dres

val dec_bytes : bytes -> bytes dres

val decode_log : bytes -> log option

val parse_zone : str -> z option option

val show_zone : z option -> str

val parse_log : str list -> log option

val show_log : bool -> log -> str

val run_enc : str list -> str

val run_dec : str list -> str

val maxEntrySize : n

val frameInvalid : n

val frameEntry : n

val frameIndex : n

val frameCommit : n

val firstExternalCodecID : n

val binaryCodecID : n

val file_header_len : n

val frame_header_len : n

val magic : n

val min_buf_size : n

type seginfo = { si_id : n; si_base : n; si_min : n; si_max : n;
                 si_codec : n; si_index_start : n; si_sealed : bool;
                 si_size_limit : n }

val file_header : seginfo -> bytes

val read_file_header : bytes -> ((n * n) * n) option

val validate_file_header : ((n * n) * n) -> seginfo -> bool

val pad_len : n -> n

val enc_frame_size : n -> n

val index_frame_size : n -> n

val frame_header : n -> n -> bytes

val enc_frame : n -> bytes -> bytes

val commit_frame : n -> bytes

val index_payload : n list -> bytes

val index_frame : n list -> bytes

type fhdr =
| FH of n * n
| FHZero
| FHCorrupt
| FHShort

val read_frame_header : bytes -> fhdr

val fh_len : n -> n -> n

val crc_poly : n

val crc_mask : n

val crc_shift1 : n -> n

val crc_byte : n -> n -> n

val crc_raw : n -> bytes -> n

val crc_update : n -> bytes -> n

val crc32c : bytes -> n

type waction =
| WWrite of n * bytes
| WSync

type wres =
| WOk
| WErrSealed
| WErrTooBig
| WErrNonMono
| WErrShortBuf
| WErrIO

type wfault =
| FNone
| FWrite
| FSync

type wstate = { w_info : seginfo; w_buf : bytes; w_crc : n; w_off : n;
                w_index_start : n; w_offsets : n list; w_commit_idx : 
                n }

val set_buf : wstate -> bytes -> n -> n list -> wstate

val init_empty : seginfo -> wstate

type entry = n * bytes

val append_entry : wstate -> entry -> wstate option

val append_entries : wstate -> entry list -> wstate option

val append_index : wstate -> wstate option

val commit_idx_of : wstate -> n

val append_commit : wstate -> wfault -> wstate option * waction list

val needs_seal : wstate -> bool

val too_big : entry list -> bool

val append : wstate -> entry list -> wfault -> (wres * wstate) * waction list

val force_seal : wstate -> wfault -> (wres * wstate) * waction list

val sealed : wstate -> bool

val apply_waction : bytes -> waction -> bytes

val apply_wactions : bytes -> waction list -> bytes

val read_at : bytes -> n -> n -> bytes

type frame_ev = { fe_typ : n; fe_val : n; fe_off : n }

val scan_from : nat -> bytes -> n -> frame_ev list

val scan_fuel : bytes -> nat

val scan : bytes -> frame_ev list

val scanned_header : bytes -> (n * n) * n

type commit_info = { c_crc : n; c_off : n; c_crc_start : n;
                     c_offsets_len : nat; c_index_start : n }

type rec_acc = { ra_offsets : n list; ra_pending : n;
                 ra_prev : commit_info option; ra_final : commit_info option }

val rec_step : rec_acc -> frame_ev -> rec_acc

val rec_fold : frame_ev list -> rec_acc

val recovered : seginfo -> n -> n -> n list -> wstate

val recover_state : seginfo -> bytes -> wstate option

val scrub_chunks : nat -> bytes -> n -> waction list

val scrub_actions : bytes -> n -> waction list

val recover_tail : seginfo -> bytes -> (wstate * waction list) option

type rres =
| ROk of bytes
| RNotFound
| RCorrupt
| RErr

val read_frame : bytes -> n -> rres * n

val tail_offset : wstate -> n -> n option

val tail_get : wstate -> bytes -> n -> rres

val sealed_get : seginfo -> bytes -> n -> rres

val open_sealed : seginfo -> bytes -> bool

type dump_res =
| DumpOk of (n * bytes) list
| DumpErr of (n * bytes) list

val dump_batch :
  bytes -> ((n * n) * n) list -> (n * bytes) list -> (n * bytes) list
  option * (n * bytes) list

val dump_go :
  bytes -> frame_ev list -> n -> n -> n -> ((n * n) * n) list -> (n * bytes)
  list -> dump_res

val dump_segment : bytes -> n -> n -> n -> dump_res

type smode =
| MTail
| MSealed of seginfo
| MNone

type sst = { s_info : seginfo; s_file : bytes; s_w : wstate; s_mode : 
             smode; s_pre : bytes }

val s_sealedk : str

val s_toobig : str

val s_nonmono : str

val s_nf : str

val s_corrupt : str

val colon : n

val show_wres : wres -> str

val show_rres : rres -> str

val strip_zeros_rev : bytes -> bytes

val strip_trailing_zeros : bytes -> bytes

val parse_entries : nat -> str list -> (entry list * str list) option

val crash_mix : bytes -> bytes -> n -> nat -> bytes

val pad_to : nat -> bytes -> bytes

val show_dump : dump_res -> str

val chr : n -> str -> bool

val pre_of : sst -> waction list -> bytes

val run_ops : nat -> sst -> str list -> str list -> str list

val run_seg : str list -> str

val llen : 'a1 list -> n

val sub64 : n -> n -> n

type pstate = { ps_next_id : n; ps_segs : seginfo list }

type fname = n * n

val name_of : seginfo -> fname

val fname_eqb : fname -> fname -> bool

type pbatch = { pb_ents : log list; pb_end : n; pb_seal : n }

type dfile = { df_ents : log list; df_end : n; df_seal : n;
               df_pend : pbatch option; df_dir : bool; df_size : n }

type kv = bytes * bytes

type disk = { dk_files : (fname * dfile) list; dk_meta : pstate option;
              dk_stable : kv list; dk_inited : bool }

val empty_disk : disk

val lookup : fname -> (fname * dfile) list -> dfile option

val update : fname -> dfile -> (fname * dfile) list -> (fname * dfile) list

val remove : fname -> (fname * dfile) list -> (fname * dfile) list

type act =
| ACreate of fname * n
| AWrite of fname * n * n * pbatch
| ASync of fname
| ADelete of fname
| ACommit of pstate
| ASetStable of bytes * bytes
| AInitMeta
| AFail of act

val bytes_eqb : bytes -> bytes -> bool

val kv_set : bytes -> bytes -> kv list -> kv list

val kv_get : bytes -> kv list -> bytes

val apply_act : disk -> act -> disk

val cur_ents : dfile -> log list

val cur_end : dfile -> n

val cur_seal : dfile -> n

type crash_choice = { cc_keep_file : fname list; cc_keep_batch : fname list }

val mem_name : fname -> fname list -> bool

val crash_file : crash_choice -> (fname * dfile) -> (fname * dfile) list

val crash_disk : crash_choice -> disk -> disk

type wseg = { ws_name : fname; ws_base : n; ws_min : n; ws_limit : n;
              ws_n : n; ws_off : n; ws_hdr : bool; ws_index_start : n;
              ws_commit_idx : n }

type metrics = { m_bytes_written : n; m_entries_written : n; m_appends : 
                 n; m_bytes_read : n; m_entries_read : n; m_rotations : 
                 n; m_head_trunc : n; m_tail_trunc : n; m_stable_gets : 
                 n; m_stable_sets : n }

val zero_metrics : metrics

type cfg = { c_seg_size : n; c_codec : n }

type wal = { st_next_id : n; st_segs : seginfo list; st_tail : wseg option;
             st_rotate : n option; st_failed : bool; st_closed : bool }

type result =
| ROk0
| RErrClosed
| RErrNotFound
| RErrNonMono
| RErrMiddle
| RErrSealed
| RErrTooBig
| RErrCorrupt
| RErrIO
| RErrFailed
| RErrOther
| RVal of n
| RLog of log
| RBytes of bytes

type env = { e_acts : act list; e_disk : disk; e_fault : nat option;
             e_m : metrics }

val is_delete : act -> bool

val io : act -> env -> bool * env

val with_m : env -> metrics -> env

val seg_set : seginfo -> seginfo list -> seginfo list

val seg_del : n -> seginfo list -> seginfo list

val tail_info : seginfo list -> seginfo option

val tail_last : wseg option -> n

val first_index : seginfo list -> wseg option -> n

val last_index : seginfo list -> wseg option -> n

val seek_split :
  n -> seginfo list -> seginfo list -> seginfo list * seginfo list

val find_segment : seginfo list -> n -> seginfo option

val enc_len : log -> n

val frames_size : log list -> n

val new_wseg : seginfo -> wseg

val seg_create : seginfo -> env -> wseg option * env

val seg_append : wseg -> log list -> env -> (result * wseg) * env

val seg_force_seal : wseg -> env -> (result * wseg) * env

val seg_recover : seginfo -> env -> wseg option option

val seg_read : fname -> n -> n -> disk -> log option

val new_segment : cfg -> n -> n -> seginfo

val delete_files : fname list -> env -> env

type txn = { tx_next_id : n; tx_segs : seginfo list; tx_delete : fname list;
             tx_create : seginfo option; tx_tail : wseg option }

val create_next :
  cfg -> n -> seginfo list -> n -> (n * seginfo list) * seginfo

val mutate_gen :
  bool -> wal -> txn -> env -> ((result * wal) * env) * fname list

val mutate : wal -> txn -> env -> (result * wal) * env

val add_m : env -> (metrics -> metrics) -> env

val rotate : cfg -> wal -> env -> wal * env

val reset_first :
  cfg -> wal -> n -> env -> ((result * wal) * env) * fname list

val check_logs : n -> log list -> result * n

val store_logs : cfg -> wal -> log list -> env -> (result * wal) * env

val head_scan :
  n -> n -> seginfo list -> fname list -> n -> ((seginfo list * fname
  list) * n) * seginfo option

val truncate_head : cfg -> wal -> n -> env -> (result * wal) * env

val tail_scan :
  n -> n -> seginfo list -> fname list -> n -> (seginfo list * fname list) * n

val truncate_tail : cfg -> wal -> n -> env -> (result * wal) * env

val delete_range : cfg -> wal -> n -> n -> env -> (result * wal) * env

val codec_view : log -> log

val inc_read : env -> n -> bool -> env

val tail_lookup : wseg -> n -> disk -> log option

val get_log : wal -> n -> env -> result * env

val first_index_op : wal -> result

val last_index_op : wal -> result

val inc_stable : env -> bool -> env

val key_ok : bytes -> bool

val set_stable : wal -> bytes -> bytes -> bool -> env -> result * env

val get_stable : wal -> bytes -> env -> result * env

val set_uint64 : wal -> bytes -> n -> env -> result * env

val get_uint64 : wal -> bytes -> env -> result * env

val close : wal -> wal

type open_res =
| OOk of wal
| OErr of result

val open_segs :
  cfg -> seginfo list -> seginfo list -> env -> ((result * seginfo
  list) * wseg option) * env

val listed : seginfo list -> fname -> bool

val open_wal : cfg -> env -> open_res * env

type rst = { r_cfg : cfg; r_wal : wal option; r_env : env; r_mark : nat;
             r_base : disk; r_base_n : nat }

val s_closed : str

val s_nf0 : str

val s_nonmono0 : str

val s_middle : str

val s_sealed : str

val s_toobig0 : str

val s_failed : str

val s_noop : str

val colon0 : n

val dot : n

val bang : n

val comma : n

val show_result : result -> str

val show_name : fname -> str

val show_act : act -> str

val str_leb : str -> str -> bool

val insert_str : str -> str list -> str list

val sort_strs : str list -> str list

val is_delete0 : str -> bool

val canon_acts : str list -> str list -> str list

val show_trace : act list -> str

val show_seg : seginfo -> str

val show_pstate : pstate option -> str

val show_metrics : metrics -> str

val name_leb : fname -> fname -> bool

val insert_name : fname -> fname list -> fname list

val show_dir : disk -> str

val parse_logs : nat -> str list -> (log list * str list) option

val parse_names : nat -> str list -> (fname list * str list) option

val chr0 : n -> str -> bool

val settle : rst -> rst

val set_we : rst -> wal -> env -> rst

val set_e : rst -> env -> rst

val audit : nat -> wal -> env -> n -> n -> str list -> str list

val run_ops0 : nat -> rst -> str list -> str list -> str list

val run_wal : str list -> str

val k_enc : str

val k_dec : str

val k_seg : str

val k_wal : str

val run_line : str -> str
