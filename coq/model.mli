
val negb : bool -> bool

type nat =
| O
| S of nat

val option_map : ('a1 -> 'a2) -> 'a1 option -> 'a2 option

val fst : ('a1 * 'a2) -> 'a1

val snd : ('a1 * 'a2) -> 'a2

val length : 'a1 list -> nat

val app : 'a1 list -> 'a1 list -> 'a1 list

type comparison =
| Eq
| Lt
| Gt

val compOpp : comparison -> comparison

val add : nat -> nat -> nat

val sub : nat -> nat -> nat

module Nat :
 sig
  val eqb : nat -> nat -> bool

  val leb : nat -> nat -> bool

  val ltb : nat -> nat -> bool
 end

val hd_error : 'a1 list -> 'a1 option

val tl : 'a1 list -> 'a1 list

val nth : nat -> 'a1 list -> 'a1 -> 'a1

val nth_error : 'a1 list -> nat -> 'a1 option

val last : 'a1 list -> 'a1 -> 'a1

val rev : 'a1 list -> 'a1 list

val rev_append : 'a1 list -> 'a1 list -> 'a1 list

val map : ('a1 -> 'a2) -> 'a1 list -> 'a2 list

val existsb : ('a1 -> bool) -> 'a1 list -> bool

val forallb : ('a1 -> bool) -> 'a1 list -> bool

val filter : ('a1 -> bool) -> 'a1 list -> 'a1 list

val find : ('a1 -> bool) -> 'a1 list -> 'a1 option

val combine : 'a1 list -> 'a2 list -> ('a1 * 'a2) list

val firstn : nat -> 'a1 list -> 'a1 list

val skipn : nat -> 'a1 list -> 'a1 list

val seq : nat -> nat -> nat list

val repeat : 'a1 -> nat -> 'a1 list

type positive =
| XI of positive
| XO of positive
| XH

type n =
| N0
| Npos of positive

type z =
| Z0
| Zpos of positive
| Zneg of positive

module Pos :
 sig
  type mask =
  | IsNul
  | IsPos of positive
  | IsNeg
 end

module Coq_Pos :
 sig
  val succ : positive -> positive

  val add : positive -> positive -> positive

  val add_carry : positive -> positive -> positive

  val pred_double : positive -> positive

  type mask = Pos.mask =
  | IsNul
  | IsPos of positive
  | IsNeg

  val succ_double_mask : mask -> mask

  val double_mask : mask -> mask

  val double_pred_mask : positive -> mask

  val sub_mask : positive -> positive -> mask

  val sub_mask_carry : positive -> positive -> mask

  val mul : positive -> positive -> positive

  val iter : ('a1 -> 'a1) -> 'a1 -> positive -> 'a1

  val pow : positive -> positive -> positive

  val compare_cont : comparison -> positive -> positive -> comparison

  val compare : positive -> positive -> comparison

  val eqb : positive -> positive -> bool

  val iter_op : ('a1 -> 'a1 -> 'a1) -> positive -> 'a1 -> 'a1

  val to_nat : positive -> nat

  val of_succ_nat : nat -> positive
 end

module N :
 sig
  val succ_double : n -> n

  val double : n -> n

  val add : n -> n -> n

  val sub : n -> n -> n

  val mul : n -> n -> n

  val compare : n -> n -> comparison

  val eqb : n -> n -> bool

  val leb : n -> n -> bool

  val ltb : n -> n -> bool

  val pow : n -> n -> n

  val pos_div_eucl : positive -> n -> n * n

  val div_eucl : n -> n -> n * n

  val div : n -> n -> n

  val modulo : n -> n -> n

  val to_nat : n -> nat

  val of_nat : nat -> n
 end

module Z :
 sig
  val double : z -> z

  val succ_double : z -> z

  val pred_double : z -> z

  val pos_sub : positive -> positive -> z

  val add : z -> z -> z

  val opp : z -> z

  val sub : z -> z -> z

  val mul : z -> z -> z

  val compare : z -> z -> comparison

  val leb : z -> z -> bool

  val ltb : z -> z -> bool

  val eqb : z -> z -> bool

  val to_nat : z -> nat

  val to_N : z -> n

  val of_nat : nat -> z

  val of_N : n -> z

  val pos_div_eucl : positive -> z -> z * z

  val div_eucl : z -> z -> z * z

  val modulo : z -> z -> z

  val quotrem : z -> z -> z * z

  val quot : z -> z -> z

  val rem : z -> z -> z
 end

type bytes = n list

val len : bytes -> n

val le32 : n -> bytes

val le64 : n -> bytes

val nth0 : nat -> bytes -> n

val rd32 : bytes -> n

val rd64 : bytes -> n

val be32 : n -> bytes

val be64 : n -> bytes

val rdbe32 : bytes -> n

val rdbe64 : bytes -> n

val be16 : n -> bytes

val rdbe16 : bytes -> n

val two64 : n

val two63 : n

val two32 : n

val two31 : n

val two16 : n

val two15 : n

val z_to_u : n -> z -> n

val u_to_z : n -> n -> n -> z

type str = n list

val sp : n

val split_aux : str -> str -> str list

val tokens : str -> str list

val hexval : n -> n option

val hex_to_N_aux : str -> n -> n option

val hex_to_N : str -> n option

val hex_to_Z : str -> z option

val hex_to_bytes_aux : str -> bytes option

val hex_to_bytes : str -> bytes option

val hexdigit : n -> n

val n_to_hex_aux : nat -> n -> str -> str

val n_to_hex : n -> str

val z_to_hex : z -> str

val bytes_to_hex_aux : bytes -> str

val bytes_to_hex : bytes -> str

val join : str list -> str

val s_ok : str

val s_err : str

val s_bad : str

val s_utc : str

val str_eqb : str -> str -> bool

val put_uvarint_aux : nat -> n -> bytes

val put_uvarint : n -> bytes

val get_uvarint_aux : bytes -> nat -> n -> n -> n * z

val get_uvarint : bytes -> n * z

type gotime = { t_sec : z; t_nsec : z; t_zone : z option }

val marshal_time : gotime -> bytes option

val unmarshal_time : bytes -> gotime option

type log = { l_index : n; l_term : n; l_type : n; l_data : bytes;
             l_ext : bytes; l_time : gotime }

val enc_bytes : bytes -> bytes

val encode_log : log -> bytes option

type 'a dres =
| DOk of 'a * bytes
| DErr

val dec_varint : bytes -> n dres

val dec_bytes : bytes -> bytes dres

val decode_log : bytes -> log option

val parse_zone : str -> z option option

val show_zone : z option -> str

val parse_log : str list -> log option

val show_log : bool -> log -> str

val run_enc : str list -> str

val run_dec : str list -> str

type tid = nat

val exec : ('a1 -> tid -> 'a1 option) -> 'a1 -> tid -> 'a1

val run : ('a1 -> tid -> 'a1 option) -> 'a1 -> tid list -> 'a1

val enabled : ('a1 -> tid -> 'a1 option) -> 'a1 -> tid -> bool

val go :
  ('a1 -> tid -> 'a1 option) -> ('a1 -> tid -> bool) -> nat -> 'a1 -> tid ->
  tid list -> 'a1 * tid list

val autonomous :
  ('a1 -> tid -> 'a1 option) -> ('a1 -> tid -> bool) -> 'a1 -> tid -> bool

val settle :
  ('a1 -> tid -> 'a1 option) -> ('a1 -> tid -> bool) -> ('a1 -> nat) -> nat
  -> 'a1 -> tid list -> 'a1 * tid list

val macro1 :
  ('a1 -> tid -> 'a1 option) -> ('a1 -> tid -> bool) -> ('a1 -> tid -> bool)
  -> ('a1 -> nat) -> nat -> 'a1 -> tid -> tid list -> 'a1 * tid list

val macro :
  ('a1 -> tid -> 'a1 option) -> ('a1 -> tid -> bool) -> ('a1 -> tid -> bool)
  -> ('a1 -> nat) -> nat -> 'a1 -> tid list -> tid list -> 'a1 * tid list

type op =
| OFirst
| OLast
| OGet of nat
| OStore of bool * nat * nat
| ODelete of nat
| OTrunc of nat
| OSet
| OGetS
| OClose

type outcome =
| Ok of nat
| NotFound
| ErrClosed
| ErrSealed
| IOErr
| MetaErr
| Panic

type hnd = { h_base : nat; h_ents : nat list; h_wr : nat; h_syn : nat;
             h_cnt : nat; h_sealed : bool; h_closes : nat }

type fin =
| FUnset
| FNil
| FSet of nat list * nat

type st = { s_ref : nat; s_ret : bool; s_fin : fin; s_open : bool;
            s_segs : nat list; s_min : nat }

type shared = { g_closed : bool; g_mu : tid option; g_trig : bool;
                g_trig_closed : bool; g_await : nat option;
                g_chans : bool list; g_cur : nat; g_states : st list;
                g_hnds : hnd list; g_meta_closes : nat; g_stable : nat }

type kont =
| KRet
| KUnlock
| KOuter of nat
| KRot
| KRetry

type pc =
| PIdle
| PChecked
| PStErr
| PLock
| PLocked
| PWaiting of nat
| PRecvAwait of nat
| PRelock
| PLoad
| PLoaded of nat
| PAcq of nat
| PBody of nat
| PGetRead of nat * nat
| PApp1 of nat
| PApp2 of nat
| PApp3 of nat
| PTrig of nat
| PSend of nat
| PM0 of kont
| PM1 of nat * kont
| PM2 of nat * kont
| PM3 of nat * kont
| PM4 of nat * fin * kont
| PRel of nat * outcome * kont
| PLast of nat * outcome * kont
| PRun of nat list * nat * outcome * kont
| PUnl of outcome
| PCFlag
| PCLock
| PCLocked
| PC3
| PC4
| PC5 of nat
| PC6 of nat
| PCSwapped of nat * nat
| PC8 of nat
| PRIdle
| PRRecv
| PRLock
| PRLocked
| PRExit
| PRT3
| PRT4 of nat option
| PRT5 of nat option
| PRDone
| PPanic

type thread = { t_rot : bool; t_prog : op list; t_outs : outcome list;
                t_pc : pc }

type sys = { sh : shared; ths : thread list }

val upd : 'a1 list -> nat -> 'a1 -> 'a1 list

val dst : st

val dh : hnd

val getst : shared -> nat -> st

val geth : shared -> nat -> hnd

val set_states : shared -> st list -> shared

val set_hnds : shared -> hnd list -> shared

val set_mu : shared -> tid option -> shared

val set_closed : shared -> shared

val set_trig : shared -> bool -> bool -> shared

val set_await : shared -> nat option -> bool list -> shared

val set_cur : shared -> nat -> st list -> shared

val set_meta : shared -> nat -> nat -> shared

val st_ref : st -> nat -> st

val st_fin : st -> fin -> st

val st_retire : st -> fin -> st

val upd_st : shared -> nat -> st -> shared

val upd_h : shared -> nat -> hnd -> shared

val close_h : hnd -> hnd

val close_all : hnd list -> nat list -> hnd list

val tail_of : st -> nat

val last_index : shared -> st -> nat

val first_index : shared -> st -> nat

val seg_for : shared -> nat list -> nat -> nat option -> nat option

val find_log : shared -> st -> nat -> nat option

val read_log : shared -> nat -> nat -> outcome

val split_head : shared -> nat -> nat -> nat list -> nat list * nat list

val split_tail : shared -> nat -> nat list -> nat list * nat list

val new_hnd : nat -> hnd

val mk_state : nat list -> nat -> st

val empty_state : st

val publish : shared -> st -> shared

val do_rotate : shared -> nat -> shared * nat list

val do_trunc_head : shared -> nat -> nat -> shared * nat list

val seal_h : hnd -> hnd

val do_trunc_tail : shared -> nat -> nat -> shared * nat list

type dkind =
| DNoop
| DHead of nat
| DTail of nat

val classify : shared -> st -> op -> dkind

val pm3_tx : shared -> op option -> nat -> kont -> shared * nat list

val cur_op : thread -> op option

val setpc : thread -> pc -> thread

val finish : thread -> outcome -> thread

val panic : thread -> thread

val is_locking : op -> bool

val continue : thread -> outcome -> kont -> thread

val with_ents : hnd -> nat list -> bool -> hnd

val with_io : hnd -> nat -> nat -> nat -> hnd

val step_thread : shared -> tid -> thread -> (shared * thread) option

val step : sys -> tid -> sys option

val init_shared : shared

val caller : op list -> thread

val rotator : thread

val init : op list list -> op list list -> sys

val pc_point : pc -> bool

val th_done : thread -> bool

val th_parked : thread -> bool

val parked : sys -> tid -> bool

val pre_lock : thread -> bool

val th_blocked : thread -> bool

val skip : sys -> tid -> bool

val nthreads : sys -> nat

val split_on_aux : n -> str -> str -> str list

val split_on : n -> str -> str list

val hexnat : str -> nat option

val nat_hex : nat -> str

val all_some : 'a1 option list -> 'a1 list option

val parse_op14 : str -> op option

val parse_prog14 : str -> op list option

val show_outcome : op -> outcome -> str

val join_with : n -> str list -> str

val zip_show : op list -> outcome list -> str list

val fuel14 : nat

val macro14 : sys -> tid -> tid list -> sys * tid list

val run_call : nat -> sys -> tid -> nat -> tid list -> sys * tid list

val run_free : nat -> sys -> tid -> tid list -> sys * tid list

val run_setup : nat -> sys -> tid -> tid -> tid list -> sys * tid list

val callers_done : sys -> nat -> bool

val round : sys -> tid list -> tid list -> sys * tid list

val drain : nat -> nat -> sys -> tid list -> sys * tid list

val finish_rot : nat -> sys -> tid -> tid list -> sys * tid list

val micro14 : op list -> op list list -> tid list -> tid list

val s_dl : str

val s_rot : str

val s_mc : str

val s_open0 : str

val s_multi : str

val has_closed : thread -> op list -> bool

val observe14 : op list list -> sys -> str

val parse_sched : str -> tid list option

val run_c14 : str list -> str

val k_c14 : str

val k_c06 : str

val run_sched : str list -> str

val k_enc : str

val k_dec : str

val k_sched : str

val run_line : str -> str
