
val negb : bool -> bool

type nat =
| O
| S of nat

val option_map : ('a1 -> 'a2) -> 'a1 option -> 'a2 option

val fst : ('a1 * 'a2) -> 'a1

val snd : ('a1 * 'a2) -> 'a2

val length : 'a1 list -> nat

val app : 'a1 list -> 'a1 list -> 'a1 list

type comparison =
| Eq
| Lt
| Gt

val compOpp : comparison -> comparison

val add : nat -> nat -> nat

val sub : nat -> nat -> nat

module Nat :
 sig
  val eqb : nat -> nat -> bool

  val leb : nat -> nat -> bool

  val ltb : nat -> nat -> bool
 end

val nth : nat -> 'a1 list -> 'a1 -> 'a1

val nth_error : 'a1 list -> nat -> 'a1 option

val rev : 'a1 list -> 'a1 list

val rev_append : 'a1 list -> 'a1 list -> 'a1 list

val map : ('a1 -> 'a2) -> 'a1 list -> 'a2 list

val fold_left : ('a1 -> 'a2 -> 'a1) -> 'a2 list -> 'a1 -> 'a1

val filter : ('a1 -> bool) -> 'a1 list -> 'a1 list

val firstn : nat -> 'a1 list -> 'a1 list

val skipn : nat -> 'a1 list -> 'a1 list

val repeat : 'a1 -> nat -> 'a1 list

type positive =
| XI of positive
| XO of positive
| XH

type n =
| N0
| Npos of positive

type z =
| Z0
| Zpos of positive
| Zneg of positive

module Pos :
 sig
  type mask =
  | IsNul
  | IsPos of positive
  | IsNeg
 end

module Coq_Pos :
 sig
  val succ : positive -> positive

  val add : positive -> positive -> positive

  val add_carry : positive -> positive -> positive

  val pred_double : positive -> positive

  type mask = Pos.mask =
  | IsNul
  | IsPos of positive
  | IsNeg

  val succ_double_mask : mask -> mask

  val double_mask : mask -> mask

  val double_pred_mask : positive -> mask

  val sub_mask : positive -> positive -> mask

  val sub_mask_carry : positive -> positive -> mask

  val mul : positive -> positive -> positive

  val iter : ('a1 -> 'a1) -> 'a1 -> positive -> 'a1

  val pow : positive -> positive -> positive

  val compare_cont : comparison -> positive -> positive -> comparison

  val compare : positive -> positive -> comparison

  val eqb : positive -> positive -> bool

  val coq_Nsucc_double : n -> n

  val coq_Ndouble : n -> n

  val coq_land : positive -> positive -> n

  val coq_lxor : positive -> positive -> n

  val iter_op : ('a1 -> 'a1 -> 'a1) -> positive -> 'a1 -> 'a1

  val to_nat : positive -> nat

  val of_succ_nat : nat -> positive
 end

module N :
 sig
  val succ_double : n -> n

  val double : n -> n

  val add : n -> n -> n

  val sub : n -> n -> n

  val mul : n -> n -> n

  val compare : n -> n -> comparison

  val eqb : n -> n -> bool

  val leb : n -> n -> bool

  val ltb : n -> n -> bool

  val pow : n -> n -> n

  val pos_div_eucl : positive -> n -> n * n

  val div_eucl : n -> n -> n * n

  val div : n -> n -> n

  val modulo : n -> n -> n

  val coq_land : n -> n -> n

  val coq_lxor : n -> n -> n

  val to_nat : n -> nat

  val of_nat : nat -> n
 end

module Z :
 sig
  val double : z -> z

  val succ_double : z -> z

  val pred_double : z -> z

  val pos_sub : positive -> positive -> z

  val add : z -> z -> z

  val opp : z -> z

  val sub : z -> z -> z

  val mul : z -> z -> z

  val compare : z -> z -> comparison

  val leb : z -> z -> bool

  val ltb : z -> z -> bool

  val eqb : z -> z -> bool

  val to_nat : z -> nat

  val to_N : z -> n

  val of_nat : nat -> z

  val of_N : n -> z

  val pos_div_eucl : positive -> z -> z * z

  val div_eucl : z -> z -> z * z

  val modulo : z -> z -> z

  val quotrem : z -> z -> z * z

  val quot : z -> z -> z

  val rem : z -> z -> z
 end

type bytes = n list

val len : bytes -> n

val le32 : n -> bytes

val le64 : n -> bytes

val nth0 : nat -> bytes -> n

val rd32 : bytes -> n

val rd64 : bytes -> n

val be32 : n -> bytes

val be64 : n -> bytes

val rdbe32 : bytes -> n

val rdbe64 : bytes -> n

val be16 : n -> bytes

val rdbe16 : bytes -> n

val two64 : n

val two63 : n

val two32 : n

val two31 : n

val two16 : n

val two15 : n

val z_to_u : n -> z -> n

val u_to_z : n -> n -> n -> z

type str = n list

val sp : n

val split_aux : str -> str -> str list

val tokens : str -> str list

val hexval : n -> n option

val hex_to_N_aux : str -> n -> n option

val hex_to_N : str -> n option

val hex_to_Z : str -> z option

val hex_to_bytes_aux : str -> bytes option

val hex_to_bytes : str -> bytes option

val hexdigit : n -> n

val n_to_hex_aux : nat -> n -> str -> str

val n_to_hex : n -> str

val z_to_hex : z -> str

val bytes_to_hex_aux : bytes -> str

val bytes_to_hex : bytes -> str

val join : str list -> str

val s_ok : str

val s_err : str

val s_bad : str

val s_none : str

val s_utc : str

val str_eqb : str -> str -> bool

val put_uvarint_aux : nat -> n -> bytes

val put_uvarint : n -> bytes

val get_uvarint_aux : bytes -> nat -> n -> n -> n * z

val get_uvarint : bytes -> n * z

type gotime = { t_sec : z; t_nsec : z; t_zone : z option }

val marshal_time : gotime -> bytes option

val unmarshal_time : bytes -> gotime option

type log = { l_index : n; l_term : n; l_type : n; l_data : bytes;
             l_ext : bytes; l_time : gotime }

val enc_bytes : bytes -> bytes

val encode_log : log -> bytes option

type 'a dres =
| DOk of 'a * bytes
| DErr

val dec_varint : bytes -> n dres

val dec_bytes : bytes -> bytes dres

val decode_log : bytes -> log option

val parse_zone : str -> z option option

val show_zone : z option -> str

val parse_log : str list -> log option

val show_log : bool -> log -> str

val run_enc : str list -> str

val run_dec : str list -> str

val fnv_prime : n

val mask64 : n

val fnv_step : n -> n -> n

val fnv_add : n -> bytes -> n

val fnv_add_u64 : n -> n -> n

val extensionMagicPrefix : n

type entry = { e_index : n; e_term : n; e_type : n; e_data : bytes;
               e_ext : bytes }

val log_configuration : n

val is_bootstrap : entry -> bool

val checksum_log : n -> entry -> n

val encode_meta : n -> n -> bytes

type meta_res =
| MetaOk of n * n
| MetaErr

val decode_meta : bytes -> meta_res

val set_ext : entry -> bytes -> entry

type sstore = { s_first : n; s_logs : entry list }

val s_empty : sstore

val first_index : sstore -> n

val last_index : sstore -> n

val get : sstore -> n -> entry option

val contig_from : n -> entry list -> bool

val store_logs : sstore -> entry list -> sstore option

val delete_range : sstore -> n -> n -> sstore option

val set_nth : 'a1 list -> nat -> 'a1 -> 'a1 list

val tamper : sstore -> n -> entry -> sstore

type errkind =
| ENone
| ECkInflight
| ECkStorage
| ERange
| EOther

type report = { r_start : n; r_end : n; r_expected : n; r_written : n;
                r_read : n; r_err : errkind; r_skipped : (n * n) option }

val set_err : report -> errkind -> report

val set_read : report -> n -> report

val set_skipped : report -> (n * n) option -> report

type vstate = { v_sum : n; v_start : n }

val v_init : vstate

type uvs_res =
| UvsErr
| UvsOk of n * n * report option * entry

val new_report : n -> n -> n -> n -> report

val update_verify_state : (entry -> bool option) -> entry -> n -> n -> uvs_res

val opt_list : 'a1 option -> 'a1 list

val uvs_loop :
  (entry -> bool option) -> entry list -> n -> n -> (((n * n) * report
  list) * entry list) option

type sres =
| SOk
| SErrVfy
| SErrStore

type store_out = { o_res : sres; o_v : vstate; o_store : sstore;
                   o_reports : report list; o_batch : entry list;
                   o_called : bool }

val vstore_logs :
  (entry -> bool option) -> bool -> vstate -> sstore -> entry list ->
  store_out

val vdelete_range : vstate -> sstore -> n -> n -> (bool * vstate) * sstore

val read_range : sstore -> n -> nat -> n -> n option

val verify : sstore -> report -> report

type treport = report * report list

type vchan = { c_pending : report list; c_ch : treport option;
               c_inprog : treport option; c_last : n;
               c_delivered : treport list; c_dropped : n; c_written : 
               n; g_drops : report list }

val c_init : vchan

val ch_push : vchan -> report list -> vchan

val ch_send : vchan -> vchan

val skipped_of : n -> n -> (n * n) option

val ch_recv : sstore -> vchan -> vchan

val ch_return : vchan -> vchan

val ch_quiescent : vchan -> bool

val ch_restart : vchan -> vchan

type node = { n_v : vstate; n_store : sstore; n_shadow : sstore;
              n_fail : bool; n_c : vchan }

val node_init : node

val with_c : node -> vchan -> node

val node_store :
  (entry -> bool option) -> node -> entry list -> (sres * node) * report list

val node_delete : node -> n -> n -> bool * node

val node_restart : node -> node

val node_tamper : node -> n -> entry -> node

val node_arm_fail : node -> node

type event =
| HStore of nat * entry list
| HDelete of nat * n * n
| HRestart of nat
| HTamper of nat * n * entry
| HFail of nat
| HSend of nat
| HRecv of nat
| HReturn of nat

val ev_node : event -> nat

val node_step : (entry -> bool option) -> node -> event -> node

val upd_nth : node list -> nat -> (node -> node) -> node list

type sys = node list

val sys_init : nat -> sys

val node_at : sys -> nat -> node

val step : (entry -> bool option) -> sys -> event -> sys

val run_cpf : entry -> bool option

val bar : n

val groups_aux : str list -> str list -> str list list

val groups : str list -> str list list

type rstate = { rs_sys : sys; rs_blocked : bool list }

val blocked_at : rstate -> nat -> bool

val set_nth_b : bool list -> nat -> bool -> bool list

val do_ev : rstate -> event -> rstate

val settle : nat -> rstate -> nat -> rstate

val sends : nat -> rstate -> nat -> rstate

val s_ev : str

val s_es : str

val s_er : str

val s_nf : str

val s_no : str

val s_rc : str

val show_sres : sres -> str

val count_cp : entry list -> nat

val do_store : rstate -> nat -> entry list -> rstate * str

val parse_nat : str -> nat option

val parse_entries : nat -> str list -> (entry list * str list) option

val xor_at : bytes -> n -> n -> bytes

val mk_entry : n -> n -> n -> bytes -> bytes -> entry

val k1 : n -> str

val k2 : n -> n -> str

val apply_mut : entry -> str -> str -> str -> entry option

type mutation = { m_idx : n; m_kind : str; m_a : str; m_b : str }

val parse_muts : nat -> str list -> (mutation list * str list) option

val mutate_at : mutation list -> n -> entry -> entry option

val parse_nats : str list -> nat list option

val read_mut : sstore -> mutation list -> n -> nat -> entry list option option

val replicate :
  nat -> rstate -> nat -> entry list -> nat list -> rstate * str list

val join_with : n -> str list -> str

val show_entry : entry -> str

val run_op : rstate -> str list -> (rstate * str) option

val run_ops :
  rstate -> str list list -> str list -> (rstate * str list) option

val show_err : errkind -> str

val show_report : report -> str

val show_node : node -> str

val release_all : rstate -> nat -> nat -> rstate

val run_vfy : str list -> str

val k_enc : str

val k_dec : str

val k_vfy : str

val run_line : str -> str
