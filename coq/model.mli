
val negb : bool -> bool

type nat =
| O
| S of nat

type ('a, 'b) sum =
| Inl of 'a
| Inr of 'b

val fst : ('a1 * 'a2) -> 'a1

val snd : ('a1 * 'a2) -> 'a2

val length : 'a1 list -> nat

val app : 'a1 list -> 'a1 list -> 'a1 list

type comparison =
| Eq
| Lt
| Gt

val compOpp : comparison -> comparison

val add : nat -> nat -> nat

module Nat :
 sig
  val eqb : nat -> nat -> bool

  val leb : nat -> nat -> bool
 end

val nth : nat -> 'a1 list -> 'a1 -> 'a1

val nth_error : 'a1 list -> nat -> 'a1 option

val remove : ('a1 -> 'a1 -> bool) -> 'a1 -> 'a1 list -> 'a1 list

val rev : 'a1 list -> 'a1 list

val rev_append : 'a1 list -> 'a1 list -> 'a1 list

val map : ('a1 -> 'a2) -> 'a1 list -> 'a2 list

val flat_map : ('a1 -> 'a2 list) -> 'a1 list -> 'a2 list

val existsb : ('a1 -> bool) -> 'a1 list -> bool

val forallb : ('a1 -> bool) -> 'a1 list -> bool

val firstn : nat -> 'a1 list -> 'a1 list

val skipn : nat -> 'a1 list -> 'a1 list

type positive =
| XI of positive
| XO of positive
| XH

type n =
| N0
| Npos of positive

type z =
| Z0
| Zpos of positive
| Zneg of positive

module Pos :
 sig
  type mask =
  | IsNul
  | IsPos of positive
  | IsNeg
 end

module Coq_Pos :
 sig
  val succ : positive -> positive

  val add : positive -> positive -> positive

  val add_carry : positive -> positive -> positive

  val pred_double : positive -> positive

  type mask = Pos.mask =
  | IsNul
  | IsPos of positive
  | IsNeg

  val succ_double_mask : mask -> mask

  val double_mask : mask -> mask

  val double_pred_mask : positive -> mask

  val sub_mask : positive -> positive -> mask

  val sub_mask_carry : positive -> positive -> mask

  val mul : positive -> positive -> positive

  val iter : ('a1 -> 'a1) -> 'a1 -> positive -> 'a1

  val pow : positive -> positive -> positive

  val compare_cont : comparison -> positive -> positive -> comparison

  val compare : positive -> positive -> comparison

  val eqb : positive -> positive -> bool

  val iter_op : ('a1 -> 'a1 -> 'a1) -> positive -> 'a1 -> 'a1

  val to_nat : positive -> nat

  val of_succ_nat : nat -> positive

  val eq_dec : positive -> positive -> bool
 end

module N :
 sig
  val succ_double : n -> n

  val double : n -> n

  val add : n -> n -> n

  val sub : n -> n -> n

  val mul : n -> n -> n

  val compare : n -> n -> comparison

  val eqb : n -> n -> bool

  val leb : n -> n -> bool

  val ltb : n -> n -> bool

  val pow : n -> n -> n

  val pos_div_eucl : positive -> n -> n * n

  val div_eucl : n -> n -> n * n

  val div : n -> n -> n

  val modulo : n -> n -> n

  val to_nat : n -> nat

  val of_nat : nat -> n

  val eq_dec : n -> n -> bool
 end

module Z :
 sig
  val double : z -> z

  val succ_double : z -> z

  val pred_double : z -> z

  val pos_sub : positive -> positive -> z

  val add : z -> z -> z

  val opp : z -> z

  val sub : z -> z -> z

  val mul : z -> z -> z

  val compare : z -> z -> comparison

  val leb : z -> z -> bool

  val ltb : z -> z -> bool

  val eqb : z -> z -> bool

  val to_nat : z -> nat

  val to_N : z -> n

  val of_nat : nat -> z

  val of_N : n -> z

  val pos_div_eucl : positive -> z -> z * z

  val div_eucl : z -> z -> z * z

  val modulo : z -> z -> z

  val quotrem : z -> z -> z * z

  val quot : z -> z -> z

  val rem : z -> z -> z
 end

type bytes = n list

val len : bytes -> n

val le32 : n -> bytes

val le64 : n -> bytes

val nth0 : nat -> bytes -> n

val rd32 : bytes -> n

val rd64 : bytes -> n

val be32 : n -> bytes

val be64 : n -> bytes

val rdbe32 : bytes -> n

val rdbe64 : bytes -> n

val be16 : n -> bytes

val rdbe16 : bytes -> n

val two64 : n

val two63 : n

val two32 : n

val two31 : n

val two16 : n

val two15 : n

val z_to_u : n -> z -> n

val u_to_z : n -> n -> n -> z

val beq_bytes : bytes -> bytes -> bool

type str = n list

val sp : n

val split_aux : str -> str -> str list

val tokens : str -> str list

val hexval : n -> n option

val hex_to_N_aux : str -> n -> n option

val hex_to_N : str -> n option

val hex_to_Z : str -> z option

val hex_to_bytes_aux : str -> bytes option

val hex_to_bytes : str -> bytes option

val hexdigit : n -> n

val n_to_hex_aux : nat -> n -> str -> str

val n_to_hex : n -> str

val z_to_hex : z -> str

val bytes_to_hex_aux : bytes -> str

val bytes_to_hex : bytes -> str

val join : str list -> str

val s_ok : str

val s_err : str

val s_bad : str

val s_utc : str

val str_eqb : str -> str -> bool

val put_uvarint_aux : nat -> n -> bytes

val put_uvarint : n -> bytes

val get_uvarint_aux : bytes -> nat -> n -> n -> n * z

val get_uvarint : bytes -> n * z

type gotime = { t_sec : z; t_nsec : z; t_zone : z option }

val marshal_time : gotime -> bytes option

val unmarshal_time : bytes -> gotime option

type log = { l_index : n; l_term : n; l_type : n; l_data : bytes;
             l_ext : bytes; l_time : gotime }

val enc_bytes : bytes -> bytes

val encode_log : log -> bytes option

type 'a dres =
| DOk of 'a * bytes
| DErr

val dec_varint : bytes -> n dres

val dec_bytes : bytes -> bytes dres

val decode_log : bytes -> log option

val parse_zone : str -> z option option

val show_zone : z option -> str

val parse_log : str list -> log option

val show_log : bool -> log -> str

val run_enc : str list -> str

val run_dec : str list -> str

type entry = { e_index : n; e_term : n; e_type : n; e_data : bytes;
               e_ext : bytes; e_sec : z; e_nsec : z }

type lstore = { ls_first : n; ls_ents : entry list }

val empty_store : lstore

val ls_len : lstore -> n

val first_index : lstore -> n

val last_index : lstore -> n

val get_log : lstore -> n -> entry option

val consecutive_from : n -> entry list -> bool

val store_logs : lstore -> entry list -> lstore option

type env = { cancel_at : nat option; get_fail : n option;
             store_fail : nat option; has_progress : bool }

val cancelled : env -> nat -> bool

val src_get : env -> lstore -> n -> entry option

val dst_store : env -> nat -> lstore -> entry list -> lstore option

type cres =
| COk
| CCanceled
| CErrFirst
| CErrGet
| CErrStore
| COutOfFuel

type cout = { o_res : cres; o_dst : lstore; o_batches : entry list list;
              o_gets : n }

type cresult = { r_res : cres; r_dst : lstore; r_batches : entry list list;
                 r_gets : n; r_closed : bool }

val run_deferred : env -> cout -> cresult

val ret : cres -> lstore -> entry list list -> n -> cout

val flush :
  env -> lstore -> entry list list -> entry list -> (lstore * entry list
  list) option

val copy_loop :
  nat -> env -> lstore -> z -> n -> n -> nat -> entry list -> z -> lstore ->
  entry list list -> n -> cout

val copy_logs_body : env -> z -> lstore -> lstore -> cout

val copy_logs : env -> z -> lstore -> lstore -> cresult

val indexed_fromb : n -> entry list -> bool

val wf_storeb : lstore -> bool

type sstore = { s_kv : (bytes * bytes) list; s_int : (bytes * n) list }

val empty_sstore : sstore

val lookup : bytes -> (bytes * 'a1) list -> 'a1 option

val s_get : sstore -> bytes -> bytes option

val s_get_int : sstore -> bytes -> n option

val s_set : sstore -> bytes -> bytes -> sstore

val s_set_int : sstore -> bytes -> n -> sstore

type miss_policy = { miss_get_err : bool; miss_int_err : bool }

type sres =
| SOk
| SCanceled
| SErrGet

val k_current_term : bytes

val k_last_vote_term : bytes

val k_last_vote_cand : bytes

val known_int_keys : bytes list

val known_keys : bytes list

type sout = { so_res : sres; so_dst : sstore; so_chk : nat }

val copy_int_keys :
  miss_policy -> nat option -> sstore -> bytes list -> nat -> sstore -> sout

val copy_keys :
  miss_policy -> nat option -> sstore -> bytes list -> nat -> sstore -> sout

type sresult = { sr_res : sres; sr_dst : sstore; sr_closed : bool }

val copy_stable :
  miss_policy -> nat option -> bool -> sstore -> sstore -> bytes list ->
  bytes list -> sresult

val s_canceled : str

val s_errfirst : str

val s_errget : str

val s_errstore : str

val s_fuel : str

val s_dash : str

val opt_N : str -> n option option

val opt_nat : str -> nat option option

val parse_bool : str -> bool option

val parse_entries : nat -> str list -> entry list option

val show_entry : entry -> str list

val show_cres : cres -> str

val show_bool : bool -> str

val show_cresult : cresult -> str

val run_mig : str list -> str

val policy_of : str -> miss_policy option

val take_keys : nat -> str list -> (bytes list * str list) option

val take_kvs : nat -> str list -> ((bytes * bytes) list * str list) option

val take_ints : nat -> str list -> ((bytes * n) list * str list) option

val count : str list -> (nat * str list) option

val show_sres : sres -> str

val show_sresult : sresult -> bytes list -> bytes list -> str

val run_stb : str list -> str

type fname =
| Seg of n
| Meta
| MetaTmp
| Other of n

type mkind =
| MCall
| MAck

type event =
| OpenExcl of fname
| OpenCreat of fname
| OpenW of fname
| Fallocate of fname * n * n * n
| Pwrite of fname * n * n
| Truncate of fname * n
| Fsync of fname
| Fdatasync of fname
| FsyncDir
| Unlink of fname
| Rename of fname * fname
| Close of fname
| Mark of mkind * n * n

type viol =
| VMissingFileFsync
| VMissingDirFsync
| VDeleteNoDirFsync
| VNonExclCreate
| VBadFallocate
| VNotPreallocated
| VSegTruncated
| VSegRenamed
| VUnknownFile
| VMetaNotRenamed
| VMetaTmpNotSynced
| VMetaDirNotSynced
| VMetaNotSynced
| VMetaUnlinked

val memb : n -> n list -> bool

val del : n -> n list -> n list

val add0 : n -> n list -> n list

type cst = { known : n list; nofalloc : n list; dirty : n list;
             pendent : n list; written : n list; unl : bool;
             tmp_exists : bool; tmp_dirty : bool; tmp_open : bool;
             tmp_written : bool; meta_exists : bool; meta_dirty : bool;
             ren_pending : bool }

val c0 : cst

val set_segs :
  cst -> n list -> n list -> n list -> n list -> n list -> bool -> cst

val set_meta :
  cst -> bool -> bool -> bool -> bool -> bool -> bool -> bool -> cst

val is_nil : n list -> bool

val ack_check : cst -> viol option

val tmp_write : cst -> (cst, viol) sum

val meta_write : cst -> (cst, viol) sum

val step : n -> cst -> event -> (cst, viol) sum

val check : n -> cst -> nat -> event list -> (cst, nat * viol) sum

val final_ok : cst -> bool

val discipline_res : n -> event list -> (nat * viol) option

type fsop =
| FCreate of n
| FOpenWriter of n
| FWrite of n * n * n
| FSync of n
| FClose of n
| FDelete of n
| FMetaInit
| FMetaCommit
| FMark of mkind * n * n

type handles = (n * bool) list

val h_get : n -> handles -> bool option

val h_del : n -> handles -> handles

val h_set : n -> bool -> handles -> handles

val meta_init_events : event list

val meta_commit_events : event list

val fs_step : n -> handles -> fsop -> event list * handles

val fs_trace_from : n -> handles -> fsop list -> event list

val fs_trace : n -> fsop list -> event list

val colon : n

val split_colon_aux : str -> str -> str list

val fields : str -> str list

val parse_fname : str -> fname option

val show_fname : fname -> str

val t_x : str

val t_c : str

val t_o : str

val t_fa : str

val t_w : str

val t_tr : str

val t_fs : str

val t_fd : str

val t_fD : str

val t_u : str

val t_r : str

val t_cl : str

val t_mc : str

val t_ma : str

val parse_event : str -> event option

val parse_all : (str -> 'a1 option) -> str list -> 'a1 list -> 'a1 list option

val jc : str list -> str

val show_event : event -> str

val show_viol : viol -> str

val s_viol : str

val run_fst : str list -> str

val t_cr : str

val t_ow : str

val t_wr : str

val t_sy : str

val t_de : str

val t_mi : str

val parse_fsop : str -> fsop option

val s_dash1 : str

val run_fso : str list -> str

val k_enc : str

val k_dec : str

val k_mig : str

val k_stb : str

val k_fst : str

val k_fso : str

val run_line : str -> str
