(* RunSegFacts.v -- the crash images built by RunSeg.crash_mix (the `C mask` op
   of the segcrash stream) are torn images in the sense of RecoverFacts.torn, so
   the L1 recovery law speaks about exactly the files that stream feeds to the
   implementation and to the model. *)
From RW Require Import Base.Bytes Base.BytesFacts Fmt.FrameFacts Seg.RecoverFacts Run.RunSeg.
From Coq Require Import ZifyN ZifyNat ZifyBool.
Open Scope N_scope.

Lemma crash_mix_S old new mask f :
  new <> [] ->
  crash_mix old new mask (S f) =
  (if N.odd mask then firstn 8 new else firstn 8 old)
    ++ crash_mix (skipn 8 old) (skipn 8 new) (N.div2 mask) f.
Proof. intros H. cbn [crash_mix]. destruct old, new; try congruence; reflexivity. Qed.

(* a write of [new] over zeros *)
Lemma crash_mix_torn k : forall new mask fuel,
  length new = (8 * k)%nat -> (k < fuel)%nat ->
  torn new (crash_mix (zeros (8 * k)) new mask fuel).
Proof.
  induction k as [|k IH]; intros new mask fuel Hl Hf.
  - destruct new; [|cbn in Hl; lia]. destruct fuel; [lia|]. cbn. constructor.
  - destruct fuel as [|fuel]; [lia|].
    assert (Hn : new <> []) by (destruct new; [cbn in Hl; lia|discriminate]).
    rewrite crash_mix_S by exact Hn.
    replace (8 * S k)%nat with (8 + 8 * k)%nat by lia.
    rewrite zeros_app. change (firstn 8 (zeros 8 ++ zeros (8 * k))) with (zeros 8).
    change (skipn 8 (zeros 8 ++ zeros (8 * k))) with (zeros (8 * k)).
    rewrite <- (firstn_skipn 8 new) at 1.
    assert (L8 : length (firstn 8 new) = 8%nat) by (rewrite firstn_length; lia).
    assert (Lr : length (skipn 8 new) = (8 * k)%nat) by (rewrite skipn_length; lia).
    destruct (N.odd mask).
    + apply torn_keep; [exact L8|]. apply IH; [exact Lr|lia].
    + apply torn_zero; [exact L8|]. apply IH; [exact Lr|lia].
Qed.

(* chunks that do not change between the two versions come out unchanged *)
Lemma crash_mix_same k : forall a mask fuel,
  (length a <= 8 * fuel)%nat -> (length a <= 8 * k)%nat -> crash_mix a a mask fuel = a.
Proof.
  induction k as [|k IH]; intros a mask fuel Hf Hk.
  - destruct a; [|cbn in Hk; lia]. destruct fuel; reflexivity.
  - destruct a as [|x a']; [destruct fuel; reflexivity|].
    destruct fuel as [|fuel]; [cbn in Hf; lia|]. rewrite crash_mix_S by discriminate.
    replace (if N.odd mask then firstn 8 (x :: a') else firstn 8 (x :: a')) with (firstn 8 (x :: a'))
      by (destruct (N.odd mask); reflexivity).
    rewrite IH.
    + apply firstn_skipn.
    + rewrite skipn_length. lia.
    + rewrite skipn_length. lia.
Qed.

Lemma crash_mix_prefix k : forall a o n mask fuel,
  length a = (8 * k)%nat -> (k <= fuel)%nat -> (o <> [] \/ n <> [] \/ k = 0%nat) ->
  exists mask', crash_mix (a ++ o) (a ++ n) mask fuel = a ++ crash_mix o n mask' (fuel - k).
Proof.
  induction k as [|k IH]; intros a o n mask fuel Hl Hf Hne.
  - destruct a; [|cbn in Hl; lia]. exists mask. rewrite Nat.sub_0_r. reflexivity.
  - destruct fuel as [|fuel]; [lia|].
    assert (Hn : a ++ n <> []) by (destruct a; [cbn in Hl; lia|discriminate]).
    rewrite crash_mix_S by exact Hn.
    assert (F1 : firstn 8 (a ++ n) = firstn 8 a) by (apply firstn_app_le; lia).
    assert (F2 : firstn 8 (a ++ o) = firstn 8 a) by (apply firstn_app_le; lia).
    assert (S1 : skipn 8 (a ++ n) = skipn 8 a ++ n).
    { rewrite skipn_app. replace (8 - length a)%nat with 0%nat by lia. reflexivity. }
    assert (S2 : skipn 8 (a ++ o) = skipn 8 a ++ o).
    { rewrite skipn_app. replace (8 - length a)%nat with 0%nat by lia. reflexivity. }
    rewrite F1, F2, S1, S2.
    replace (if N.odd mask then firstn 8 a else firstn 8 a) with (firstn 8 a) by (destruct (N.odd mask); reflexivity).
    destruct (IH (skipn 8 a) o n (N.div2 mask) fuel) as [mask' E].
    + rewrite skipn_length. lia.
    + lia.
    + destruct Hne as [H|[H|H]]; [left; exact H|right; left; exact H|lia].
    + exists mask'. rewrite E. rewrite app_assoc, firstn_skipn. reflexivity.
Qed.

(* the whole-file form used by the `C mask` operation: the file before the
   write is a ++ zeros, the file after it a ++ new ++ zeros; whatever the mask,
   the crash image is a ++ T ++ zeros with T a torn image of new *)
Theorem crash_mix_file ka kn a new z mask fuel :
  length a = (8 * ka)%nat -> length new = (8 * kn)%nat -> (0 < kn)%nat ->
  (8 * ka + 8 * kn + z < 8 * fuel)%nat ->
  exists T, torn new T /\
    crash_mix (a ++ zeros (8 * kn) ++ zeros z) (a ++ new ++ zeros z) mask fuel = a ++ T ++ zeros z.
Proof.
  intros Ha Hn Hk Hf.
  assert (Hne : new <> []) by (destruct new; [cbn in Hn; lia|discriminate]).
  destruct (crash_mix_prefix ka a (zeros (8 * kn) ++ zeros z) (new ++ zeros z) mask fuel Ha ltac:(lia)) as [m1 E1].
  { right. left. destruct new; [congruence|discriminate]. }
  rewrite E1.
  (* the written region, chunk by chunk *)
  assert (G : forall k new' m f', length new' = (8 * k)%nat -> (8 * k + z < 8 * f')%nat ->
               exists T, torn new' T /\
                 crash_mix (zeros (8 * k) ++ zeros z) (new' ++ zeros z) m f' = T ++ zeros z).
  { clear. induction k as [|k IH]; intros new' m f' Hl Hf.
    - destruct new'; [|cbn in Hl; lia]. exists []. split; [constructor|].
      cbn [app zeros repeat Nat.mul]. apply (crash_mix_same (S z)); [rewrite zeros_length; lia|rewrite zeros_length; lia].
    - destruct f' as [|f']; [lia|].
      assert (Hn : new' ++ zeros z <> []) by (destruct new'; [cbn in Hl; lia|discriminate]).
      rewrite crash_mix_S by exact Hn.
      replace (8 * S k)%nat with (8 + 8 * k)%nat by lia. rewrite zeros_app, <- app_assoc.
      change (firstn 8 (zeros 8 ++ zeros (8 * k) ++ zeros z)) with (zeros 8).
      change (skipn 8 (zeros 8 ++ zeros (8 * k) ++ zeros z)) with (zeros (8 * k) ++ zeros z).
      assert (F1 : firstn 8 (new' ++ zeros z) = firstn 8 new') by (apply firstn_app_le; lia).
      assert (S1 : skipn 8 (new' ++ zeros z) = skipn 8 new' ++ zeros z).
      { rewrite skipn_app. replace (8 - length new')%nat with 0%nat by lia. reflexivity. }
      rewrite F1, S1.
      assert (L8 : length (firstn 8 new') = 8%nat) by (rewrite firstn_length; lia).
      destruct (IH (skipn 8 new') (N.div2 m) f') as (T & HT & E); [rewrite skipn_length; lia|lia|].
      rewrite E.
      destruct (N.odd m).
      + exists (firstn 8 new' ++ T). split; [|rewrite <- app_assoc; reflexivity].
        rewrite <- (firstn_skipn 8 new') at 1. apply torn_keep; assumption.
      + exists (zeros 8 ++ T). split; [|rewrite <- app_assoc; reflexivity].
        rewrite <- (firstn_skipn 8 new') at 1. apply torn_zero; assumption. }
  destruct (G kn new m1 (fuel - ka)%nat Hn ltac:(lia)) as (T & HT & E2).
  exists T. split; [exact HT|]. rewrite E2. reflexivity.
Qed.
