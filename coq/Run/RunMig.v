(* RunMig.v -- line runners of the `mig` correspondence stream (C19).

   mig <src> <dst> <prog> <bb> <cancel> <getfail> <storefail> <idxfail> <first> (<entry>)*
     src,dst   : store kinds (i = raft.InmemStore, w = WAL, b = raft-boltdb); the
                 log model is the same contiguous-log spec for all of them
     prog      : 1 = non-nil progress channel, 0 = nil
     bb        : batchBytes (Z)
     cancel    : - | k   ctx.Err() is non-nil from the k-th loop check on
     getfail   : - | idx src.GetLog(idx) fails
     storefail : - | k   the k-th dst.StoreLogs fails
     idxfail   : - | f   src.FirstIndex() fails | c  the source store is closed
                 (FirstIndex fails) | l  src.LastIndex() fails
     entry     : index term type data ext sec nsec
   observation: <res> <closed> <gets> <first> <last> <#batches> <len>* <#entries> <entry>*

   stb <src> <dst> <prog> <cancel> <nx> <key>* <nxi> <key>* <nkv> (<key> <val>)* <nint> (<key> <n>)*
   observation: <res> <closed> <int value>* <value>*   (requested keys, in the
   order the code copies them; missing = 0 / empty) *)
From RW Require Import Base.Bytes Mig.Copy Run.Wire.
Open Scope N_scope.

Definition s_canceled : str := [99;97;110;99;101;108;101;100].     (* canceled *)
Definition s_errfirst : str := [101;114;114;102;105;114;115;116].  (* errfirst *)
Definition s_errlast : str := [101;114;114;108;97;115;116].     (* errlast *)
Definition s_errget : str := [101;114;114;103;101;116].            (* errget *)
Definition s_errstore : str := [101;114;114;115;116;111;114;101].  (* errstore *)
Definition s_fuel : str := [102;117;101;108].                      (* fuel *)
Definition s_dash : str := [45].

Definition opt_N (s : str) : option (option N) :=
  if str_eqb s s_dash then Some None
  else match hex_to_N s with Some n => Some (Some n) | None => None end.

Definition opt_nat (s : str) : option (option nat) :=
  match opt_N s with
  | Some (Some n) => Some (Some (N.to_nat n))
  | Some None => Some None
  | None => None
  end.

(* (first_fail, last_fail) *)
Definition parse_idxfail (s : str) : option (bool * bool) :=
  match s with
  | [45] => Some (false, false)            (* - *)
  | [102] | [99] => Some (true, false)     (* f, c *)
  | [108] => Some (false, true)            (* l *)
  | _ => None
  end.

Definition parse_bool (s : str) : option bool :=
  match s with [49] => Some true | [48] => Some false | _ => None end.

Fixpoint parse_entries (fuel : nat) (ts : list str) : option (list entry) :=
  match fuel with
  | O => None
  | S f =>
      match ts with
      | [] => Some []
      | i :: t :: ty :: d :: e :: sec :: ns :: rest =>
          match hex_to_N i, hex_to_N t, hex_to_N ty, hex_to_bytes d, hex_to_bytes e,
                hex_to_Z sec, hex_to_Z ns, parse_entries f rest with
          | Some i, Some t, Some ty, Some d, Some e, Some sec, Some ns, Some r =>
              Some ({| e_index := i; e_term := t; e_type := ty; e_data := d; e_ext := e;
                       e_sec := sec; e_nsec := ns |} :: r)
          | _, _, _, _, _, _, _, _ => None
          end
      | _ => None
      end
  end.

Definition show_entry (e : entry) : list str :=
  [N_to_hex (e_index e); N_to_hex (e_term e); N_to_hex (e_type e);
   bytes_to_hex (e_data e); bytes_to_hex (e_ext e); Z_to_hex (e_sec e); Z_to_hex (e_nsec e)].

Definition show_cres (r : cres) : str :=
  match r with
  | COk => s_ok | CCanceled => s_canceled | CErrFirst => s_errfirst | CErrLast => s_errlast
  | CErrGet => s_errget | CErrStore => s_errstore | COutOfFuel => s_fuel
  end.

Definition show_bool (b : bool) : str := if b then [49] else [48].

Definition show_cresult (r : cresult) : str :=
  join ([show_cres (r_res r); show_bool (r_closed r); N_to_hex (r_gets r);
         N_to_hex (first_index (r_dst r)); N_to_hex (last_index (r_dst r));
         N_to_hex (N.of_nat (length (r_batches r)))]
        ++ map (fun b => N_to_hex (N.of_nat (length b))) (r_batches r)
        ++ [N_to_hex (ls_len (r_dst r))]
        ++ flat_map show_entry (ls_ents (r_dst r))).

Definition run_mig (ts : list str) : str :=
  match ts with
  | _src :: _dst :: prog :: bb :: cancel :: gf :: sf :: xf :: first :: ents =>
      match parse_bool prog, hex_to_Z bb, opt_nat cancel, opt_N gf, opt_nat sf, parse_idxfail xf,
            hex_to_N first, parse_entries (S (length ents)) ents with
      | Some prog, Some bb, Some cancel, Some gf, Some sf, Some (ff, lf), Some first, Some ents =>
          let src := {| ls_first := first; ls_ents := ents |} in
          if wf_storeb src then
            show_cresult (copy_logs {| cancel_at := cancel; get_fail := gf; store_fail := sf;
                                       first_fail := ff; last_fail := lf;
                                       has_progress := prog |} bb src empty_store)
          else s_bad
      | _, _, _, _, _, _, _, _ => s_bad
      end
  | _ => s_bad
  end.

(* ---- CopyStable -------------------------------------------------------------- *)
Definition policy_of (kind : str) : option miss_policy :=
  match kind with
  | [105] => Some {| miss_get_err := true; miss_int_err := false |}   (* i *)
  | [98] => Some {| miss_get_err := true; miss_int_err := true |}     (* b *)
  | [119] => Some {| miss_get_err := false; miss_int_err := false |}  (* w *)
  | _ => None
  end.

(* take n items parsed by f (each consuming k tokens) *)
Fixpoint take_keys (n : nat) (ts : list str) : option (list bytes * list str) :=
  match n with
  | O => Some ([], ts)
  | S m => match ts with
           | k :: r => match hex_to_bytes k, take_keys m r with
                       | Some k, Some (ks, rest) => Some (k :: ks, rest)
                       | _, _ => None
                       end
           | [] => None
           end
  end.

Fixpoint take_kvs (n : nat) (ts : list str) : option (list (bytes * bytes) * list str) :=
  match n with
  | O => Some ([], ts)
  | S m => match ts with
           | k :: v :: r => match hex_to_bytes k, hex_to_bytes v, take_kvs m r with
                            | Some k, Some v, Some (ks, rest) => Some ((k, v) :: ks, rest)
                            | _, _, _ => None
                            end
           | _ => None
           end
  end.

Fixpoint take_ints (n : nat) (ts : list str) : option (list (bytes * N) * list str) :=
  match n with
  | O => Some ([], ts)
  | S m => match ts with
           | k :: v :: r => match hex_to_bytes k, hex_to_N v, take_ints m r with
                            | Some k, Some v, Some (ks, rest) => Some ((k, v) :: ks, rest)
                            | _, _, _ => None
                            end
           | _ => None
           end
  end.

Definition count (ts : list str) : option (nat * list str) :=
  match ts with
  | c :: r => match hex_to_N c with
              | Some n => if n <? 4096 then Some (N.to_nat n, r) else None
              | None => None
              end
  | [] => None
  end.

Definition show_sres (r : sres) : str :=
  match r with SOk => s_ok | SCanceled => s_canceled | SErrGet => s_errget end.

Definition show_sresult (r : sresult) (int_keys keys : list bytes) : str :=
  join ([show_sres (sr_res r); show_bool (sr_closed r)]
        ++ map (fun k => N_to_hex (match s_get_int (sr_dst r) k with Some v => v | None => 0 end)) int_keys
        ++ map (fun k => bytes_to_hex (match s_get (sr_dst r) k with Some v => v | None => [] end)) keys).

Definition run_stb (ts : list str) : str :=
  match ts with
  | src :: _dst :: prog :: cancel :: r0 =>
      match policy_of src, parse_bool prog, opt_nat cancel, count r0 with
      | Some pol, Some prog, Some cancel, Some (nx, r1) =>
          match take_keys nx r1 with
          | Some (extra, r2) =>
              match count r2 with
              | Some (nxi, r3) =>
                  match take_keys nxi r3 with
                  | Some (extra_int, r4) =>
                      match count r4 with
                      | Some (nkv, r5) =>
                          match take_kvs nkv r5 with
                          | Some (kvs, r6) =>
                              match count r6 with
                              | Some (nint, r7) =>
                                  match take_ints nint r7 with
                                  | Some (ints, []) =>
                                      show_sresult
                                        (copy_stable pol cancel prog {| s_kv := kvs; s_int := ints |}
                                                     empty_sstore extra extra_int)
                                        (known_int_keys ++ extra_int) (known_keys ++ extra)
                                  | Some (ints, r8) =>
                                      (* optional: what the destination holds before the copy *)
                                      match count r8 with
                                      | Some (ndkv, r9) =>
                                          match take_kvs ndkv r9 with
                                          | Some (dkvs, r10) =>
                                              match count r10 with
                                              | Some (ndint, r11) =>
                                                  match take_ints ndint r11 with
                                                  | Some (dints, []) =>
                                                      show_sresult
                                                        (copy_stable pol cancel prog {| s_kv := kvs; s_int := ints |}
                                                                     {| s_kv := dkvs; s_int := dints |} extra extra_int)
                                                        (known_int_keys ++ extra_int) (known_keys ++ extra)
                                                  | _ => s_bad
                                                  end
                                              | None => s_bad
                                              end
                                          | None => s_bad
                                          end
                                      | None => s_bad
                                      end
                                  | None => s_bad
                                  end
                              | None => s_bad
                              end
                          | None => s_bad
                          end
                      | None => s_bad
                      end
                  | None => s_bad
                  end
              | None => s_bad
              end
          | None => s_bad
          end
      | _, _, _, _ => s_bad
      end
  | _ => s_bad
  end.
