(* RunVfy.v -- line runner of the `vfy` correspondence stream.
   One line = one multi-node history:
     vfy <nodes> <m|w> | <op> | <op> ...     (m/w: InmemStore / real WAL underneath)
   ops (numbers hex, byte strings hex, "-" = empty):
     a <n> <cnt> (<idx> <term> <type> <data> <ext>)*   StoreLogs on node n
     r <src> <dst> <lo> <hi> <nmut> (<idx> <kind> <a> <b>)* <nsz> <size>*
                                 replicate [lo,hi] read from src's store to dst in
                                 batches of the given sizes, mutated in flight
     d <n> <min> <max>           DeleteRange
     x <n>                       restart the middleware (new LogStore, same store)
     t <n> <idx> <kind> <a> <b>  at-rest corruption of the entry at idx
     f <n>                       next underlying StoreLogs fails
     b <n> / u <n>               ReportFn blocks / is released
     g <n> <idx>                 GetLog through the middleware
     i <n>                       FirstIndex LastIndex through the middleware
   mutation kinds: i t y (set Index/Term/Type to a) d e (set Data/Extensions to a)
     fd fe (xor byte a of Data/Extensions with b) ad ae (append a) cd ce (cut to a
     bytes) sh (move the last a bytes of Data to the front of Extensions).
   The state after a line is [run cpf (sys_init nodes) h] for the event list h
   the ops expand to; the observation is the per-op results followed, for every
   node, by counters, all delivered reports and the store contents. *)
From RW Require Import Base.Bytes Vfy.Checksum Vfy.Spec Vfy.Store Vfy.VerifChan Vfy.Nodes Run.Wire.
Open Scope N_scope.

(* the IsCheckpointFn of the harness: first data byte 0xc0 = checkpoint, 0xce = error *)
Definition run_cpf (e : entry) : option bool :=
  match e_data e with
  | b :: _ => if b =? 192 then Some true else if b =? 206 then None else Some false
  | [] => Some false
  end.

Definition bar : N := 124.  (* "|" *)

Fixpoint groups_aux (ts : list str) (cur : list str) : list (list str) :=
  match ts with
  | [] => [rev_append cur []]
  | t :: r => if str_eqb t [bar] then rev_append cur [] :: groups_aux r [] else groups_aux r (t :: cur)
  end.
Definition groups (ts : list str) : list (list str) := groups_aux ts [].

Record rstate := { rs_sys : sys; rs_blocked : list bool }.

Definition blocked_at (st : rstate) (n : nat) : bool := nth n (rs_blocked st) false.

Fixpoint set_nth_b (l : list bool) (k : nat) (v : bool) : list bool :=
  match l, k with
  | [], _ => []
  | _ :: r, O => v :: r
  | x :: r, S k' => x :: set_nth_b r k' v
  end.

Definition do_ev (st : rstate) (ev : event) : rstate :=
  {| rs_sys := step run_cpf (rs_sys st) ev; rs_blocked := rs_blocked st |}.

(* let the verifier goroutine of node n run until it is idle or stuck in ReportFn *)
Fixpoint settle (fuel : nat) (st : rstate) (n : nat) : rstate :=
  match fuel with
  | O => st
  | S k =>
      let st1 := if blocked_at st n then st else do_ev st (HReturn n) in
      let st2 := do_ev st1 (HRecv n) in
      settle k st2 n
  end.

Fixpoint sends (k : nat) (st : rstate) (n : nat) : rstate :=
  match k with O => st | S k' => sends k' (do_ev st (HSend n)) n end.

Definition s_ev : str := [101; 118].   (* "ev" verifier-state error *)
Definition s_es : str := [101; 115].   (* "es" underlying store error *)
Definition s_er : str := [101; 114].   (* "er" *)
Definition s_nf : str := [110; 102].   (* "nf" not found *)
Definition s_no : str := [110; 111].   (* "no" not applicable now *)
Definition s_rc : str := [114; 99].    (* "rc" refused: would race *)

Definition show_sres (r : sres) : str :=
  match r with SOk => s_ok | SErrVfy => s_ev | SErrStore => s_es end.

Definition count_cp (b : list entry) : nat :=
  length (filter (fun e => match run_cpf e with Some true => true | _ => false end) b).

(* StoreLogs(b) on node n, then its sends, then the verifier runs *)
Definition do_store (st : rstate) (n : nat) (b : list entry) : rstate * str :=
  let nd := node_at (rs_sys st) n in
  match c_inprog (n_c nd) with
  | None => if (1 <? count_cp b)%nat then (st, s_rc) else
      let '(res, _, rs) := node_store run_cpf nd b in
      let st1 := do_ev st (HStore n b) in
      (settle 3 (sends (length rs) st1 n) n, show_sres res)
  | Some _ =>
      let '(res, _, rs) := node_store run_cpf nd b in
      let st1 := do_ev st (HStore n b) in
      (settle 3 (sends (length rs) st1 n) n, show_sres res)
  end.

(* ---- parsing --------------------------------------------------------------- *)
Definition parse_nat (s : str) : option nat :=
  match hex_to_N s with Some v => Some (N.to_nat v) | None => None end.

Fixpoint parse_entries (cnt : nat) (ts : list str) : option (list entry * list str) :=
  match cnt with
  | O => Some ([], ts)
  | S k =>
      match ts with
      | i :: t :: y :: d :: x :: rest =>
          match hex_to_N i, hex_to_N t, hex_to_N y, hex_to_bytes d, hex_to_bytes x with
          | Some i, Some t, Some y, Some d, Some x =>
              match parse_entries k rest with
              | Some (es, rest') =>
                  Some ({| e_index := i; e_term := t; e_type := y; e_data := d; e_ext := x |} :: es, rest')
              | None => None
              end
          | _, _, _, _, _ => None
          end
      | _ => None
      end
  end.

Definition xor_at (bs : bytes) (pos mask : N) : bytes :=
  match nth_error bs (N.to_nat pos) with
  | Some v => set_nth bs (N.to_nat pos) (N.lxor v mask)
  | None => bs
  end.

Definition mk_entry (i t y : N) (d x : bytes) : entry :=
  {| e_index := i; e_term := t; e_type := y; e_data := d; e_ext := x |}.

Definition k1 (c : N) : str := [c].
Definition k2 (c d : N) : str := [c; d].

(* one mutation of one entry *)
Definition apply_mut (e : entry) (kind a b : str) : option entry :=
  let i := e_index e in let t := e_term e in let y := e_type e in
  let d := e_data e in let x := e_ext e in
  if str_eqb kind (k1 105) then option_map (fun v => mk_entry v t y d x) (hex_to_N a)
  else if str_eqb kind (k1 116) then option_map (fun v => mk_entry i v y d x) (hex_to_N a)
  else if str_eqb kind (k1 121) then option_map (fun v => mk_entry i t v d x) (hex_to_N a)
  else if str_eqb kind (k1 100) then option_map (fun v => mk_entry i t y v x) (hex_to_bytes a)
  else if str_eqb kind (k1 101) then option_map (fun v => mk_entry i t y d v) (hex_to_bytes a)
  else if str_eqb kind (k2 102 100) then
    match hex_to_N a, hex_to_N b with
    | Some p, Some m => Some (mk_entry i t y (xor_at d p m) x) | _, _ => None end
  else if str_eqb kind (k2 102 101) then
    match hex_to_N a, hex_to_N b with
    | Some p, Some m => Some (mk_entry i t y d (xor_at x p m)) | _, _ => None end
  else if str_eqb kind (k2 97 100) then option_map (fun v => mk_entry i t y (d ++ v) x) (hex_to_bytes a)
  else if str_eqb kind (k2 97 101) then option_map (fun v => mk_entry i t y d (x ++ v)) (hex_to_bytes a)
  else if str_eqb kind (k2 99 100) then option_map (fun v => mk_entry i t y (firstn (N.to_nat v) d) x) (hex_to_N a)
  else if str_eqb kind (k2 99 101) then option_map (fun v => mk_entry i t y d (firstn (N.to_nat v) x)) (hex_to_N a)
  else if str_eqb kind (k2 115 104) then
    option_map (fun v => let keep := (length d - N.to_nat v)%nat in
                         mk_entry i t y (firstn keep d) (skipn keep d ++ x)) (hex_to_N a)
  else None.

Record mutation := { m_idx : N; m_kind : str; m_a : str; m_b : str }.

Fixpoint parse_muts (cnt : nat) (ts : list str) : option (list mutation * list str) :=
  match cnt with
  | O => Some ([], ts)
  | S k =>
      match ts with
      | i :: kd :: a :: b :: rest =>
          match hex_to_N i, parse_muts k rest with
          | Some i, Some (ms, rest') => Some ({| m_idx := i; m_kind := kd; m_a := a; m_b := b |} :: ms, rest')
          | _, _ => None
          end
      | _ => None
      end
  end.

(* mutations apply to the entry read at index idx (its place), not to its Index field *)
Fixpoint mutate_at (ms : list mutation) (idx : N) (e : entry) : option entry :=
  match ms with
  | [] => Some e
  | m :: r => if m_idx m =? idx
              then match apply_mut e (m_kind m) (m_a m) (m_b m) with
                   | Some e' => mutate_at r idx e'
                   | None => None
                   end
              else mutate_at r idx e
  end.

Fixpoint parse_nats (ts : list str) : option (list nat) :=
  match ts with
  | [] => Some []
  | t :: r => match parse_nat t, parse_nats r with
              | Some v, Some vs => Some (v :: vs)
              | _, _ => None
              end
  end.

(* read [lo, lo+n) from the store, mutating in flight; None = an index is missing *)
Fixpoint read_mut (s : sstore) (ms : list mutation) (idx : N) (n : nat) : option (option (list entry)) :=
  match n with
  | O => Some (Some [])
  | S k => match get s idx with
           | None => Some None
           | Some e => match mutate_at ms idx e, read_mut s ms (idx + 1) k with
                       | Some e', Some (Some r) => Some (Some (e' :: r))
                       | Some _, Some None => Some None
                       | _, _ => None
                       end
           end
  end.

(* hand the entries to dst batch by batch; stop at the first error *)
Fixpoint replicate (fuel : nat) (st : rstate) (dst : nat) (es : list entry) (sizes : list nat)
  : rstate * list str :=
  match fuel, es with
  | O, _ => (st, [])
  | _, [] => (st, [])
  | S k, _ :: _ =>
      let '(sz, sizes') := match sizes with
                           | [] => (length es, [])
                           | z :: r => ((if Nat.eqb z 0 then 1 else z)%nat, r)
                           end in
      let '(st', o) := do_store st dst (firstn sz es) in
      if str_eqb o s_ok then
        let '(st'', os) := replicate k st' dst (skipn sz es) sizes' in (st'', o :: os)
      else (st', [o])
  end.

Fixpoint join_with (sep : N) (l : list str) : str :=
  match l with
  | [] => []
  | [x] => x
  | x :: r => x ++ sep :: join_with sep r
  end.

Definition show_entry (e : entry) : str :=
  join [N_to_hex (e_index e); N_to_hex (e_term e); N_to_hex (e_type e);
        bytes_to_hex (e_data e); bytes_to_hex (e_ext e)].

(* ---- one op ---------------------------------------------------------------- *)
Definition run_op (st : rstate) (g : list str) : option (rstate * str) :=
  match g with
  | op :: nn :: args =>
      match parse_nat nn with
      | None => None
      | Some n =>
          if (length (rs_sys st) <=? n)%nat then None
          else if str_eqb op (k1 97) then          (* a *)
            match args with
            | c :: rest =>
                match parse_nat c with
                | Some cnt => match parse_entries cnt rest with
                              | Some (es, []) => Some (do_store st n es)
                              | _ => None
                              end
                | None => None
                end
            | [] => None
            end
          else if str_eqb op (k1 114) then         (* r: nn = src *)
            match args with
            | d :: lo :: hi :: nm :: rest =>
                match parse_nat d, hex_to_N lo, hex_to_N hi, parse_nat nm with
                | Some dst, Some lo, Some hi, Some nm =>
                    if (length (rs_sys st) <=? dst)%nat then None else
                    match parse_muts nm rest with
                    | Some (ms, _ :: szs) =>
                        match parse_nats szs with
                        | Some sizes =>
                            match read_mut (n_store (node_at (rs_sys st) n)) ms lo
                                           (N.to_nat (hi + 1 - lo)) with
                            | None => None
                            | Some None => Some (st, s_nf)
                            | Some (Some es) =>
                                let '(st', os) := replicate (S (length es)) st dst es sizes in
                                Some (st', match os with [] => s_ok | _ => join_with 44 os end)
                            end
                        | None => None
                        end
                    | _ => None
                    end
                | _, _, _, _ => None
                end
            | _ => None
            end
          else if str_eqb op (k1 100) || str_eqb op (k1 108) then   (* d ; l = d whose LastIndex read fails *)
            match args with
            | [mn; mx] =>
                match hex_to_N mn, hex_to_N mx with
                | Some mn, Some mx =>
                    let lf := str_eqb op (k1 108) in
                    let ok := fst (node_delete (node_at (rs_sys st) n) mn mx lf) in
                    Some (settle 3 (do_ev st (HDelete n mn mx lf)) n, if ok then s_ok else s_er)
                | _, _ => None
                end
            | _ => None
            end
          else if str_eqb op (k1 120) then         (* x *)
            match args with
            | [] => if blocked_at st n then Some (st, s_no)
                    else Some (do_ev st (HRestart n), s_ok)
            | _ => None
            end
          else if str_eqb op (k1 116) then         (* t *)
            match args with
            | [ix; kd; a; b] =>
                match hex_to_N ix with
                | Some ix =>
                    match get (n_store (node_at (rs_sys st) n)) ix with
                    | None => Some (st, s_nf)
                    | Some e => match apply_mut e kd a b with
                                | Some e' => Some (do_ev st (HTamper n ix e'), s_ok)
                                | None => None
                                end
                    end
                | None => None
                end
            | _ => None
            end
          else if str_eqb op (k1 102) then         (* f *)
            match args with [] => Some (do_ev st (HFail n), s_ok) | _ => None end
          else if str_eqb op (k1 98) then          (* b *)
            match args with
            | [] => Some ({| rs_sys := rs_sys st; rs_blocked := set_nth_b (rs_blocked st) n true |}, s_ok)
            | _ => None
            end
          else if str_eqb op (k1 117) then         (* u *)
            match args with
            | [] => Some (settle 3 {| rs_sys := rs_sys st;
                                      rs_blocked := set_nth_b (rs_blocked st) n false |} n, s_ok)
            | _ => None
            end
          else if str_eqb op (k1 103) then         (* g *)
            match args with
            | [ix] => match hex_to_N ix with
                      | Some ix => Some (st, match get (n_store (node_at (rs_sys st) n)) ix with
                                             | Some e => show_entry e
                                             | None => s_nf
                                             end)
                      | None => None
                      end
            | _ => None
            end
          else if str_eqb op (k1 105) then         (* i *)
            match args with
            | [] => let s := n_store (node_at (rs_sys st) n) in
                    Some (st, join [N_to_hex (first_index s); N_to_hex (last_index s)])
            | _ => None
            end
          else None
      end
  | _ => None
  end.

Fixpoint run_ops (st : rstate) (gs : list (list str)) (acc : list str) : option (rstate * list str) :=
  match gs with
  | [] => Some (st, rev_append acc [])
  | g :: r => match run_op st g with
              | Some (st', o) => run_ops st' r (o :: acc)
              | None => None
              end
  end.

(* ---- final dump ------------------------------------------------------------ *)
Definition show_err (k : errkind) : str :=
  match k with
  | ENone => s_none
  | ECkInflight => [99; 107; 105]     (* cki *)
  | ECkStorage => [99; 107; 115]      (* cks *)
  | ERange => [114; 110; 103]         (* rng *)
  | EOther => [111; 116; 104]         (* oth *)
  end.

Definition show_report (r : report) : str :=
  join ([[82]; N_to_hex (r_start r); N_to_hex (r_end r); N_to_hex (r_expected r);
         N_to_hex (r_written r); N_to_hex (r_read r); show_err (r_err r)]
        ++ match r_skipped r with
           | None => [[45]; [45]]
           | Some (a, b) => [N_to_hex a; N_to_hex b]
           end).

Definition show_node (nd : node) : str :=
  let s := n_store nd in
  let c := n_c nd in
  join ([join [[78]; N_to_hex (first_index s); N_to_hex (last_index s);
               N_to_hex (c_written c); N_to_hex (c_dropped c);
               N_to_hex (N.of_nat (length (c_delivered c)))]]
        ++ map (fun x => show_report (fst x)) (c_delivered c)
        ++ map (fun e => join [[69]; show_entry e]) (s_logs s)).

(* release every ReportFn and let the verifiers finish *)
Fixpoint release_all (st : rstate) (k : nat) (n : nat) : rstate :=
  match k with
  | O => st
  | S k' => release_all (settle 3 {| rs_sys := rs_sys st;
                                     rs_blocked := set_nth_b (rs_blocked st) n false |} n) k' (S n)
  end.

Definition run_vfy (ts : list str) : str :=
  match groups ts with
  | (nn :: _) :: ops =>       (* second header token = store kind, implementation only *)
      match parse_nat nn with
      | Some k =>
          if (8 <? k)%nat then s_bad else
          let st0 := {| rs_sys := sys_init k; rs_blocked := repeat false k |} in
          match run_ops st0 ops [] with
          | Some (st, obs) =>
              let st' := release_all st k 0 in
              join_with 32 (obs ++ map show_node (rs_sys st'))
          | None => s_bad
          end
      | None => s_bad
      end
  | _ => s_bad
  end.
