(* RunCodec.v -- line runners for the `codec` correspondence stream *)
From RW Require Import Base.Bytes Fmt.Codec Run.Wire.
Open Scope N_scope.

Definition parse_zone (s : str) : option (option Z) :=
  if str_eqb s s_utc then Some None
  else match hex_to_Z s with Some z => Some (Some z) | None => None end.

Definition show_zone (z : option Z) : str :=
  match z with None => s_utc | Some o => Z_to_hex o end.

Definition parse_log (ts : list str) : option log :=
  match ts with
  | [i; t; ty; d; e; sec; ns; zn] =>
      match hex_to_N i, hex_to_N t, hex_to_N ty, hex_to_bytes d, hex_to_bytes e,
            hex_to_Z sec, hex_to_Z ns, parse_zone zn with
      | Some i, Some t, Some ty, Some d, Some e, Some sec, Some ns, Some zn =>
          Some {| l_index := i; l_term := t; l_type := ty; l_data := d; l_ext := e;
                  l_time := {| t_sec := sec; t_nsec := ns; t_zone := zn |} |}
      | _, _, _, _, _, _, _, _ => None
      end
  | _ => None
  end.

Definition show_log (with_time : bool) (l : log) : str :=
  join ([N_to_hex (l_index l); N_to_hex (l_term l); N_to_hex (l_type l);
         bytes_to_hex (l_data l); bytes_to_hex (l_ext l)]
        ++ if with_time then [Z_to_hex (t_sec (l_time l)); Z_to_hex (t_nsec (l_time l));
                              show_zone (t_zone (l_time l))] else []).

Definition run_enc (ts : list str) : str :=
  match parse_log ts with
  | None => s_bad
  | Some l => match encode_log l with
              | None => s_err
              | Some bs => bytes_to_hex bs
              end
  end.

(* dec <hex> <v|m> : v = valid stream (time compared), m = malformed stream *)
Definition run_dec (ts : list str) : str :=
  match ts with
  | [h; flag] =>
      match hex_to_bytes h with
      | None => s_bad
      | Some bs => match decode_log bs with
                   | None => s_err
                   | Some l => join [s_ok; show_log (str_eqb flag [118]) l]
                   end
      end
  | _ => s_bad
  end.
