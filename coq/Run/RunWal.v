(* RunWal.v -- line runner of the WAL-level streams (`wal ...`): sequential API
   behaviour, I/O traces, crash images, fault plans.  One line = configuration
   and an operation sequence; the observation has one token group per op. *)
From RW Require Import Base.Bytes Fmt.Codec Fmt.Frame Wal.Model Run.Wire Run.RunCodec Gen.Constants.
Open Scope N_scope.

Record rst := { r_cfg : cfg; r_wal : option wal; r_env : env; r_mark : nat (* actions already printed *);
                r_base : disk; r_base_n : nat (* disk after the last crash, number of actions before it *) }.

Definition s_closed : str := [99;108;111;115;101;100].            (* closed *)
Definition s_nf : str := [110;102].                                (* nf *)
Definition s_nonmono : str := [110;111;110;109;111;110;111].      (* nonmono *)
Definition s_middle : str := [109;105;100;100;108;101].           (* middle *)
Definition s_sealed : str := [115;101;97;108;101;100].            (* sealed *)
Definition s_toobig : str := [116;111;111;98;105;103].            (* toobig *)
Definition s_failed : str := [102;97;105;108;101;100].            (* failed *)
Definition s_noop : str := [110;111;119;97;108].                  (* nowal *)
Definition colon : N := 58.
Definition dot : N := 46.
Definition bang : N := 33.
Definition comma : N := 44.

Definition show_result (r : result) : str :=
  match r with
  | ROk => s_ok | RErrClosed => s_closed | RErrNotFound => s_nf | RErrNonMono => s_nonmono
  | RErrMiddle => s_middle | RErrSealed => s_sealed | RErrTooBig => s_toobig
  | RErrCorrupt => s_err | RErrIO => s_err | RErrFailed => s_failed | RErrOther => s_err
  | RVal v => N_to_hex v
  | RLog l => s_ok ++ colon :: flat_map (fun c => if c =? sp then [comma] else [c]) (show_log true l)
  | RBytes b => bytes_to_hex b
  end.

Definition show_name (n : fname) : str := N_to_hex (fst n) ++ dot :: N_to_hex (snd n).

Fixpoint show_act (a : act) : str :=
  match a with
  | ACreate n size => 67 :: show_name n ++ dot :: N_to_hex size
  | AWrite n off l _ => 87 :: show_name n ++ dot :: N_to_hex off ++ dot :: N_to_hex l
  | ASync n => 83 :: show_name n
  | ADelete n => 68 :: show_name n
  | ACommit _ => [77]
  | ASetStable _ _ => [75]
  | AInitMeta => [73]
  | AList => [76]
  | AFail a' => bang :: show_act a'
  end.

(* canonical order for runs of consecutive deletes (Go map iteration order) *)
Fixpoint str_leb (a b : str) : bool :=
  match a, b with
  | [], _ => true
  | _ :: _, [] => false
  | x :: a', y :: b' => if x <? y then true else if y <? x then false else str_leb a' b'
  end.
Fixpoint insert_str (s : str) (l : list str) : list str :=
  match l with
  | [] => [s]
  | x :: r => if str_leb s x then s :: l else x :: insert_str s r
  end.
Definition sort_strs (l : list str) : list str := fold_right insert_str [] l.

(* failed deletions ("!D...") belong to the run as well *)
Definition is_delete (s : str) : bool := match s with 68 :: _ => true | 33 :: 68 :: _ => true | _ => false end.
Fixpoint canon_acts (l : list str) (run : list str) : list str :=
  match l with
  | [] => sort_strs run
  | x :: r => if is_delete x then canon_acts r (x :: run)
              else sort_strs run ++ x :: canon_acts r []
  end.

Definition show_trace (acts_oldest_first : list act) : str :=
  match acts_oldest_first with
  | [] => [45]
  | _ => fold_right (fun s acc => match acc with [] => s | _ => s ++ comma :: acc end) []
                    (canon_acts (map show_act acts_oldest_first) [])
  end.

Definition show_seg (s : seginfo) : str :=
  N_to_hex (si_id s) ++ dot :: N_to_hex (si_base s) ++ dot :: N_to_hex (si_min s) ++ dot ::
  N_to_hex (si_max s) ++ dot :: N_to_hex (si_index_start s) ++ dot :: (if si_sealed s then [49] else [48])
  ++ dot :: N_to_hex (si_codec s).

Definition show_pstate (p : option pstate) : str :=
  match p with
  | None => [45]
  | Some ps => N_to_hex (ps_next_id ps) ++
               flat_map (fun s => comma :: show_seg s) (ps_segs ps)
  end.

Definition show_metrics (m : metrics) : str :=
  fold_right (fun s acc => match acc with [] => s | _ => s ++ comma :: acc end) []
    (map N_to_hex [m_bytes_written m; m_entries_written m; m_appends m; m_bytes_read m;
                   m_entries_read m; m_rotations m; m_head_trunc m; m_tail_trunc m;
                   m_stable_gets m; m_stable_sets m]).

(* names sorted as the directory listing sorts them: by (base, id) *)
Definition name_leb (a b : fname) : bool :=
  if fst a <? fst b then true else if fst b <? fst a then false else snd a <=? snd b.
Fixpoint insert_name (n : fname) (l : list fname) : list fname :=
  match l with [] => [n] | x :: r => if name_leb n x then n :: l else x :: insert_name n r end.
Definition show_dir (d : disk) : str :=
  match dk_files d with
  | [] => [45]
  | fs => fold_right (fun s acc => match acc with [] => s | _ => s ++ comma :: acc end) []
            (map show_name (fold_right insert_name [] (map fst fs)))
  end.

Fixpoint parse_logs (k : nat) (ts : list str) : option (list log * list str) :=
  match k with
  | O => Some ([], ts)
  | S k' =>
      match ts with
      | a :: b :: c :: d :: e :: f :: g :: h :: r =>
          match parse_log [a; b; c; d; e; f; g; h], parse_logs k' r with
          | Some l, Some (ls, rest) => Some (l :: ls, rest)
          | _, _ => None
          end
      | _ => None
      end
  end.

Fixpoint parse_names (k : nat) (ts : list str) : option (list fname * list str) :=
  match k with
  | O => Some ([], ts)
  | S k' =>
      match ts with
      | a :: b :: r =>
          match hex_to_N a, hex_to_N b, parse_names k' r with
          | Some a, Some b, Some (ns, rest) => Some ((a, b) :: ns, rest)
          | _, _, _ => None
          end
      | _ => None
      end
  end.

Definition chr (c : N) (s : str) : bool := str_eqb s [c].

Definition parse_torn (ts : list str) : option (list str) :=
  match ts with
  | nt :: r => match hex_to_N nt with
               | Some nt => let k := (3 * N.to_nat nt)%nat in
                            if Nat.leb k (length r) then Some (skipn k r) else None
               | None => None
               end
  | [] => None
  end.

(* run the pending background rotation, if any (awaitRotationLocked) *)
Definition settle (st : rst) : rst :=
  match r_wal st with
  | Some w => match st_rotate w with
              | Some _ => let '(w', e') := rotate (r_cfg st) w (r_env st) in
                          {| r_cfg := r_cfg st; r_wal := Some w'; r_env := e'; r_mark := r_mark st; r_base := r_base st; r_base_n := r_base_n st |}
              | None => st
              end
  | None => st
  end.

Definition set_we (st : rst) (w : wal) (e : env) : rst :=
  {| r_cfg := r_cfg st; r_wal := Some w; r_env := e; r_mark := r_mark st; r_base := r_base st; r_base_n := r_base_n st |}.
Definition set_e (st : rst) (e : env) : rst :=
  {| r_cfg := r_cfg st; r_wal := r_wal st; r_env := e; r_mark := r_mark st; r_base := r_base st; r_base_n := r_base_n st |}.

(* all entries: idx range audit *)
Fixpoint audit (fuel : nat) (w : wal) (e : env) (i last : N) (acc : list str) : list str :=
  match fuel with
  | O => rev_append acc []
  | S f => if last <? i then rev_append acc []
           else let '(r, _) := get_log w i e in
                audit f w e (i + 1) last (show_result r :: acc)
  end.

Fixpoint run_ops (fuel : nat) (st : rst) (ts : list str) (acc : list str) : list str :=
  match fuel with
  | O => rev_append acc []
  | S fuel' =>
      match ts with
      | [] => rev_append acc []
      | op :: r =>
          let bad := rev_append (s_bad :: acc) [] in
          if chr 79 op then (* O : open *)
            (* every Open gets a fresh metrics collector *)
            let e0 := r_env st in
            let '(res, e') := open_wal (r_cfg st)
                                {| e_acts := e_acts e0; e_disk := adopt_disk (e_disk e0);
                                   e_fault := e_fault e0; e_fx := e_fx e0; e_m := zero_metrics |} in
            match res with
            | OOk w => run_ops fuel' (set_we st w e') r (s_ok :: acc)
            | OErr _ => run_ops fuel' {| r_cfg := r_cfg st; r_wal := None; r_env := e'; r_mark := r_mark st; r_base := r_base st; r_base_n := r_base_n st |}
                                r (s_err :: acc)
            end
          else if chr 83 op then (* S k logs *)
            match r with
            | k :: r1 =>
                match hex_to_N k with
                | Some k =>
                    match parse_logs (N.to_nat k) r1 with
                    | Some (ls, r2) =>
                        let st1 := settle st in
                        match r_wal st1 with
                        | Some w =>
                            let '(res, w', e') := store_logs (r_cfg st1) w ls (r_env st1) in
                            run_ops fuel' (set_we st1 w' e') r2 (show_result res :: acc)
                        | None => run_ops fuel' st1 r2 (s_noop :: acc)
                        end
                    | None => bad
                    end
                | None => bad
                end
            | [] => bad
            end
          else if chr 68 op then (* D min max *)
            match r with
            | a :: b :: r1 =>
                match hex_to_N a, hex_to_N b with
                | Some a, Some b =>
                    let st1 := settle st in
                    match r_wal st1 with
                    | Some w =>
                        let '(res, w', e') := delete_range (r_cfg st1) w a b (r_env st1) in
                        run_ops fuel' (set_we st1 w' e') r1 (show_result res :: acc)
                    | None => run_ops fuel' st1 r1 (s_noop :: acc)
                    end
                | _, _ => bad
                end
            | _ => bad
            end
          else if chr 71 op then (* G idx *)
            match r with
            | a :: r1 =>
                match hex_to_N a with
                | Some a =>
                    match r_wal st with
                    | Some w => let '(res, e') := get_log w a (r_env st) in
                                run_ops fuel' (set_e st e') r1 (show_result res :: acc)
                    | None => run_ops fuel' st r1 (s_noop :: acc)
                    end
                | None => bad
                end
            | _ => bad
            end
          else if chr 70 op then (* F *)
            match r_wal st with
            | Some w => run_ops fuel' st r (show_result (first_index_op w) :: acc)
            | None => run_ops fuel' st r (s_noop :: acc)
            end
          else if chr 76 op then (* L *)
            match r_wal st with
            | Some w => run_ops fuel' st r (show_result (last_index_op w) :: acc)
            | None => run_ops fuel' st r (s_noop :: acc)
            end
          else if chr 65 op then (* A : audit first last and every entry *)
            match r_wal st with
            | Some w =>
                if st_closed w then run_ops fuel' st r (s_closed :: acc)
                else
                  let f := first_index (st_segs w) (st_tail w) in
                  let l := last_index (st_segs w) (st_tail w) in
                  let es := if f =? 0 then [] else audit (S (N.to_nat (l - f))) w (r_env st) f l [] in
                  (* reads done by the audit are not counted in the metrics (the harness
                     reads through a second, uncounted handle?  no: it subtracts them) *)
                  run_ops fuel' st r ((N_to_hex f ++ dot :: N_to_hex l ++ flat_map (fun s => comma :: s) es) :: acc)
            | None => run_ops fuel' st r (s_noop :: acc)
            end
          else if chr 75 op then (* K key val : Set ; val "nil" = nil *)
            match r with
            | k :: v :: r1 =>
                let is_nil := str_eqb v [110;105;108] in
                match hex_to_bytes k, (if is_nil then Some [] else hex_to_bytes v) with
                | Some k, Some v =>
                    match r_wal st with
                    | Some w => let '(res, e') := set_stable w k v is_nil (r_env st) in
                                run_ops fuel' (set_e st e') r1 (show_result res :: acc)
                    | None => run_ops fuel' st r1 (s_noop :: acc)
                    end
                | _, _ => bad
                end
            | _ => bad
            end
          else if chr 107 op then (* k key : Get *)
            match r with
            | k :: r1 =>
                match hex_to_bytes k with
                | Some k =>
                    match r_wal st with
                    | Some w => let '(res, e') := get_stable w k (r_env st) in
                                run_ops fuel' (set_e st e') r1 (show_result res :: acc)
                    | None => run_ops fuel' st r1 (s_noop :: acc)
                    end
                | None => bad
                end
            | _ => bad
            end
          else if chr 85 op then (* U key n : SetUint64 *)
            match r with
            | k :: v :: r1 =>
                match hex_to_bytes k, hex_to_N v with
                | Some k, Some v =>
                    match r_wal st with
                    | Some w => let '(res, e') := set_uint64 w k v (r_env st) in
                                run_ops fuel' (set_e st e') r1 (show_result res :: acc)
                    | None => run_ops fuel' st r1 (s_noop :: acc)
                    end
                | _, _ => bad
                end
            | _ => bad
            end
          else if chr 117 op then (* u key : GetUint64 *)
            match r with
            | k :: r1 =>
                match hex_to_bytes k with
                | Some k =>
                    match r_wal st with
                    | Some w => let '(res, e') := get_uint64 w k (r_env st) in
                                run_ops fuel' (set_e st e') r1 (show_result res :: acc)
                    | None => run_ops fuel' st r1 (s_noop :: acc)
                    end
                | None => bad
                end
            | _ => bad
            end
          else if chr 88 op then (* X : close (a pending rotation is not run any more) *)
            match r_wal st with
            | Some w => run_ops fuel' (set_we st (close w) (r_env st)) r (s_ok :: acc)
            | None => run_ops fuel' st r (s_noop :: acc)
            end
          else if chr 87 op then (* W : wait for the background rotation *)
            run_ops fuel' (settle st) r acc
          else if chr 77 op then (* M : metrics *)
            run_ops fuel' st r (show_metrics (e_m (r_env st)) :: acc)
          else if chr 80 op then (* P : persisted metadata *)
            run_ops fuel' st r (show_pstate (dk_meta (e_disk (r_env st))) :: acc)
          else if chr 89 op then (* Y : directory listing *)
            run_ops fuel' st r (show_dir (e_disk (r_env st)) :: acc)
          else if chr 84 op then (* T : I/O actions since the previous T *)
            let all := rev_append (e_acts (r_env st)) [] in
            run_ops fuel' {| r_cfg := r_cfg st; r_wal := r_wal st; r_env := r_env st; r_mark := length all; r_base := r_base st; r_base_n := r_base_n st |}
                    r (show_trace (skipn (r_mark st) all) :: acc)
          else if chr 33 op then (* ! k : the k-th I/O action from now fails *)
            match r with
            | k :: r1 =>
                match hex_to_N k with
                | Some k =>
                    let e := r_env st in
                    run_ops fuel' (set_e st {| e_acts := e_acts e; e_disk := e_disk e;
                                               e_fault := Some (N.to_nat k); e_fx := e_fx e; e_m := e_m e |}) r1 acc
                | None => bad
                end
            | _ => bad
            end
          else if chr 63 op then (* ? flags : fault modes, in force while a counted fault is armed:
                                     1 every deletion fails, 2 the next directory listing fails,
                                     4 a creation hit by the counted fault leaves the empty file,
                                     8 a metadata commit / stable write hit by it fails and lands *)
            match r with
            | k :: r1 =>
                match hex_to_N k with
                | Some k =>
                    let e := r_env st in
                    run_ops fuel' (set_e st {| e_acts := e_acts e; e_disk := e_disk e; e_fault := e_fault e;
                                               e_fx := {| fx_del := N.testbit k 0; fx_list := N.testbit k 1; fx_leave := N.testbit k 2; fx_land := N.testbit k 3 |};
                                               e_m := e_m e |}) r1 acc
                | None => bad
                end
            | _ => bad
            end
          else if chr 126 op then (* ~ : disarm the fault and the modes *)
            let e := r_env st in
            run_ops fuel' (set_e st {| e_acts := e_acts e; e_disk := e_disk e; e_fault := None; e_fx := fx_none; e_m := e_m e |}) r acc
          else if chr 67 op then (* C k nkf names nkb names : power loss after k actions *)
            match r with
            | k :: nf :: r1 =>
                match hex_to_N k, hex_to_N nf with
                | Some k, Some nf =>
                    match parse_names (N.to_nat nf) r1 with
                    | Some (kf, nb :: r2) =>
                        match hex_to_N nb with
                        | Some nb =>
                            match parse_names (N.to_nat nb) r2 with
                            | Some (kb, r3a) =>
                              (* torn batches: <nt> (<base> <id> <chunk mask>)*; a torn batch is
                                 recovered as absent (segment-level law), so the model only skips them *)
                              match parse_torn r3a with
                              | None => bad
                              | Some r3 =>
                                let all := rev_append (e_acts (r_env st)) [] in
                                let pre := firstn (N.to_nat k) all in
                                let since := skipn (r_base_n st) pre in
                                let d := crash_disk {| cc_keep_file := kf; cc_keep_batch := kb |}
                                                    (fold_left apply_act since (r_base st)) in
                                run_ops fuel' {| r_cfg := r_cfg st; r_wal := None;
                                                 r_env := {| e_acts := rev_append pre []; e_disk := d;
                                                             e_fault := None; e_fx := fx_none; e_m := zero_metrics |};
                                                 r_mark := length pre; r_base := d; r_base_n := length pre |} r3 acc
                              end
                            | None => bad
                            end
                        | None => bad
                        end
                    | _ => bad
                    end
                | _, _ => bad
                end
            | _ => bad
            end
          else if chr 90 op then (* Z : process restart without power loss *)
            run_ops fuel' {| r_cfg := r_cfg st; r_wal := None;
                             r_env := {| e_acts := e_acts (r_env st); e_disk := adopt_disk (e_disk (r_env st));
                                         e_fault := e_fault (r_env st); e_fx := e_fx (r_env st); e_m := zero_metrics |};
                             (* the trace restarts here *)
                             r_mark := length (e_acts (r_env st)); r_base := r_base st; r_base_n := r_base_n st |} r acc
          else if chr 78 op then (* N : number of I/O actions so far *)
            run_ops fuel' st r (N_to_hex (N.of_nat (length (e_acts (r_env st)))) :: acc)
          else if chr 81 op then (* Q codec : change the configured codec id for the next open *)
            match r with
            | c :: r1 =>
                match hex_to_N c with
                | Some c => run_ops fuel' {| r_cfg := {| c_seg_size := c_seg_size (r_cfg st); c_codec := c |};
                                             r_wal := r_wal st; r_env := r_env st; r_mark := r_mark st; r_base := r_base st; r_base_n := r_base_n st |} r1 acc
                | None => bad
                end
            | _ => bad
            end
          else bad
      end
  end.

(* wal <segsize> <codec> <mode> ops...   (mode: m = in-memory crashfs, r = real fs + BoltDB;
   it only selects the implementation-side backend) *)
Definition run_wal (ts : list str) : str :=
  match ts with
  | sz :: cd :: _ :: ops =>
      match hex_to_N sz, hex_to_N cd with
      | Some sz, Some cd =>
          join (run_ops (S (length ops))
                        {| r_cfg := {| c_seg_size := sz; c_codec := cd |}; r_wal := None;
                           r_env := {| e_acts := []; e_disk := empty_disk; e_fault := None; e_fx := fx_none; e_m := zero_metrics |};
                           r_mark := 0; r_base := empty_disk; r_base_n := 0 |} ops [])
      | _, _ => s_bad
      end
  | _ => s_bad
  end.
