(* RunConc.v -- line runner of the `sched` stream: executes Conc.Close (C14) and
   Conc.Readers (C06) on the macro schedule the harness forces on the
   implementation.  The macro schedule is expanded to a micro schedule (a
   `list tid`) and the observation is read off `run init micro`, i.e. off the
   very function the theorems of Props/C14.v, Props/C06.v quantify over. *)
From Coq Require Import List Arith Bool NArith Lia.
From RW Require Import Base.Bytes Run.Wire Conc.Sys Conc.Close.
Import ListNotations.
Open Scope N_scope.

Fixpoint split_on_aux (c : N) (s : str) (cur : str) : list str :=
  match s with
  | [] => [rev_append cur []]
  | x :: r => if x =? c then rev_append cur [] :: split_on_aux c r [] else split_on_aux c r (x :: cur)
  end.
Definition split_on (c : N) (s : str) : list str := split_on_aux c s [].

Definition hexnat (s : str) : option nat :=
  match hex_to_N s with Some n => Some (N.to_nat n) | None => None end.
Definition nat_hex (n : nat) : str := N_to_hex (N.of_nat n).

Fixpoint all_some {A} (l : list (option A)) : option (list A) :=
  match l with
  | [] => Some []
  | Some a :: r => match all_some r with Some t => Some (a :: t) | None => None end
  | None :: _ => None
  end.

(* ---- C14 ------------------------------------------------------------------------ *)
Definition parse_op14 (s : str) : option op :=
  match s with
  | [70] => Some OFirst                          (* F *)
  | [76] => Some OLast                           (* L *)
  | 71 :: r => option_map OGet (hexnat r)        (* G<idx> *)
  | [83; 48] => Some (OStore false 0 1)          (* S0 *)
  | [83; 49] => Some (OStore true 0 1)           (* S1 *)
  | [83; 50] => Some (OStore true 0 1)           (* S2: one 100 KiB entry, fills the segment *)
  | [83; 51] => Some (OStore true 0 1)           (* S3: one 32 KiB entry, fills the segment *)
  | 83 :: sl :: 95 :: r =>                       (* S<seal>_<tag>_<n> *)
      match split_on 95 r with
      | [tg; n] => match hexnat tg, hexnat n with
                   | Some tg, Some (S n) => if sl =? 48 then Some (OStore false tg (S n))
                                            else if (49 <=? sl) && (sl <=? 51) then Some (OStore true tg (S n))
                                            else None
                   | _, _ => None
                   end
      | _ => None
      end
  | 68 :: r => option_map ODelete (hexnat r)     (* D<n> *)
  | 84 :: r => option_map OTrunc (hexnat r)      (* T<n> *)
  | [75] => Some OSet                            (* K *)
  | [107] => Some OGetS                          (* k *)
  | [88] => Some OClose                          (* X *)
  | _ => None
  end.

Definition parse_prog14 (s : str) : option (list op) :=
  match s with
  | [45] => Some []
  | _ => all_some (map parse_op14 (split_on 46 s))
  end.

Definition show_outcome (o : op) (r : outcome) : str :=
  match r with
  | Ok v => match o with
            | OFirst | OLast | OGet _ => s_ok ++ [58] ++ nat_hex v
            | OGetS => s_ok ++ [58] ++ nat_hex (if (0 <? v)%nat then 1 else 0)%nat
            | _ => s_ok
            end
  | NotFound => [110; 102]                                   (* nf *)
  | ErrClosed => [99; 108; 111; 115; 101; 100]               (* closed *)
  | ErrSealed => [115; 101; 97; 108; 101; 100]               (* sealed *)
  | IOErr => [105; 111; 101; 114; 114]                       (* ioerr *)
  | MetaErr => [109; 101; 116; 97; 101; 114; 114]            (* metaerr *)
  | Panic => [112; 97; 110; 105; 99]                         (* panic *)
  end.

Fixpoint join_with (c : N) (l : list str) : str :=
  match l with
  | [] => []
  | [x] => x
  | x :: r => x ++ c :: join_with c r
  end.

Fixpoint zip_show (p : list op) (o : list outcome) : list str :=
  match p, o with
  | a :: p', b :: o' => show_outcome a b :: zip_show p' o'
  | _, _ => []
  end.

Definition fuel14 : nat := 400.
Definition macro14 := macro1 step parked skip nthreads fuel14.

(* run thread t until it has completed one more call (setup phase, no parking) *)
Fixpoint run_call (fuel : nat) (s : sys) (t : tid) (nouts : nat) (tr : list tid) : sys * list tid :=
  match fuel with
  | O => (s, tr)
  | S f => match step s t with
           | None => (s, tr)
           | Some s' => let tr' := t :: tr in
                        match nth_error (ths s') t with
                        | Some th => if (nouts <? length (t_outs th))%nat then (s', tr')
                                     else run_call f s' t nouts tr'
                        | None => (s', tr')
                        end
           end
  end.
Fixpoint run_free (fuel : nat) (s : sys) (t : tid) (tr : list tid) : sys * list tid :=
  match fuel with
  | O => (s, tr)
  | S f => match step s t with
           | None => (s, tr)
           | Some s' => run_free f s' t (t :: tr)
           end
  end.

(* setup: the setup thread performs its calls one by one; after each call the
   rotation goroutine runs until it waits for the next trigger *)
Fixpoint run_setup (n : nat) (s : sys) (ts tr_ : tid) (tr : list tid) : sys * list tid :=
  match n with
  | O => (s, tr)
  | S m =>
      let nouts := match nth_error (ths s) ts with Some th => length (t_outs th) | None => O end in
      let '(s1, tr1) := run_call fuel14 s ts nouts tr in
      let '(s2, tr2) := run_free fuel14 s1 tr_ tr1 in
      run_setup m s2 ts tr_ tr2
  end.

Definition callers_done (s : sys) (n : nat) : bool :=
  forallb (fun t => match nth_error (ths s) t with Some th => th_done th | None => true end) (seq 0 n).

(* drain: round-robin over callers and rotator until every caller returned or
   a whole round makes no progress *)
Fixpoint round (s : sys) (ids : list tid) (tr : list tid) : sys * list tid :=
  match ids with
  | [] => (s, tr)
  | t :: r => let '(s', tr') := macro14 s t tr in round s' r tr'
  end.
Fixpoint drain (rounds : nat) (n : nat) (s : sys) (tr : list tid) : sys * list tid :=
  match rounds with
  | O => (s, tr)
  | S k => if callers_done s n then (s, tr)
           else let '(s', tr') := round s (seq 0 (S n)) tr in
                if (length tr' =? length tr)%nat then (s', tr') else drain k n s' tr'
  end.
Fixpoint finish_rot (k : nat) (s : sys) (r : tid) (tr : list tid) : sys * list tid :=
  match k with
  | O => (s, tr)
  | S j => match nth_error (ths s) r with
           | Some th => if pc_point (t_pc th) then
                          let '(s', tr') := macro14 s r tr in finish_rot j s' r tr'
                        else (s, tr)
           | None => (s, tr)
           end
  end.

Definition micro14 (setup : list op) (progs : list (list op)) (sch : list tid) : list tid :=
  let n := length progs in
  let s0 := init progs [setup] in
  let '(s1, tr1) := run_setup (length setup) s0 (S n) n [] in
  let '(s2, tr2) := macro step parked skip nthreads fuel14 s1 sch tr1 in
  let '(s3, tr3) := drain 400 n s2 tr2 in
  let '(s4, tr4) := finish_rot 40 s3 n tr3 in
  rev_append tr4 [].

Definition s_dl : str := [59; 100; 108; 61].             (* ;dl= *)
Definition s_rot : str := [32; 114; 111; 116; 61].       (* " rot=" *)
Definition s_mc : str := [32; 109; 99; 61].              (* " mc=" *)
Definition s_open : str := [32; 111; 112; 101; 110; 61]. (* " open=" *)
Definition s_multi : str := [32; 109; 117; 108; 116; 105; 61]. (* " multi=" *)

Definition has_closed (th : thread) (p : list op) : bool :=
  existsb (fun o => match o with OClose => true | _ => false end) (firstn (length (t_outs th)) p).

Definition observe14 (progs : list (list op)) (s : sys) : str :=
  let n := length progs in
  let per := map (fun '(t, p) =>
                    match nth_error (ths s) t with
                    | Some th => join_with 46 (zip_show p (t_outs th)) ++
                                 (if (length (t_outs th) <? length p)%nat then [42] else [])
                    | None => []
                    end) (combine (seq 0 n) progs) in
  let dl := negb (callers_done s n) in
  let closed := existsb (fun '(t, p) => match nth_error (ths s) t with
                                        | Some th => has_closed th p | None => false end)
                        (combine (seq 0 n) progs) in
  let rot := match nth_error (ths s) n with Some th => th_done th | None => false end in
  let nopen := length (filter (fun h => (h_closes h =? 0)%nat) (g_hnds (sh s))) in
  let nmulti := length (filter (fun h => (1 <? h_closes h)%nat) (g_hnds (sh s))) in
  join_with 124 per ++ s_dl ++ (if dl then [49] else [48]) ++
  s_rot ++ (if closed && negb dl then (if rot then [49] else [48]) else [120]) ++
  s_mc ++ nat_hex (g_meta_closes (sh s)) ++ s_open ++ nat_hex nopen ++ s_multi ++ nat_hex nmulti.

Fixpoint parse_sched (s : str) : option (list tid) :=
  match s with
  | [] => Some []
  | c :: r => match hexval c, parse_sched r with
              | Some v, Some t => Some (N.to_nat v :: t)
              | _, _ => None
              end
  end.

Definition run_c14 (ts : list str) : str :=
  match ts with
  | [setup; threads; sch] =>
      match parse_prog14 setup, all_some (map parse_prog14 (split_on 44 threads)), parse_sched sch with
      | Some su, Some progs, Some sc =>
          observe14 progs (run step (init progs [su]) (micro14 su progs sc))
      | _, _, _ => s_bad
      end
  | _ => s_bad
  end.

Definition k_c14 : str := [99; 49; 52].   (* c14 *)
Definition k_c06 : str := [99; 48; 54].   (* c06 *)

(* both scenarios run the same model; the tag only selects the harness oracles *)
Definition run_sched (ts : list str) : str :=
  match ts with
  | sc :: rest => if str_eqb sc k_c14 || str_eqb sc k_c06 then run_c14 rest else s_bad
  | [] => s_bad
  end.
