(* Main.v -- dispatch of one protocol line to the stream runners *)
From RW Require Import Base.Bytes Run.Wire Run.RunCodec Run.RunMig Run.RunFs.
Open Scope N_scope.

Definition k_enc : str := [101; 110; 99].   (* "enc" *)
Definition k_dec : str := [100; 101; 99].   (* "dec" *)
Definition k_mig : str := [109; 105; 103].  (* "mig" *)
Definition k_stb : str := [115; 116; 98].   (* "stb" *)
Definition k_fst : str := [102; 115; 116].  (* "fst" *)
Definition k_fso : str := [102; 115; 111].  (* "fso" *)

Definition run_line (line : str) : str :=
  match tokens line with
  | cmd :: args =>
      if str_eqb cmd k_enc then run_enc args
      else if str_eqb cmd k_dec then run_dec args
      else if str_eqb cmd k_mig then run_mig args
      else if str_eqb cmd k_stb then run_stb args
      else if str_eqb cmd k_fst then run_fst args
      else if str_eqb cmd k_fso then run_fso args
      else s_bad
  | [] => s_bad
  end.
