(* Main.v -- dispatch of one protocol line to the stream runners *)
From RW Require Import Base.Bytes Run.Wire Run.RunCodec Run.RunConc.
Open Scope N_scope.

Definition k_enc : str := [101; 110; 99].   (* "enc" *)
Definition k_dec : str := [100; 101; 99].   (* "dec" *)
Definition k_sched : str := [115; 99; 104; 101; 100].   (* "sched" *)

Definition run_line (line : str) : str :=
  match tokens line with
  | cmd :: args =>
      if str_eqb cmd k_enc then run_enc args
      else if str_eqb cmd k_dec then run_dec args
      else if str_eqb cmd k_sched then run_sched args
      else s_bad
  | [] => s_bad
  end.
