(* Main.v -- dispatch of one protocol line to the stream runners *)
From RW Require Import Base.Bytes Run.Wire Run.RunCodec Run.RunSeg Run.RunRdm.
Open Scope N_scope.

Definition k_enc : str := [101; 110; 99].   (* "enc" *)
Definition k_dec : str := [100; 101; 99].   (* "dec" *)
Definition k_seg : str := [115; 101; 103].   (* "seg" *)
Definition k_rdm : str := [114; 100; 109].   (* "rdm" *)

Definition run_line (line : str) : str :=
  match tokens line with
  | cmd :: args =>
      if str_eqb cmd k_enc then run_enc args
      else if str_eqb cmd k_dec then run_dec args
      else if str_eqb cmd k_seg then run_seg args
      else if str_eqb cmd k_rdm then run_rdm args
      else s_bad
  | [] => s_bad
  end.
