(* Main.v -- dispatch of one protocol line to the stream runners *)
From RW Require Import Base.Bytes Run.Wire Run.RunCodec Run.RunSeg Run.RunWal.
Open Scope N_scope.

Definition k_enc : str := [101; 110; 99].   (* "enc" *)
Definition k_dec : str := [100; 101; 99].   (* "dec" *)
Definition k_seg : str := [115; 101; 103].   (* "seg" *)
Definition k_wal : str := [119; 97; 108].    (* "wal" *)

Definition run_line (line : str) : str :=
  match tokens line with
  | cmd :: args =>
      if str_eqb cmd k_enc then run_enc args
      else if str_eqb cmd k_dec then run_dec args
      else if str_eqb cmd k_seg then run_seg args
      else if str_eqb cmd k_wal then run_wal args
      else s_bad
  | [] => s_bad
  end.
