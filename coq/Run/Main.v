(* Main.v -- dispatch of one protocol line to the stream runners.
   To add a stream: import its Run file and add its (keyword, runner) pairs. *)
From RW Require Import Base.Bytes Run.Wire Run.RunCodec Run.RunSeg Run.RunWal Run.RunMig Run.RunFs Run.RunHist Run.RunRdm Run.RunVfy Run.RunConc Run.RunDump.
Open Scope N_scope.

Definition handlers : list (str * (list str -> str)) :=
  [ ([101; 110; 99], run_enc);     (* "enc" *)
    ([100; 101; 99], run_dec);     (* "dec" *)
    ([115; 101; 103], run_seg);    (* "seg" *)
    ([119; 97; 108], run_wal);     (* "wal" *)
    ([109; 105; 103], run_mig);    (* "mig" *)
    ([115; 116; 98], run_stb);     (* "stb" *)
    ([102; 115; 116], run_fst);    (* "fst" *)
    ([102; 115; 111], run_fso);    (* "fso" *)
    ([102; 115; 102], run_fsf);    (* "fsf" *)
    ([104; 105; 115; 116], run_hist); (* "hist" *)
    ([102; 104; 105; 115; 116], run_fhist); (* "fhist" *)
    ([104; 100; 105; 114], run_hdir); (* "hdir" *)
    ([114; 100; 109], run_rdm);     (* "rdm" *)
    ([118; 102; 121], run_vfy);     (* "vfy" *)
    ([115; 99; 104; 101; 100], run_sched); (* "sched" *)
    ([100; 108], run_dl)           (* "dl" *)
  ].

Fixpoint dispatch (hs : list (str * (list str -> str))) (cmd : str) (args : list str) : str :=
  match hs with
  | [] => s_bad
  | (k, f) :: r => if str_eqb cmd k then f args else dispatch r cmd args
  end.

Definition run_line (line : str) : str :=
  match tokens line with
  | cmd :: args => dispatch handlers cmd args
  | [] => s_bad
  end.
