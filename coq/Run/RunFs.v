(* RunFs.v -- line runners of the `fstrace` correspondence stream (C07).

   fst <segsize> <event>*    the proved checker [discipline_res] on an observed
                             (strace) trace; observation: ok | viol <index> <kind>
   fso <segsize> <fsop>*     the fs-layer model: observation = the event trace
                             [fs_trace] predicts for these fs-layer calls
   event tokens (fields separated by ':', numbers hex):
     x:<f> OpenExcl   c:<f> OpenCreat   o:<f> OpenW   fa:<f>:<mode>:<off>:<len> Fallocate
     w:<f>:<off>:<len> Pwrite   tr:<f>:<len> Truncate   fs:<f> Fsync   fd:<f> Fdatasync
     fD FsyncDir   u:<f> Unlink   r:<f>:<f> Rename   cl:<f> Close
     mc:<op>:<n> call marker   ma:<op>:<n> ACK marker
   file tokens: s<id> segment, m wal-meta.db, t wal-meta.db.tmp, o<id> other
   fsop tokens: cr:<s> ow:<s> wr:<s>:<off>:<len> sy:<s> cl:<s> de:<s> mi mc *)
From RW Require Import Base.Bytes Fs.Discipline Run.Wire.
Open Scope N_scope.

Definition colon : N := 58.

Fixpoint split_colon_aux (s : str) (cur : str) : list str :=
  match s with
  | [] => [rev_append cur []]
  | c :: r => if c =? colon then rev_append cur [] :: split_colon_aux r [] else split_colon_aux r (c :: cur)
  end.
Definition fields (s : str) : list str := split_colon_aux s [].

Definition parse_fname (s : str) : option fname :=
  match s with
  | [109] => Some Meta                                   (* m *)
  | [116] => Some MetaTmp                                (* t *)
  | 115 :: r => match hex_to_N r with Some n => Some (Seg n) | None => None end     (* s<id> *)
  | 111 :: r => match hex_to_N r with Some n => Some (Other n) | None => None end   (* o<id> *)
  | _ => None
  end.

Definition show_fname (f : fname) : str :=
  match f with
  | Meta => [109] | MetaTmp => [116]
  | Seg n => 115 :: N_to_hex n | Other n => 111 :: N_to_hex n
  end.

Definition t_x : str := [120].        Definition t_c : str := [99].
Definition t_o : str := [111].        Definition t_fa : str := [102; 97].
Definition t_w : str := [119].        Definition t_tr : str := [116; 114].
Definition t_fs : str := [102; 115].  Definition t_fd : str := [102; 100].
Definition t_fD : str := [102; 68].   Definition t_u : str := [117].
Definition t_r : str := [114].        Definition t_cl : str := [99; 108].
Definition t_mc : str := [109; 99].   Definition t_ma : str := [109; 97].

Definition parse_event (tok : str) : option event :=
  match fields tok with
  | [k] => if str_eqb k t_fD then Some FsyncDir else None
  | [k; a] =>
      match parse_fname a with
      | None => None
      | Some f =>
          if str_eqb k t_x then Some (OpenExcl f)
          else if str_eqb k t_c then Some (OpenCreat f)
          else if str_eqb k t_o then Some (OpenW f)
          else if str_eqb k t_fs then Some (Fsync f)
          else if str_eqb k t_fd then Some (Fdatasync f)
          else if str_eqb k t_u then Some (Unlink f)
          else if str_eqb k t_cl then Some (Close f)
          else None
      end
  | [k; a; b] =>
      if str_eqb k t_r then
        match parse_fname a, parse_fname b with
        | Some f, Some g => Some (Rename f g)
        | _, _ => None
        end
      else if str_eqb k t_tr then
        match parse_fname a, hex_to_N b with
        | Some f, Some n => Some (Truncate f n)
        | _, _ => None
        end
      else if str_eqb k t_mc then
        match hex_to_N a, hex_to_N b with
        | Some op, Some n => Some (Mark MCall op n)
        | _, _ => None
        end
      else if str_eqb k t_ma then
        match hex_to_N a, hex_to_N b with
        | Some op, Some n => Some (Mark MAck op n)
        | _, _ => None
        end
      else None
  | [k; a; b; c] =>
      if str_eqb k t_w then
        match parse_fname a, hex_to_N b, hex_to_N c with
        | Some f, Some off, Some len => Some (Pwrite f off len)
        | _, _, _ => None
        end
      else None
  | [k; a; b; c; d] =>
      if str_eqb k t_fa then
        match parse_fname a, hex_to_N b, hex_to_N c, hex_to_N d with
        | Some f, Some m, Some off, Some len => Some (Fallocate f m off len)
        | _, _, _, _ => None
        end
      else None
  | _ => None
  end.

Fixpoint parse_all {A : Type} (p : str -> option A) (ts : list str) (acc : list A) : option (list A) :=
  match ts with
  | [] => Some (rev_append acc [])
  | t :: r => match p t with Some a => parse_all p r (a :: acc) | None => None end
  end.

Definition jc (l : list str) : str :=           (* join with ':' *)
  (fix go (l : list str) : str :=
     match l with [] => [] | [x] => x | x :: r => x ++ colon :: go r end) l.

Definition show_event (e : event) : str :=
  match e with
  | OpenExcl f => jc [t_x; show_fname f]
  | OpenCreat f => jc [t_c; show_fname f]
  | OpenW f => jc [t_o; show_fname f]
  | Fallocate f m o l => jc [t_fa; show_fname f; N_to_hex m; N_to_hex o; N_to_hex l]
  | Pwrite f o l => jc [t_w; show_fname f; N_to_hex o; N_to_hex l]
  | Truncate f l => jc [t_tr; show_fname f; N_to_hex l]
  | Fsync f => jc [t_fs; show_fname f]
  | Fdatasync f => jc [t_fd; show_fname f]
  | FsyncDir => t_fD
  | Unlink f => jc [t_u; show_fname f]
  | Rename a b => jc [t_r; show_fname a; show_fname b]
  | Close f => jc [t_cl; show_fname f]
  | Mark MCall op n => jc [t_mc; N_to_hex op; N_to_hex n]
  | Mark MAck op n => jc [t_ma; N_to_hex op; N_to_hex n]
  end.

Definition of_ascii (l : list N) : str := l.
Definition show_viol (v : viol) : str :=
  match v with
  | VMissingFileFsync => [109;105;115;115;105;110;103;45;102;105;108;101;45;102;115;121;110;99]
  | VMissingDirFsync => [109;105;115;115;105;110;103;45;100;105;114;45;102;115;121;110;99]
  | VDeleteNoDirFsync => [100;101;108;101;116;101;45;119;105;116;104;111;117;116;45;100;105;114;45;102;115;121;110;99]
  | VNonExclCreate => [110;111;110;45;101;120;99;108;117;115;105;118;101;45;99;114;101;97;116;101]
  | VBadFallocate => [98;97;100;45;102;97;108;108;111;99;97;116;101]
  | VNotPreallocated => [110;111;116;45;112;114;101;97;108;108;111;99;97;116;101;100]
  | VSegTruncated => [115;101;103;109;101;110;116;45;116;114;117;110;99;97;116;101;100]
  | VSegRenamed => [115;101;103;109;101;110;116;45;114;101;110;97;109;101;100]
  | VUnknownFile => [117;110;107;110;111;119;110;45;102;105;108;101]
  | VMetaNotRenamed => [109;101;116;97;45;110;111;116;45;114;101;110;97;109;101;100]
  | VMetaTmpNotSynced => [109;101;116;97;45;116;109;112;45;110;111;116;45;115;121;110;99;101;100]
  | VMetaDirNotSynced => [109;101;116;97;45;100;105;114;45;110;111;116;45;115;121;110;99;101;100]
  | VMetaNotSynced => [109;101;116;97;45;110;111;116;45;115;121;110;99;101;100]
  | VMetaUnlinked => [109;101;116;97;45;117;110;108;105;110;107;101;100]
  end.

Definition s_viol : str := [118; 105; 111; 108].   (* "viol" *)

Definition run_fst (ts : list str) : str :=
  match ts with
  | seg :: evs =>
      match hex_to_N seg, parse_all parse_event evs [] with
      | Some seg, Some t =>
          match discipline_res seg t with
          | None => s_ok
          | Some (i, v) => join [s_viol; N_to_hex (N.of_nat i); show_viol v]
          end
      | _, _ => s_bad
      end
  | [] => s_bad
  end.

Definition t_cr : str := [99; 114].   Definition t_ow : str := [111; 119].
Definition t_wr : str := [119; 114].  Definition t_sy : str := [115; 121].
Definition t_de : str := [100; 101].  Definition t_mi : str := [109; 105].

Definition parse_fsop (tok : str) : option fsop :=
  match fields tok with
  | [k] => if str_eqb k t_mi then Some FMetaInit
           else if str_eqb k t_mc then Some FMetaCommit else None
  | [k; a] =>
      match hex_to_N a with
      | None => None
      | Some s =>
          if str_eqb k t_cr then Some (FCreate s)
          else if str_eqb k t_ow then Some (FOpenWriter s)
          else if str_eqb k t_sy then Some (FSync s)
          else if str_eqb k t_cl then Some (FClose s)
          else if str_eqb k t_de then Some (FDelete s)
          else None
      end
  | [k; a; b; c] =>
      if str_eqb k t_wr then
        match hex_to_N a, hex_to_N b, hex_to_N c with
        | Some s, Some off, Some len => Some (FWrite s off len)
        | _, _, _ => None
        end
      else None
  | _ => None
  end.

Definition s_dash1 : str := [45].

Definition run_fso (ts : list str) : str :=
  match ts with
  | seg :: ops =>
      match hex_to_N seg, parse_all parse_fsop ops [] with
      | Some seg, Some ops =>
          match fs_trace seg ops with
          | [] => s_dash1
          | t => join (map show_event t)
          end
      | _, _ => s_bad
      end
  | [] => s_bad
  end.

(* fsf <segsize> <fault> <fsop>*   the fs-layer model under one injected syscall
                                  failure [fs_xtrace]; observation: per call its
                                  syscalls (failed ones prefixed by '!', the
                                  directory open as oD) followed by =ok | =err
   fault: - | <syscall>:<errno>:<k>   the k-th (1-based, hex) injectable call of
   <syscall> (openat fallocate pwrite64 fsync fdatasync unlinkat renameat) fails
   with <errno> (EIO ENOSPC EMFILE; the model does not depend on it) *)
Definition t_openat : str := [111;112;101;110;97;116].
Definition t_fallocate : str := [102;97;108;108;111;99;97;116;101].
Definition t_pwrite64 : str := [112;119;114;105;116;101;54;52].
Definition t_fsync : str := [102;115;121;110;99].
Definition t_fdatasync : str := [102;100;97;116;97;115;121;110;99].
Definition t_unlinkat : str := [117;110;108;105;110;107;97;116].
Definition t_renameat : str := [114;101;110;97;109;101;97;116].
Definition t_EIO : str := [69;73;79].
Definition t_ENOSPC : str := [69;78;79;83;80;67].
Definition t_EMFILE : str := [69;77;70;73;76;69].

Definition parse_sclass (s : str) : option sclass :=
  if str_eqb s t_openat then Some SOpenat
  else if str_eqb s t_fallocate then Some SFallocate
  else if str_eqb s t_pwrite64 then Some SPwrite
  else if str_eqb s t_fsync then Some SFsync
  else if str_eqb s t_fdatasync then Some SFdatasync
  else if str_eqb s t_unlinkat then Some SUnlink
  else if str_eqb s t_renameat then Some SRename
  else None.

Definition known_errno (s : str) : bool :=
  str_eqb s t_EIO || str_eqb s t_ENOSPC || str_eqb s t_EMFILE.

(* None = malformed; Some f = the fault *)
Definition parse_fault (tok : str) : option fault :=
  if str_eqb tok s_dash1 then Some None else
  match fields tok with
  | [c; e; k] =>
      match parse_sclass c, hex_to_N k with
      | Some c, Some k =>
          if known_errno e && (1 <=? k) && (k <=? 4096) then Some (Some (c, N.to_nat (k - 1))) else None
      | _, _ => None
      end
  | _ => None
  end.

Definition s_retok : str := [61; 111; 107].        (* "=ok"  *)
Definition s_reterr : str := [61; 101; 114; 114].  (* "=err" *)
Definition s_oD : str := [111; 68].                (* "oD"   *)
Definition bang : N := 33.

Definition show_xevent (x : xevent) : str :=
  match x with
  | XOk e => show_event e
  | XFail e => bang :: show_event e
  | XOpenDir true => s_oD
  | XOpenDir false => bang :: s_oD
  | XRet _ true => s_retok
  | XRet _ false => s_reterr
  end.

Definition run_fsf (ts : list str) : str :=
  match ts with
  | seg :: flt :: ops =>
      match hex_to_N seg, parse_fault flt, parse_all parse_fsop ops [] with
      | Some seg, Some f, Some ops =>
          match fs_xtrace seg ops f with
          | [] => s_dash1
          | t => join (map show_xevent t)
          end
      | _, _, _ => s_bad
      end
  | _ => s_bad
  end.
