(* RunSeg.v -- line runner of the segment-level streams (`seg ...`): format,
   recovery of crash images, corruption.  One line = segment parameters and a
   sequence of operations on one segment file; observation = one token per op. *)
From RW Require Import Base.Bytes Fmt.Frame Seg.Writer Seg.Recover Seg.Reader Seg.Dump
     Run.Wire Gen.Constants.
Open Scope N_scope.

Inductive smode := MTail | MSealed (info : seginfo) | MNone.

Record sst := { s_info : seginfo; s_file : bytes; s_w : wstate; s_mode : smode;
                s_pre : bytes; s_fault : wfault (* I/O error armed for the next append / force-seal *) }.

Definition s_sealedk : str := [115;101;97;108;101;100].          (* sealed *)
Definition s_toobig : str := [116;111;111;98;105;103].           (* toobig *)
Definition s_nonmono : str := [110;111;110;109;111;110;111].     (* nonmono *)
Definition s_nf : str := [110;102].                              (* nf *)
Definition s_corrupt : str := [99;111;114;114;117;112;116].      (* corrupt *)
Definition colon : N := 58.

Definition show_wres (r : wres) : str :=
  match r with
  | WOk => s_ok | WErrSealed => s_sealedk | WErrTooBig => s_toobig
  | WErrNonMono => s_nonmono | WErrShortBuf => s_err | WErrIO => s_err
  end.

Definition show_rres (r : rres) : str :=
  match r with
  | ROk p => s_ok ++ colon :: bytes_to_hex p
  | RNotFound => s_nf | RCorrupt => s_corrupt | RErr => s_err
  end.

Fixpoint strip_zeros_rev (r : bytes) : bytes :=
  match r with
  | 0 :: t => strip_zeros_rev t
  | _ => r
  end.
Definition strip_trailing_zeros (bs : bytes) : bytes :=
  rev_append (strip_zeros_rev (rev_append bs [])) [].

(* parse k (idx, payload) pairs *)
Fixpoint parse_entries (k : nat) (ts : list str) : option (list entry * list str) :=
  match k with
  | O => Some ([], ts)
  | S k' =>
      match ts with
      | i :: p :: r =>
          match hex_to_N i, hex_to_bytes p, parse_entries k' r with
          | Some i, Some p, Some (es, rest) => Some ((i, p) :: es, rest)
          | _, _, _ => None
          end
      | _ => None
      end
  end.

(* crash image: per 8-byte chunk k of the file, take the new content when bit k
   of mask is set, else the content before the last write *)
Fixpoint crash_mix (old new : bytes) (mask : N) (fuel : nat) : bytes :=
  match fuel with
  | O => []
  | S f =>
      match old, new with
      | [], [] => []
      | _, _ =>
          (if N.odd mask then firstn 8 new else firstn 8 old)
            ++ crash_mix (skipn 8 old) (skipn 8 new) (N.div2 mask) f
      end
  end.

Definition pad_to (n : nat) (bs : bytes) : bytes := bs ++ zeros (n - length bs).

Definition show_dump (r : dump_res) : str :=
  let show_es es := join (map (fun e : N * bytes => N_to_hex (fst e) ++ colon :: bytes_to_hex (snd e)) es) in
  match r with
  | DumpOk es => s_ok ++ colon :: show_es es
  | DumpErr es => s_err ++ colon :: show_es es
  end.

Definition chr (c : N) (s : str) : bool := str_eqb s [c].

(* pre-image kept for crash images: the file before the last op that wrote *)
Definition pre_of (st : sst) (acts : list waction) : bytes :=
  match acts with [] => s_pre st | _ => s_file st end.

Fixpoint run_ops (fuel : nat) (st : sst) (ts : list str) (acc : list str) : list str :=
  match fuel with
  | O => rev_append acc []
  | S fuel' =>
      match ts with
      | [] => rev_append acc []
      | op :: r =>
          if chr 65 op then (* A k entries *)
            match r with
            | k :: r1 =>
                match hex_to_N k with
                | Some k =>
                    match parse_entries (N.to_nat k) r1 with
                    | Some (es, r2) =>
                        match s_mode st with
                        | MTail =>
                            let '(res, w', acts) := append (s_w st) es (s_fault st) in
                            let f' := apply_wactions (s_file st) acts in
                            run_ops fuel' {| s_info := s_info st; s_file := f'; s_w := w';
                                             s_mode := MTail; s_pre := pre_of st acts; s_fault := FNone |} r2
                                    (show_wres res :: acc)
                        | _ => run_ops fuel' st r2 (s_bad :: acc)
                        end
                    | None => rev_append (s_bad :: acc) []
                    end
                | None => rev_append (s_bad :: acc) []
                end
            | [] => rev_append (s_bad :: acc) []
            end
          else if chr 83 op then (* S force seal *)
            match s_mode st with
            | MTail =>
                let '(res, w', acts) := force_seal (s_w st) (s_fault st) in
                let f' := apply_wactions (s_file st) acts in
                let o := match res with
                         | WOk => s_ok ++ colon :: N_to_hex (w_index_start w')
                         | _ => show_wres res
                         end in
                run_ops fuel' {| s_info := s_info st; s_file := f'; s_w := w';
                                 s_mode := MTail; s_pre := pre_of st acts; s_fault := FNone |} r (o :: acc)
            | _ => run_ops fuel' st r (s_bad :: acc)
            end
          else if chr 81 op then (* Q sealed? *)
            let o := if sealed (s_w st) then [49; colon] ++ N_to_hex (w_index_start (s_w st)) else [48] in
            run_ops fuel' st r (o :: acc)
          else if chr 76 op then (* L last index *)
            run_ops fuel' st r (N_to_hex (w_commit_idx (s_w st)) :: acc)
          else if chr 71 op then (* G idx *)
            match r with
            | i :: r1 =>
                match hex_to_N i with
                | Some i =>
                    let o := match s_mode st with
                             | MTail => show_rres (tail_get (s_w st) (s_file st) i)
                             | MSealed info => show_rres (sealed_get info (s_file st) i)
                             | MNone => s_bad
                             end in
                    run_ops fuel' st r1 (o :: acc)
                | None => rev_append (s_bad :: acc) []
                end
            | [] => rev_append (s_bad :: acc) []
            end
          else if chr 82 op then (* R recover tail from the file *)
            match recover_tail (s_info st) (s_file st) with
            | Some (w', acts) =>
                run_ops fuel' {| s_info := s_info st; s_file := apply_wactions (s_file st) acts;
                                 s_w := w'; s_mode := MTail; s_pre := pre_of st acts; s_fault := FNone |} r (s_ok :: acc)
            | None =>
                run_ops fuel' {| s_info := s_info st; s_file := s_file st; s_w := s_w st;
                                 s_mode := MNone; s_pre := s_pre st; s_fault := FNone |} r (s_corrupt :: acc)
            end
          else if chr 67 op then (* C mask : crash image of the last write, then recover *)
            match r with
            | m :: r1 =>
                match hex_to_N m with
                | Some m =>
                    let n := Nat.max (length (s_pre st)) (length (s_file st)) in
                    let img := crash_mix (pad_to n (s_pre st)) (pad_to n (s_file st)) m (S (n / 8)) in
                    run_ops fuel' {| s_info := s_info st; s_file := img; s_w := s_w st;
                                     s_mode := MNone; s_pre := img; s_fault := FNone |} (cons [82] r1) acc
                | None => rev_append (s_bad :: acc) []
                end
            | [] => rev_append (s_bad :: acc) []
            end
          else if chr 79 op then (* O min max : open as sealed segment *)
            match r with
            | mn :: mx :: r1 =>
                match hex_to_N mn, hex_to_N mx with
                | Some mn, Some mx =>
                    let info := {| si_id := si_id (s_info st); si_base := si_base (s_info st);
                                   si_min := mn; si_max := mx; si_codec := si_codec (s_info st);
                                   si_index_start := w_index_start (s_w st); si_sealed := true;
                                   si_size_limit := si_size_limit (s_info st) |} in
                    if open_sealed info (s_file st) then
                      run_ops fuel' {| s_info := s_info st; s_file := s_file st; s_w := s_w st;
                                       s_mode := MSealed info; s_pre := s_pre st; s_fault := FNone |} r1 (s_ok :: acc)
                    else
                      run_ops fuel' {| s_info := s_info st; s_file := s_file st; s_w := s_w st;
                                       s_mode := MNone; s_pre := s_pre st; s_fault := FNone |} r1 (s_corrupt :: acc)
                | _, _ => rev_append (s_bad :: acc) []
                end
            | _ => rev_append (s_bad :: acc) []
            end
          else if chr 88 op then (* X off hex : overwrite bytes in the file *)
            match r with
            | o :: h :: r1 =>
                match hex_to_N o, hex_to_bytes h with
                | Some o, Some h =>
                    run_ops fuel' {| s_info := s_info st; s_file := overwrite (s_file st) (N.to_nat o) h;
                                     s_w := s_w st; s_mode := s_mode st; s_pre := s_pre st; s_fault := FNone |} r1 acc
                | _, _ => rev_append (s_bad :: acc) []
                end
            | _ => rev_append (s_bad :: acc) []
            end
          else if chr 84 op then (* T n : truncate file *)
            match r with
            | n :: r1 =>
                match hex_to_N n with
                | Some n =>
                    run_ops fuel' {| s_info := s_info st; s_file := firstn (N.to_nat n) (s_file st);
                                     s_w := s_w st; s_mode := s_mode st; s_pre := s_pre st; s_fault := FNone |} r1 acc
                | None => rev_append (s_bad :: acc) []
                end
            | _ => rev_append (s_bad :: acc) []
            end
          else if chr 69 op then (* E w|p|s : the next append / force-seal fails at its write (nothing written / first half written) / fsync *)
            match r with
            | k :: r1 =>
                let f := if chr 119 k then FWrite else if chr 112 k then FWriteShort
                         else if chr 115 k then FSync else FNone in
                run_ops fuel' {| s_info := s_info st; s_file := s_file st; s_w := s_w st;
                                 s_mode := s_mode st; s_pre := s_pre st; s_fault := f |} r1 acc
            | [] => rev_append (s_bad :: acc) []
            end
          else if chr 70 op then (* F : file content, trailing zeros stripped *)
            run_ops fuel' st r (bytes_to_hex (strip_trailing_zeros (s_file st)) :: acc)
          else if chr 68 op then (* D after before : DumpSegment *)
            match r with
            | a :: b :: r1 =>
                match hex_to_N a, hex_to_N b with
                | Some a, Some b =>
                    run_ops fuel' st r1 (show_dump (dump_segment (s_file st) (si_base (s_info st)) a b) :: acc)
                | _, _ => rev_append (s_bad :: acc) []
                end
            | _ => rev_append (s_bad :: acc) []
            end
          else rev_append (s_bad :: acc) []
      end
  end.

(* seg <base> <id> <codec> <limit> <filesize> ops... *)
Definition run_seg (ts : list str) : str :=
  match ts with
  | b :: i :: c :: l :: fsz :: ops =>
      match hex_to_N b, hex_to_N i, hex_to_N c, hex_to_N l, hex_to_N fsz with
      | Some b, Some i, Some c, Some l, Some fsz =>
          let info := {| si_id := i; si_base := b; si_min := b; si_max := 0; si_codec := c;
                         si_index_start := 0; si_sealed := false; si_size_limit := l |} in
          let f0 := zeros (N.to_nat fsz) in
          join (run_ops (S (length ops)) {| s_info := info; s_file := f0; s_w := init_empty info;
                                            s_mode := MTail; s_pre := f0; s_fault := FNone |} ops [])
      | _, _, _, _, _ => s_bad
      end
  | _ => s_bad
  end.
