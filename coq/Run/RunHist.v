(* RunHist.v -- line runner for crash histories (`hist ...`): evaluates the
   acceptance predicate of Wal/Hist.v step by step. *)
From RW Require Import Base.Bytes Fmt.Codec Fmt.Frame Wal.Model Wal.Spec Wal.Hist Wal.LiveDir Run.Wire Run.RunCodec Run.RunWal.
Open Scope N_scope.

Definition parse_sop (ts : list str) : option (sop * list str) :=
  match ts with
  | op :: r =>
      if chr 83 op then
        match r with
        | k :: r1 => match hex_to_N k with
                     | Some k => match parse_logs (N.to_nat k) r1 with
                                 | Some (ls, r2) => Some (OStore ls, r2)
                                 | None => None
                                 end
                     | None => None
                     end
        | [] => None
        end
      else if chr 68 op then
        match r with
        | a :: b :: r1 => match hex_to_N a, hex_to_N b with
                          | Some a, Some b => Some (ODelete a b, r1)
                          | _, _ => None
                          end
        | _ => None
        end
      else if chr 71 op then
        match r with
        | a :: r1 => match hex_to_N a with Some a => Some (OGet a, r1) | None => None end
        | _ => None
        end
      else if chr 70 op then Some (OFirst, r)
      else if chr 76 op then Some (OLast, r)
      else if chr 82 op then Some (OReopen, r)
      else if chr 75 op then
        match r with
        | k :: v :: r1 =>
            let is_nil := str_eqb v [110;105;108] in
            match hex_to_bytes k, (if is_nil then Some [] else hex_to_bytes v) with
            | Some k, Some v => Some (OSet k v is_nil, r1)
            | _, _ => None
            end
        | _ => None
        end
      else if chr 107 op then
        match r with
        | k :: r1 => match hex_to_bytes k with Some k => Some (OGetS k, r1) | None => None end
        | _ => None
        end
      else None
  | [] => None
  end.

(* choice tokens: <j> <filemask> <batchmask>; bit i of a mask selects the i-th file
   (in directory order) of the disk at the crash point *)
Inductive pstep :=
| POp (o : sop) | PCrashIn (o : sop) (j : nat) (mf mb : N) | POpen | PCrashInOpen (j : nat) (mf mb : N).

Definition parse_choice (ts : list str) : option (nat * N * N * list str) :=
  match ts with
  | j :: mf :: mb :: r =>
      match hex_to_N j, hex_to_N mf, hex_to_N mb with
      | Some j, Some mf, Some mb => Some (N.to_nat j, mf, mb, r)
      | _, _, _ => None
      end
  | _ => None
  end.

Fixpoint select_mask (m : N) (l : list fname) : list fname :=
  match l with
  | [] => []
  | x :: r => if N.odd m then x :: select_mask (N.div2 m) r else select_mask (N.div2 m) r
  end.

Definition choice_of (d : disk) (mf mb : N) : crash_choice :=
  let names := map fst (dk_files d) in
  {| cc_keep_file := select_mask mf names; cc_keep_batch := select_mask mb names |}.

Definition to_hstep (c : cfg) (h : hstate) (p : pstep) : hstep :=
  match p with
  | POp o => HOp o
  | POpen => HOpen
  | PCrashIn o j mf mb =>
      match hs_mode h with
      | Up s => let '(_, s') := step_model c s o in
                let acts := new_acts (ss_env s) (ss_env s') in
                HCrashIn o j (choice_of (fold_left apply_act (firstn j acts) (e_disk (ss_env s))) mf mb)
      | Down _ => HCrashIn o j {| cc_keep_file := []; cc_keep_batch := [] |}
      end
  | PCrashInOpen j mf mb =>
      match hs_mode h with
      | Down d => let '(_, e) := open_wal c (env_of d) in
                  let acts := rev_append (e_acts e) [] in
                  HCrashInOpen j (choice_of (fold_left apply_act (firstn j acts) d) mf mb)
      | Up _ => HCrashInOpen j {| cc_keep_file := []; cc_keep_batch := [] |}
      end
  end.

Fixpoint parse_steps (fuel : nat) (ts : list str) : option (list pstep) :=
  match fuel with
  | O => Some []
  | S f =>
      match ts with
      | [] => Some []
      | t :: r =>
          if chr 111 t then (* o <sop> *)
            match parse_sop r with
            | Some (o, r1) => match parse_steps f r1 with Some l => Some (POp o :: l) | None => None end
            | None => None
            end
          else if chr 99 t then (* c <choice> <sop> *)
            match parse_choice r with
            | Some (j, mf, mb, r1) =>
                match parse_sop r1 with
                | Some (o, r2) => match parse_steps f r2 with Some l => Some (PCrashIn o j mf mb :: l) | None => None end
                | None => None
                end
            | None => None
            end
          else if chr 112 t then (* p *)
            match parse_steps f r with Some l => Some (POpen :: l) | None => None end
          else if chr 113 t then (* q <choice> *)
            match parse_choice r with
            | Some (j, mf, mb, r1) => match parse_steps f r1 with Some l => Some (PCrashInOpen j mf mb :: l) | None => None end
            | None => None
            end
          else None
      end
  end.

Fixpoint run_steps (c : cfg) (h : hstate) (steps : list pstep) (acc : list N) : list N :=
  match steps with
  | [] => rev_append acc []
  | p :: r => let h' := hstep_run c h (to_hstep c h p) in
               run_steps c h' r ((if hs_ok h' then 49 else 48) :: acc)
  end.

(* hist <segsize> <codec> steps...  ->  one 0/1 per step (acceptance so far) *)
Definition run_hist (ts : list str) : str :=
  match ts with
  | sz :: cd :: r =>
      match hex_to_N sz, hex_to_N cd, parse_steps (S (length r)) r with
      | Some sz, Some cd, Some steps =>
          run_steps {| c_seg_size := sz; c_codec := cd |} hist_init steps []
      | _, _, _ => s_bad
      end
  | _ => s_bad
  end.

(* hdir <segsize> <codec> steps...  ->  one 0/1 per step: whenever the WAL is up after the
   step, the directory holds exactly the files of the listed segments (Wal/LiveDir.v) *)
Fixpoint run_dsteps (c : cfg) (h : hstate) (steps : list pstep) (acc : list N) : list N :=
  match steps with
  | [] => rev_append acc []
  | p :: r => let h' := hstep_run c h (to_hstep c h p) in
               run_dsteps c h' r ((if live_dir_ok h' then 49 else 48) :: acc)
  end.

Definition run_hdir (ts : list str) : str :=
  match ts with
  | sz :: cd :: r =>
      match hex_to_N sz, hex_to_N cd, parse_steps (S (length r)) r with
      | Some sz, Some cd, Some steps =>
          run_dsteps {| c_seg_size := sz; c_codec := cd |} hist_init steps []
      | _, _, _ => s_bad
      end
  | _ => s_bad
  end.

(* ---- fault histories: fhist <segsize> <codec> steps...;  step = f <n|-> <sop> | z ---- *)
From RW Require Import Wal.FaultHist.

Fixpoint parse_fsteps (fuel : nat) (ts : list str) : option (list fstep) :=
  match fuel with
  | O => Some []
  | S f =>
      match ts with
      | [] => Some []
      | t :: r =>
          if chr 102 t then
            match r with
            | n :: r1 =>
                let fl := if str_eqb n [45] then Some None
                          else match hex_to_N n with Some n => Some (Some (N.to_nat n)) | None => None end in
                match fl, parse_sop r1 with
                | Some fl, Some (o, r2) => match parse_fsteps f r2 with Some l => Some (FOp fl fx_none o :: l) | None => None end
                | _, _ => None
                end
            | [] => None
            end
          else if chr 103 t then
            (* g <n|-> <flags> <sop> : flags = 1 deletions fail + 2 listing fails + 4 create leaves the file *)
            match r with
            | n :: m :: r1 =>
                let fl := if str_eqb n [45] then Some None
                          else match hex_to_N n with Some n => Some (Some (N.to_nat n)) | None => None end in
                match fl, hex_to_N m, parse_sop r1 with
                | Some fl, Some m, Some (o, r2) =>
                    let fx := {| fx_del := N.testbit m 0; fx_list := N.testbit m 1; fx_leave := N.testbit m 2; fx_land := N.testbit m 3 |} in
                    match parse_fsteps f r2 with Some l => Some (FOp fl fx o :: l) | None => None end
                | _, _, _ => None
                end
            | _ => None
            end
          else if chr 122 t then
            match parse_fsteps f r with Some l => Some (FRestart :: l) | None => None end
          else None
      end
  end.

Fixpoint run_fsteps (c : cfg) (h : fstate) (steps : list fstep) (acc : list N) : list N :=
  match steps with
  | [] => rev_append acc []
  | p :: r => let h' := fstep_run c h p in
              run_fsteps c h' r ((if fs_ok h' then 49 else 48) :: acc)
  end.

Definition run_fhist (ts : list str) : str :=
  match ts with
  | sz :: cd :: r =>
      match hex_to_N sz, hex_to_N cd, parse_fsteps (S (length r)) r with
      | Some sz, Some cd, Some steps =>
          let c := {| c_seg_size := sz; c_codec := cd |} in
          match initial c with
          | Some s0 => run_fsteps c (fault_init s0) steps []
          | None => s_err
          end
      | _, _, _ => s_bad
      end
  | _ => s_bad
  end.
