(* Wire.v -- ASCII line protocol shared by the Go harness, the extracted driver
   and the in-kernel (vm_compute) cross-check.  A line is a list of ASCII codes;
   tokens are separated by single spaces; numbers are lower-case hex. *)
From RW Require Import Base.Bytes.
Open Scope N_scope.

Definition str := list N.        (* ASCII codes *)

Definition sp : N := 32.

Fixpoint split_aux (s : str) (cur : str) : list str :=
  match s with
  | [] => [rev_append cur []]
  | c :: r => if c =? sp then rev_append cur [] :: split_aux r [] else split_aux r (c :: cur)
  end.
Definition tokens (s : str) : list str := split_aux s [].

Definition hexval (c : N) : option N :=
  if (48 <=? c) && (c <=? 57) then Some (c - 48)
  else if (97 <=? c) && (c <=? 102) then Some (c - 87)
  else None.

Fixpoint hex_to_N_aux (s : str) (acc : N) : option N :=
  match s with
  | [] => Some acc
  | c :: r => match hexval c with
              | Some v => hex_to_N_aux r (acc * 16 + v)
              | None => None
              end
  end.
Definition hex_to_N (s : str) : option N :=
  match s with [] => None | _ => hex_to_N_aux s 0 end.

Definition hex_to_Z (s : str) : option Z :=
  match s with
  | 45 :: r => match hex_to_N r with Some n => Some (- Z.of_N n)%Z | None => None end
  | _ => match hex_to_N s with Some n => Some (Z.of_N n) | None => None end
  end.

(* "-" is the empty byte string *)
Fixpoint hex_to_bytes_aux (s : str) : option bytes :=
  match s with
  | [] => Some []
  | a :: b :: r =>
      match hexval a, hexval b, hex_to_bytes_aux r with
      | Some x, Some y, Some t => Some (x * 16 + y :: t)
      | _, _, _ => None
      end
  | _ => None
  end.
Definition hex_to_bytes (s : str) : option bytes :=
  match s with
  | [45] => Some []
  | _ => hex_to_bytes_aux s
  end.

Definition hexdigit (v : N) : N := if v <? 10 then 48 + v else 87 + v.

Fixpoint N_to_hex_aux (fuel : nat) (v : N) (acc : str) : str :=
  match fuel with
  | O => acc
  | S f => let acc' := hexdigit (v mod 16) :: acc in
           if v <? 16 then acc' else N_to_hex_aux f (v / 16) acc'
  end.
(* enough fuel for 256-bit values *)
Definition N_to_hex (v : N) : str := N_to_hex_aux 64 v [].

Definition Z_to_hex (z : Z) : str :=
  if (z <? 0)%Z then 45 :: N_to_hex (Z.to_N (- z)) else N_to_hex (Z.to_N z).

Fixpoint bytes_to_hex_aux (bs : bytes) : str :=
  match bs with
  | [] => []
  | b :: r => hexdigit (b / 16) :: hexdigit (b mod 16) :: bytes_to_hex_aux r
  end.
Definition bytes_to_hex (bs : bytes) : str :=
  match bs with [] => [45] | _ => bytes_to_hex_aux bs end.

Fixpoint join (l : list str) : str :=
  match l with
  | [] => []
  | [x] => x
  | x :: r => x ++ sp :: join r
  end.

(* string literals for observation keywords *)
Definition s_ok : str := [111; 107].                       (* "ok" *)
Definition s_err : str := [101; 114; 114].                 (* "err" *)
Definition s_bad : str := [98; 97; 100; 105; 110; 112; 117; 116]. (* "badinput" *)
Definition s_none : str := [110; 111; 110; 101].           (* "none" *)
Definition s_utc : str := [117; 116; 99].                  (* "utc" *)

Fixpoint str_eqb (a b : str) : bool :=
  match a, b with
  | [], [] => true
  | x :: a', y :: b' => (x =? y) && str_eqb a' b'
  | _, _ => false
  end.

(* the in-kernel cross-check: cases are (input line, expected observation) *)
Definition mismatches (run : str -> str) (cases : list (str * str)) : list (str * str * str) :=
  flat_map (fun c => let o := run (fst c) in
                     if str_eqb o (snd c) then [] else [(fst c, snd c, o)]) cases.
