(* RunDump.v -- protocol line "dl <after> <before> <badname 0|1> (<id> <base> <hex|->)*":
   Filer.DumpLogs over a directory of segment files. *)
From RW Require Import Base.Bytes Run.Wire Seg.Dump Run.RunSeg.
Open Scope N_scope.

Fixpoint parse_files (fuel : nat) (ts : list str) (acc : list (N * N * bytes)) : option (list (N * N * bytes)) :=
  match fuel with
  | O => None
  | S fuel' =>
      match ts with
      | [] => Some (rev_append acc [])
      | i :: b :: h :: r =>
          match hex_to_N i, hex_to_N b, (if str_eqb h [45] then Some [] else hex_to_bytes h) with
          | Some i, Some b, Some bs => parse_files fuel' r ((i, b, bs) :: acc)
          | _, _, _ => None
          end
      | _ => None
      end
  end.

Definition run_dl (args : list str) : str :=
  match args with
  | a :: b :: bad :: r =>
      match hex_to_N a, hex_to_N b, hex_to_N bad, parse_files (S (length r)) r [] with
      | Some a, Some b, Some bad, Some files => show_dump (dump_logs (0 <? bad) files a b)
      | _, _, _, _ => s_bad
      end
  | _ => s_bad
  end.
