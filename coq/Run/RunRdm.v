(* RunRdm.v -- line runner `rdm`: decode the bytes of one segment file with the
   README-only decoder (Fmt/ReadmeSpec.parse) and check them against the file
   name / metadata fields given on the line.
     rdm <base> <id> <codec> <sealed 0|1> <indexstart> <hex of the file, trailing zeros stripped>
   observation: `ok <n> <payload hex>...` | `empty` | `bad:<reason>` *)
From RW Require Import Base.Bytes Fmt.ReadmeSpec Run.Wire.
Open Scope N_scope.

Definition s_empty : str := [101;109;112;116;121].                       (* empty *)
Definition s_bad_parse : str := [98;97;100;58;112;97;114;115;101].       (* bad:parse *)
Definition s_bad_hdr : str := [98;97;100;58;104;100;114].                (* bad:hdr *)
Definition s_bad_seal : str := [98;97;100;58;115;101;97;108].            (* bad:seal *)
Definition s_bad_index : str := [98;97;100;58;105;110;100;101;120].      (* bad:index *)

(* the harness strips trailing zero bytes; all frames are 8-byte aligned, so
   padding back to a multiple of 8 restores the last (commit) frame *)
Definition pad8 (bs : bytes) : bytes :=
  bs ++ zeros (N.to_nat ((8 - len bs mod 8) mod 8)).

Definition run_rdm (ts : list str) : str :=
  match ts with
  | [b; i; c; sl; ist; hx] =>
      match hex_to_N b, hex_to_N i, hex_to_N c, hex_to_N sl, hex_to_N ist, hex_to_bytes hx with
      | Some b, Some i, Some c, Some sl, Some ist, Some bs =>
          if all_zero bs then s_empty
          else match parse (pad8 bs) with
               | None => s_bad_parse
               | Some (h, batches) =>
                   if negb ((h_base h =? b) && (h_id h =? i) && (h_codec h =? c)) then s_bad_hdr
                   else
                     let sealed := existsb (fun x : rs_batch => snd x) batches in
                     if negb (Bool.eqb sealed (negb (sl =? 0))) then s_bad_seal
                     else if sealed && negb (rs_index_start batches =? ist) then s_bad_index
                     else
                       let ps := flat_map (fun x : rs_batch => fst x) batches in
                       join (s_ok :: N_to_hex (N.of_nat (length ps)) :: map bytes_to_hex ps)
               end
      | _, _, _, _, _, _ => s_bad
      end
  | _ => s_bad
  end.
