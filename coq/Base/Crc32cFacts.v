From RW Require Import Base.Bytes Base.Crc32c.
Open Scope N_scope.

Lemma lxor_mask_invol x : N.lxor (N.lxor x crc_mask) crc_mask = x.
Proof. rewrite N.lxor_assoc, N.lxor_nilpotent, N.lxor_0_r. reflexivity. Qed.

Lemma crc_raw_app c a b : crc_raw c (a ++ b) = crc_raw (crc_raw c a) b.
Proof. unfold crc_raw. apply fold_left_app. Qed.

Lemma crc_update_app c a b : crc_update c (a ++ b) = crc_update (crc_update c a) b.
Proof. unfold crc_update. rewrite lxor_mask_invol. rewrite crc_raw_app. reflexivity. Qed.

Lemma crc_update_nil c : crc_update c [] = c.
Proof. unfold crc_update, crc_raw. simpl. apply lxor_mask_invol. Qed.

Lemma crc32c_app a b : crc32c (a ++ b) = crc_update (crc32c a) b.
Proof. unfold crc32c. apply crc_update_app. Qed.

(* the standard check value: CRC-32C("123456789") = 0xE3069283 *)
Example crc32c_check : crc32c [49;50;51;52;53;54;55;56;57] = 3808858755.
Proof. vm_compute. reflexivity. Qed.
