(* FnvFacts.v -- the FNV-1a step is a bijection of uint64 for every byte, hence
   (a) a divergence of the running state is never masked by a common suffix and
   (b) two equal-length streams that differ in exactly one byte never collide. *)
From RW Require Import Base.Bytes Base.BytesFacts Base.Fnv.
From Coq Require Import ZifyN ZifyNat ZifyBool.
Open Scope N_scope.

Lemma two64_pow : two64 = 2 ^ 64.
Proof. reflexivity. Qed.

Lemma testbit_high a n m : a < 2 ^ n -> n <= m -> N.testbit a m = false.
Proof.
  intros Ha Hm. rewrite <- (N.mod_small a (2 ^ n)) by exact Ha.
  apply N.mod_pow2_bits_high. exact Hm.
Qed.

Lemma lxor_lt_pow2 a b n : a < 2 ^ n -> b < 2 ^ n -> N.lxor a b < 2 ^ n.
Proof.
  intros Ha Hb.
  assert (E : N.lxor a b mod 2 ^ n = N.lxor a b).
  { apply N.bits_inj. intros m.
    destruct (N.lt_ge_cases m n) as [Hlt|Hge].
    - rewrite N.mod_pow2_bits_low by exact Hlt. reflexivity.
    - rewrite N.mod_pow2_bits_high by exact Hge.
      rewrite N.lxor_spec, (testbit_high a n m Ha Hge), (testbit_high b n m Hb Hge).
      reflexivity. }
  rewrite <- E. apply N.mod_lt. apply N.pow_nonzero. discriminate.
Qed.

Lemma lxor_lt64 a b : a < two64 -> b < two64 -> N.lxor a b < two64.
Proof. rewrite two64_pow. apply lxor_lt_pow2. Qed.

Lemma lxor_cancel_r a b : N.lxor (N.lxor a b) b = a.
Proof. rewrite N.lxor_assoc, N.lxor_nilpotent, N.lxor_0_r. reflexivity. Qed.

Lemma lxor_inj_l h a b : N.lxor h a = N.lxor h b -> a = b.
Proof.
  intros E. assert (E2 : N.lxor h (N.lxor h a) = N.lxor h (N.lxor h b)) by (rewrite E; reflexivity).
  rewrite <- !N.lxor_assoc, N.lxor_nilpotent, !N.lxor_0_l in E2. exact E2.
Qed.

Lemma two64_nz : two64 <> 0.
Proof. discriminate. Qed.

Lemma fnv_prime_inv_ok : (fnv_prime * fnv_prime_inv) mod two64 = 1.
Proof. vm_compute. reflexivity. Qed.

(* multiplication by the odd FNV prime is invertible modulo 2^64 *)
Lemma mulp_unmul x : x < two64 -> ((x * fnv_prime) mod two64 * fnv_prime_inv) mod two64 = x.
Proof.
  intros Hx.
  rewrite N.mul_mod_idemp_l by exact two64_nz.
  rewrite <- N.mul_assoc.
  rewrite N.mul_mod by exact two64_nz.
  rewrite fnv_prime_inv_ok, N.mul_1_r, N.mod_mod by exact two64_nz.
  apply N.mod_small. exact Hx.
Qed.

Lemma mulp_inj x y : x < two64 -> y < two64 ->
  (x * fnv_prime) mod two64 = (y * fnv_prime) mod two64 -> x = y.
Proof.
  intros Hx Hy E. rewrite <- (mulp_unmul x Hx), <- (mulp_unmul y Hy), E. reflexivity.
Qed.

Lemma mul_unmulp x : x < two64 -> ((x * fnv_prime_inv) mod two64 * fnv_prime) mod two64 = x.
Proof.
  intros Hx.
  rewrite N.mul_mod_idemp_l by exact two64_nz.
  rewrite <- N.mul_assoc, (N.mul_comm fnv_prime_inv fnv_prime).
  rewrite N.mul_mod by exact two64_nz.
  rewrite fnv_prime_inv_ok, N.mul_1_r, N.mod_mod by exact two64_nz.
  apply N.mod_small. exact Hx.
Qed.

Lemma fnv_step_mod h b : fnv_step h b = (N.lxor h b * fnv_prime) mod two64.
Proof.
  unfold fnv_step. change mask64 with (N.ones 64). rewrite N.land_ones, N.mul_comm. reflexivity.
Qed.

Lemma fnv_step_lt h b : fnv_step h b < two64.
Proof. rewrite fnv_step_mod. apply N.mod_lt. exact two64_nz. Qed.

Lemma fnv_unstep_step h b : h < two64 -> b < two64 -> fnv_unstep (fnv_step h b) b = h.
Proof.
  intros Hh Hb. unfold fnv_unstep. rewrite fnv_step_mod.
  rewrite mulp_unmul by (apply lxor_lt64; assumption). apply lxor_cancel_r.
Qed.

Lemma fnv_unstep_lt h' b : b < two64 -> fnv_unstep h' b < two64.
Proof.
  intros Hb. unfold fnv_unstep. apply lxor_lt64; [apply N.mod_lt; exact two64_nz|exact Hb].
Qed.

Lemma fnv_step_unstep h' b : h' < two64 -> b < two64 -> fnv_step (fnv_unstep h' b) b = h'.
Proof.
  intros Hh Hb. rewrite fnv_step_mod. unfold fnv_unstep. rewrite lxor_cancel_r.
  apply mul_unmulp. exact Hh.
Qed.

(* xor with a byte is an involution *)
Lemma xor_byte_involutive h b : N.lxor (N.lxor h b) b = h.
Proof. apply lxor_cancel_r. Qed.

(* for every byte b the step  h |-> (h xor b) * prime  is a bijection of uint64 *)
Lemma fnv_step_bijective b : b < two64 ->
  (forall h1 h2, h1 < two64 -> h2 < two64 -> fnv_step h1 b = fnv_step h2 b -> h1 = h2) /\
  (forall h', h' < two64 -> exists h, h < two64 /\ fnv_step h b = h').
Proof.
  intros Hb. split.
  - intros h1 h2 H1 H2 E.
    rewrite <- (fnv_unstep_step h1 b H1 Hb), <- (fnv_unstep_step h2 b H2 Hb), E. reflexivity.
  - intros h' Hh. exists (fnv_unstep h' b). split.
    + apply fnv_unstep_lt; exact Hb.
    + apply fnv_step_unstep; assumption.
Qed.

Lemma fnv_step_inj_state h1 h2 b :
  h1 < two64 -> h2 < two64 -> b < two64 -> fnv_step h1 b = fnv_step h2 b -> h1 = h2.
Proof. intros H1 H2 Hb. apply (proj1 (fnv_step_bijective b Hb)); assumption. Qed.

(* ... and for a fixed state it is injective in the byte *)
Lemma fnv_step_inj_byte h b1 b2 :
  h < two64 -> b1 < two64 -> b2 < two64 -> fnv_step h b1 = fnv_step h b2 -> b1 = b2.
Proof.
  intros Hh H1 H2 E. rewrite !fnv_step_mod in E.
  apply mulp_inj in E; try (apply lxor_lt64; assumption).
  apply lxor_inj_l in E. exact E.
Qed.

Lemma fnv_add_app h a b : fnv_add h (a ++ b) = fnv_add (fnv_add h a) b.
Proof. unfold fnv_add. apply fold_left_app. Qed.

Lemma fnv_add_cons h b r : fnv_add h (b :: r) = fnv_add (fnv_step h b) r.
Proof. reflexivity. Qed.

Lemma fnv_add_nil h : fnv_add h [] = h.
Proof. reflexivity. Qed.

Lemma fnv_add_lt h s : h < two64 -> fnv_add h s < two64.
Proof.
  revert h; induction s as [|b r IH]; intros h Hh; [exact Hh|].
  rewrite fnv_add_cons. apply IH. apply fnv_step_lt.
Qed.

Lemma wf_byte_lt64 b : wf_byte b -> b < two64.
Proof. unfold wf_byte, two64. lia. Qed.

(* different running states stay different under any common suffix *)
Lemma fnv_suffix_injective s : wf_bytes s ->
  forall h1 h2, h1 < two64 -> h2 < two64 -> h1 <> h2 -> fnv_add h1 s <> fnv_add h2 s.
Proof.
  induction 1 as [|b r Hb Hr IH]; intros h1 h2 H1 H2 Hne; [exact Hne|].
  rewrite !fnv_add_cons. apply IH; try apply fnv_step_lt.
  intros E. apply Hne. apply (fnv_step_inj_state h1 h2 b); auto using wf_byte_lt64.
Qed.

(* two streams of equal length that differ in exactly one byte never collide *)
Lemma single_byte_flip_always_detected h a b1 b2 c :
  h < two64 -> wf_byte b1 -> wf_byte b2 -> wf_bytes c -> b1 <> b2 ->
  fnv_add h (a ++ b1 :: c) <> fnv_add h (a ++ b2 :: c).
Proof.
  intros Hh H1 H2 Hc Hne. rewrite !fnv_add_app, !fnv_add_cons.
  assert (Hs : fnv_add h a < two64) by (apply fnv_add_lt; exact Hh).
  apply fnv_suffix_injective; try exact Hc; try apply fnv_step_lt.
  intros E. apply Hne. apply (fnv_step_inj_byte (fnv_add h a)); auto using wf_byte_lt64.
Qed.

(* the last byte alone always matters, whatever precedes it *)
Lemma fnv_add_last_byte h a b1 b2 :
  h < two64 -> wf_byte b1 -> wf_byte b2 -> b1 <> b2 ->
  fnv_add h (a ++ [b1]) <> fnv_add h (a ++ [b2]).
Proof.
  intros Hh H1 H2 Hne. apply single_byte_flip_always_detected; auto. constructor.
Qed.
