(* Fnv.v -- model of github.com/segmentio/fasthash/fnv1a (64 bit):
     h = (h ^ uint64(b)) * prime64          (uint64 arithmetic, wraps)
   AddBytes64 folds that step over a byte slice (the unrolled loop of hash.go is
   the same left fold); AddUint64 feeds the 8 bytes of u most significant byte
   first (u>>56 first, u>>0 last), i.e. big endian.
   Model only; facts in FnvFacts.v. *)
From RW Require Import Base.Bytes.
Open Scope N_scope.

Definition fnv_prime : N := 1099511628211.
Definition fnv_offset : N := 14695981039346656037.   (* Init64; NOT used by the verifier *)

(* (h xor b) * prime mod 2^64.  Written as a mask and with the (sparse) prime as
   the left factor so that the extracted binary arithmetic is fast;
   FnvFacts.fnv_step_mod shows it is ((h xor b) * prime) mod 2^64. *)
Definition mask64 : N := 18446744073709551615.
Definition fnv_step (h b : N) : N := N.land (fnv_prime * N.lxor h b) mask64.

Definition fnv_add (h : N) (bs : bytes) : N := fold_left fnv_step bs h.

Definition fnv_add_u64 (h u : N) : N := fnv_add h (be64 u).

(* multiplicative inverse of the (odd) prime modulo 2^64 *)
Definition fnv_prime_inv : N := 14886173955864302971.
Definition fnv_unstep (h' b : N) : N := N.lxor ((h' * fnv_prime_inv) mod two64) b.
