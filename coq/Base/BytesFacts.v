From RW Require Import Base.Bytes.
From Coq Require Import ZifyN ZifyNat ZifyBool.
Ltac Zify.zify_post_hook ::= Z.div_mod_to_equations.
Open Scope N_scope.

Lemma le32_length v : length (le32 v) = 4%nat.
Proof. reflexivity. Qed.
Lemma le64_length v : length (le64 v) = 8%nat.
Proof. reflexivity. Qed.
Lemma be64_length v : length (be64 v) = 8%nat.
Proof. unfold be64. rewrite rev_length. reflexivity. Qed.

Lemma rd32_le32 v : v < 4294967296 -> rd32 (le32 v) = v.
Proof. intros H. unfold rd32, le32, nth0; cbn [nth]. lia. Qed.

Lemma rd32_le32_app v r : v < 4294967296 -> rd32 (le32 v ++ r) = v.
Proof. intros H. unfold rd32, le32, nth0; cbn [nth app]. lia. Qed.

Lemma rd64_le64_app v r : v < 18446744073709551616 -> rd64 (le64 v ++ r) = v.
Proof.
  intros H. unfold rd64, le64. rewrite <- app_assoc.
  rewrite rd32_le32_app by lia.
  change (skipn 4 (le32 (v mod 4294967296) ++ le32 (v / 4294967296) ++ r))
    with (le32 (v / 4294967296) ++ r).
  rewrite rd32_le32_app by lia. lia.
Qed.

Lemma rd64_le64 v : v < 18446744073709551616 -> rd64 (le64 v) = v.
Proof. intros H. rewrite <- (app_nil_r (le64 v)). apply rd64_le64_app; exact H. Qed.

Lemma wf_le32 v : wf_bytes (le32 v).
Proof. unfold le32, wf_bytes. repeat constructor; unfold wf_byte; lia. Qed.
Lemma wf_le64 v : wf_bytes (le64 v).
Proof. unfold le64, wf_bytes. apply Forall_app; split; apply wf_le32. Qed.
Lemma wf_be64 v : wf_bytes (be64 v).
Proof. unfold be64, wf_bytes. apply Forall_rev. apply wf_le64. Qed.

Lemma rdbe64_be64_app v r : v < 18446744073709551616 -> rdbe64 (be64 v ++ r) = v.
Proof.
  intros H. unfold rdbe64.
  assert (E : firstn 8 (be64 v ++ r) = be64 v).
  { rewrite firstn_app, be64_length. simpl (8 - 8)%nat. rewrite firstn_O, app_nil_r.
    apply firstn_all2. rewrite be64_length. lia. }
  rewrite E. unfold be64. rewrite rev_involutive. apply rd64_le64; exact H.
Qed.

Lemma beq_bytes_refl a : beq_bytes a a = true.
Proof. induction a as [|x a IH]; simpl; [reflexivity|]. rewrite N.eqb_refl, IH. reflexivity. Qed.

Lemma beq_bytes_eq a b : beq_bytes a b = true <-> a = b.
Proof.
  revert b; induction a as [|x a IH]; intros [|y b]; simpl; split; intros H;
    try reflexivity; try discriminate.
  - apply andb_true_iff in H as [H1 H2]. apply N.eqb_eq in H1. apply IH in H2. congruence.
  - inversion H; subst. rewrite N.eqb_refl. apply (proj2 (IH b)). reflexivity.
Qed.

Lemma wf_bytesb_spec bs : wf_bytesb bs = true <-> wf_bytes bs.
Proof.
  unfold wf_bytesb, wf_bytes. rewrite forallb_forall, Forall_forall.
  split; intros H x Hx; specialize (H x Hx); unfold wf_byteb, wf_byte in *; lia.
Qed.

Lemma wf_bytes_app a b : wf_bytes (a ++ b) <-> wf_bytes a /\ wf_bytes b.
Proof. unfold wf_bytes. apply Forall_app. Qed.

Lemma wf_zeros n : wf_bytes (zeros n).
Proof. unfold zeros, wf_bytes. apply Forall_forall. intros x Hx. apply repeat_spec in Hx. subst. unfold wf_byte. lia. Qed.

Lemma zeros_length n : length (zeros n) = n.
Proof. apply repeat_length. Qed.

Lemma all_zero_zeros n : all_zero (zeros n) = true.
Proof. induction n; simpl; auto. Qed.

Lemma all_zero_spec bs : all_zero bs = true <-> bs = zeros (length bs).
Proof.
  induction bs as [|b r IH]; simpl; split; intros H; auto.
  - apply andb_true_iff in H as [H1 H2]. apply N.eqb_eq in H1. apply IH in H2.
    subst b. unfold zeros in *. simpl. f_equal. exact H2.
  - unfold zeros in H. simpl in H. inversion H as [[H0 H1]]. simpl.
    rewrite <- H1. apply IH. unfold zeros. exact H1.
Qed.

Lemma skipn_skipn' {A} (a b : nat) (l : list A) : skipn a (skipn b l) = skipn (b + a) l.
Proof.
  revert l; induction b as [|b IH]; intros l; [reflexivity|].
  destruct l as [|x l]; simpl; [apply skipn_nil|apply IH].
Qed.
