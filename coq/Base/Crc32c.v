(* Crc32c.v -- CRC-32 (Castagnoli), reflected, bit-serial; hash/crc32 semantics:
   Checksum(data) = Update(0, data);  Update composes over concatenation. *)
From RW Require Import Base.Bytes.
Open Scope N_scope.

Definition crc_poly : N := 2197175160.   (* 0x82F63B78 *)
Definition crc_mask : N := 4294967295.   (* 0xFFFFFFFF *)

Definition crc_shift1 (c : N) : N :=
  if N.odd c then N.lxor (N.div2 c) crc_poly else N.div2 c.

Definition crc_byte (c b : N) : N :=
  crc_shift1 (crc_shift1 (crc_shift1 (crc_shift1
  (crc_shift1 (crc_shift1 (crc_shift1 (crc_shift1 (N.lxor c b)))))))).

Definition crc_raw (c : N) (bs : bytes) : N := fold_left crc_byte bs c.

Definition crc_update (crc : N) (bs : bytes) : N :=
  N.lxor (crc_raw (N.lxor crc crc_mask) bs) crc_mask.

Definition crc32c (bs : bytes) : N := crc_update 0 bs.
