(* Bytes.v -- byte strings as [list N], little/big endian words, slicing.
   Model only; characterising lemmas live in BytesFacts.v. *)
From Coq Require Export List NArith ZArith Bool Lia.
Export ListNotations.
Open Scope N_scope.

Definition byte := N.
Definition bytes := list N.

Definition wf_byte (b : N) : Prop := b < 256.
Definition wf_bytes (bs : bytes) : Prop := Forall wf_byte bs.
Definition wf_byteb (b : N) : bool := b <? 256.
Definition wf_bytesb (bs : bytes) : bool := forallb wf_byteb bs.

Definition len (bs : bytes) : N := N.of_nat (length bs).

Definition zeros (n : nat) : bytes := repeat 0 n.

(* slicing, Go-style bs[a:b] with nat positions *)
Definition take (n : nat) (bs : bytes) : bytes := firstn n bs.
Definition drop (n : nat) (bs : bytes) : bytes := skipn n bs.
Definition sub (off n : nat) (bs : bytes) : bytes := firstn n (skipn off bs).

(* little endian *)
Definition le32 (v : N) : bytes :=
  [v mod 256; (v / 256) mod 256; (v / 65536) mod 256; (v / 16777216) mod 256].
Definition le64 (v : N) : bytes :=
  le32 (v mod 4294967296) ++ le32 (v / 4294967296).

Definition nth0 (n : nat) (bs : bytes) : N := nth n bs 0.

Definition rd32 (bs : bytes) : N :=
  nth0 0 bs + 256 * nth0 1 bs + 65536 * nth0 2 bs + 16777216 * nth0 3 bs.
Definition rd64 (bs : bytes) : N :=
  rd32 bs + 4294967296 * rd32 (skipn 4 bs).

(* big endian 64 (fnv1a.AddUint64 and time.MarshalBinary use big endian) *)
Definition be32 (v : N) : bytes := rev (le32 v).
Definition be64 (v : N) : bytes := rev (le64 v).
Definition rdbe32 (bs : bytes) : N := rd32 (rev (firstn 4 bs)).
Definition rdbe64 (bs : bytes) : N := rd64 (rev (firstn 8 bs)).
Definition be16 (v : N) : bytes := [(v / 256) mod 256; v mod 256].
Definition rdbe16 (bs : bytes) : N := 256 * nth0 0 bs + nth0 1 bs.

Definition two64 : N := 18446744073709551616.
Definition two63 : N := 9223372036854775808.
Definition two32 : N := 4294967296.
Definition two31 : N := 2147483648.
Definition two16 : N := 65536.
Definition two15 : N := 32768.

(* two's complement conversions *)
Definition z_to_u (w : N) (z : Z) : N := Z.to_N (z mod (Z.of_N w)).
Definition u_to_z (w : N) (half : N) (u : N) : Z :=
  if u <? half then Z.of_N u else (Z.of_N u - Z.of_N w)%Z.

(* overwrite bs at offset off with w, zero-extending bs when needed
   (pwrite semantics on a byte array) *)
Fixpoint overwrite (bs : bytes) (off : nat) (w : bytes) : bytes :=
  match off with
  | O => w ++ skipn (length w) bs
  | S o => match bs with
           | [] => 0 :: overwrite [] o w
           | b :: r => b :: overwrite r o w
           end
  end.

Fixpoint beq_bytes (a b : bytes) : bool :=
  match a, b with
  | [], [] => true
  | x :: a', y :: b' => (x =? y) && beq_bytes a' b'
  | _, _ => false
  end.

Fixpoint all_zero (bs : bytes) : bool :=
  match bs with [] => true | b :: r => (b =? 0) && all_zero r end.
