
(** val negb : bool -> bool **)

let negb = function
| true -> false
| false -> true

type nat =
| O
| S of nat

type ('a, 'b) sum =
| Inl of 'a
| Inr of 'b

(** val fst : ('a1 * 'a2) -> 'a1 **)

let fst = function
| (x, _) -> x

(** val snd : ('a1 * 'a2) -> 'a2 **)

let snd = function
| (_, y) -> y

(** val length : 'a1 list -> nat **)

let rec length = function
| [] -> O
| _ :: l' -> S (length l')

(** val app : 'a1 list -> 'a1 list -> 'a1 list **)

let rec app l m =
  match l with
  | [] -> m
  | a :: l1 -> a :: (app l1 m)

type comparison =
| Eq
| Lt
| Gt

(** val compOpp : comparison -> comparison **)

let compOpp = function
| Eq -> Eq
| Lt -> Gt
| Gt -> Lt

module Coq__1 = struct
 (** val add : nat -> nat -> nat **)
 let rec add n0 m =
   match n0 with
   | O -> m
   | S p -> S (add p m)
end
include Coq__1

module Nat =
 struct
  (** val eqb : nat -> nat -> bool **)

  let rec eqb n0 m =
    match n0 with
    | O -> (match m with
            | O -> true
            | S _ -> false)
    | S n' -> (match m with
               | O -> false
               | S m' -> eqb n' m')

  (** val leb : nat -> nat -> bool **)

  let rec leb n0 m =
    match n0 with
    | O -> true
    | S n' -> (match m with
               | O -> false
               | S m' -> leb n' m')
 end

(** val nth : nat -> 'a1 list -> 'a1 -> 'a1 **)

let rec nth n0 l default =
  match n0 with
  | O -> (match l with
          | [] -> default
          | x :: _ -> x)
  | S m -> (match l with
            | [] -> default
            | _ :: t -> nth m t default)

(** val nth_error : 'a1 list -> nat -> 'a1 option **)

let rec nth_error l = function
| O -> (match l with
        | [] -> None
        | x :: _ -> Some x)
| S n1 -> (match l with
           | [] -> None
           | _ :: l0 -> nth_error l0 n1)

(** val remove : ('a1 -> 'a1 -> bool) -> 'a1 -> 'a1 list -> 'a1 list **)

let rec remove eq_dec0 x = function
| [] -> []
| y :: tl ->
  if eq_dec0 x y then remove eq_dec0 x tl else y :: (remove eq_dec0 x tl)

(** val rev : 'a1 list -> 'a1 list **)

let rec rev = function
| [] -> []
| x :: l' -> app (rev l') (x :: [])

(** val rev_append : 'a1 list -> 'a1 list -> 'a1 list **)

let rec rev_append l l' =
  match l with
  | [] -> l'
  | a :: l0 -> rev_append l0 (a :: l')

(** val map : ('a1 -> 'a2) -> 'a1 list -> 'a2 list **)

let rec map f = function
| [] -> []
| a :: t -> (f a) :: (map f t)

(** val flat_map : ('a1 -> 'a2 list) -> 'a1 list -> 'a2 list **)

let rec flat_map f = function
| [] -> []
| x :: t -> app (f x) (flat_map f t)

(** val existsb : ('a1 -> bool) -> 'a1 list -> bool **)

let rec existsb f = function
| [] -> false
| a :: l0 -> (||) (f a) (existsb f l0)

(** val forallb : ('a1 -> bool) -> 'a1 list -> bool **)

let rec forallb f = function
| [] -> true
| a :: l0 -> (&&) (f a) (forallb f l0)

(** val firstn : nat -> 'a1 list -> 'a1 list **)

let rec firstn n0 l =
  match n0 with
  | O -> []
  | S n1 -> (match l with
             | [] -> []
             | a :: l0 -> a :: (firstn n1 l0))

(** val skipn : nat -> 'a1 list -> 'a1 list **)

let rec skipn n0 l =
  match n0 with
  | O -> l
  | S n1 -> (match l with
             | [] -> []
             | _ :: l0 -> skipn n1 l0)

type positive =
| XI of positive
| XO of positive
| XH

type n =
| N0
| Npos of positive

type z =
| Z0
| Zpos of positive
| Zneg of positive

module Pos =
 struct
  type mask =
  | IsNul
  | IsPos of positive
  | IsNeg
 end

module Coq_Pos =
 struct
  (** val succ : positive -> positive **)

  let rec succ = function
  | XI p -> XO (succ p)
  | XO p -> XI p
  | XH -> XO XH

  (** val add : positive -> positive -> positive **)

  let rec add x y =
    match x with
    | XI p ->
      (match y with
       | XI q -> XO (add_carry p q)
       | XO q -> XI (add p q)
       | XH -> XO (succ p))
    | XO p ->
      (match y with
       | XI q -> XI (add p q)
       | XO q -> XO (add p q)
       | XH -> XI p)
    | XH -> (match y with
             | XI q -> XO (succ q)
             | XO q -> XI q
             | XH -> XO XH)

  (** val add_carry : positive -> positive -> positive **)

  and add_carry x y =
    match x with
    | XI p ->
      (match y with
       | XI q -> XI (add_carry p q)
       | XO q -> XO (add_carry p q)
       | XH -> XI (succ p))
    | XO p ->
      (match y with
       | XI q -> XO (add_carry p q)
       | XO q -> XI (add p q)
       | XH -> XO (succ p))
    | XH ->
      (match y with
       | XI q -> XI (succ q)
       | XO q -> XO (succ q)
       | XH -> XI XH)

  (** val pred_double : positive -> positive **)

  let rec pred_double = function
  | XI p -> XI (XO p)
  | XO p -> XI (pred_double p)
  | XH -> XH

  type mask = Pos.mask =
  | IsNul
  | IsPos of positive
  | IsNeg

  (** val succ_double_mask : mask -> mask **)

  let succ_double_mask = function
  | IsNul -> IsPos XH
  | IsPos p -> IsPos (XI p)
  | IsNeg -> IsNeg

  (** val double_mask : mask -> mask **)

  let double_mask = function
  | IsPos p -> IsPos (XO p)
  | x0 -> x0

  (** val double_pred_mask : positive -> mask **)

  let double_pred_mask = function
  | XI p -> IsPos (XO (XO p))
  | XO p -> IsPos (XO (pred_double p))
  | XH -> IsNul

  (** val sub_mask : positive -> positive -> mask **)

  let rec sub_mask x y =
    match x with
    | XI p ->
      (match y with
       | XI q -> double_mask (sub_mask p q)
       | XO q -> succ_double_mask (sub_mask p q)
       | XH -> IsPos (XO p))
    | XO p ->
      (match y with
       | XI q -> succ_double_mask (sub_mask_carry p q)
       | XO q -> double_mask (sub_mask p q)
       | XH -> IsPos (pred_double p))
    | XH -> (match y with
             | XH -> IsNul
             | _ -> IsNeg)

  (** val sub_mask_carry : positive -> positive -> mask **)

  and sub_mask_carry x y =
    match x with
    | XI p ->
      (match y with
       | XI q -> succ_double_mask (sub_mask_carry p q)
       | XO q -> double_mask (sub_mask p q)
       | XH -> IsPos (pred_double p))
    | XO p ->
      (match y with
       | XI q -> double_mask (sub_mask_carry p q)
       | XO q -> succ_double_mask (sub_mask_carry p q)
       | XH -> double_pred_mask p)
    | XH -> IsNeg

  (** val mul : positive -> positive -> positive **)

  let rec mul x y =
    match x with
    | XI p -> add y (XO (mul p y))
    | XO p -> XO (mul p y)
    | XH -> y

  (** val iter : ('a1 -> 'a1) -> 'a1 -> positive -> 'a1 **)

  let rec iter f x = function
  | XI n' -> f (iter f (iter f x n') n')
  | XO n' -> iter f (iter f x n') n'
  | XH -> f x

  (** val pow : positive -> positive -> positive **)

  let pow x =
    iter (mul x) XH

  (** val compare_cont : comparison -> positive -> positive -> comparison **)

  let rec compare_cont r x y =
    match x with
    | XI p ->
      (match y with
       | XI q -> compare_cont r p q
       | XO q -> compare_cont Gt p q
       | XH -> Gt)
    | XO p ->
      (match y with
       | XI q -> compare_cont Lt p q
       | XO q -> compare_cont r p q
       | XH -> Gt)
    | XH -> (match y with
             | XH -> r
             | _ -> Lt)

  (** val compare : positive -> positive -> comparison **)

  let compare =
    compare_cont Eq

  (** val eqb : positive -> positive -> bool **)

  let rec eqb p q =
    match p with
    | XI p0 -> (match q with
                | XI q0 -> eqb p0 q0
                | _ -> false)
    | XO p0 -> (match q with
                | XO q0 -> eqb p0 q0
                | _ -> false)
    | XH -> (match q with
             | XH -> true
             | _ -> false)

  (** val iter_op : ('a1 -> 'a1 -> 'a1) -> positive -> 'a1 -> 'a1 **)

  let rec iter_op op p a =
    match p with
    | XI p0 -> op a (iter_op op p0 (op a a))
    | XO p0 -> iter_op op p0 (op a a)
    | XH -> a

  (** val to_nat : positive -> nat **)

  let to_nat x =
    iter_op Coq__1.add x (S O)

  (** val of_succ_nat : nat -> positive **)

  let rec of_succ_nat = function
  | O -> XH
  | S x -> succ (of_succ_nat x)

  (** val eq_dec : positive -> positive -> bool **)

  let rec eq_dec p x0 =
    match p with
    | XI p0 -> (match x0 with
                | XI p1 -> eq_dec p0 p1
                | _ -> false)
    | XO p0 -> (match x0 with
                | XO p1 -> eq_dec p0 p1
                | _ -> false)
    | XH -> (match x0 with
             | XH -> true
             | _ -> false)
 end

module N =
 struct
  (** val succ_double : n -> n **)

  let succ_double = function
  | N0 -> Npos XH
  | Npos p -> Npos (XI p)

  (** val double : n -> n **)

  let double = function
  | N0 -> N0
  | Npos p -> Npos (XO p)

  (** val add : n -> n -> n **)

  let add n0 m =
    match n0 with
    | N0 -> m
    | Npos p -> (match m with
                 | N0 -> n0
                 | Npos q -> Npos (Coq_Pos.add p q))

  (** val sub : n -> n -> n **)

  let sub n0 m =
    match n0 with
    | N0 -> N0
    | Npos n' ->
      (match m with
       | N0 -> n0
       | Npos m' ->
         (match Coq_Pos.sub_mask n' m' with
          | Coq_Pos.IsPos p -> Npos p
          | _ -> N0))

  (** val mul : n -> n -> n **)

  let mul n0 m =
    match n0 with
    | N0 -> N0
    | Npos p -> (match m with
                 | N0 -> N0
                 | Npos q -> Npos (Coq_Pos.mul p q))

  (** val compare : n -> n -> comparison **)

  let compare n0 m =
    match n0 with
    | N0 -> (match m with
             | N0 -> Eq
             | Npos _ -> Lt)
    | Npos n' -> (match m with
                  | N0 -> Gt
                  | Npos m' -> Coq_Pos.compare n' m')

  (** val eqb : n -> n -> bool **)

  let eqb n0 m =
    match n0 with
    | N0 -> (match m with
             | N0 -> true
             | Npos _ -> false)
    | Npos p -> (match m with
                 | N0 -> false
                 | Npos q -> Coq_Pos.eqb p q)

  (** val leb : n -> n -> bool **)

  let leb x y =
    match compare x y with
    | Gt -> false
    | _ -> true

  (** val ltb : n -> n -> bool **)

  let ltb x y =
    match compare x y with
    | Lt -> true
    | _ -> false

  (** val pow : n -> n -> n **)

  let pow n0 = function
  | N0 -> Npos XH
  | Npos p0 -> (match n0 with
                | N0 -> N0
                | Npos q -> Npos (Coq_Pos.pow q p0))

  (** val pos_div_eucl : positive -> n -> n * n **)

  let rec pos_div_eucl a b =
    match a with
    | XI a' ->
      let (q, r) = pos_div_eucl a' b in
      let r' = succ_double r in
      if leb b r' then ((succ_double q), (sub r' b)) else ((double q), r')
    | XO a' ->
      let (q, r) = pos_div_eucl a' b in
      let r' = double r in
      if leb b r' then ((succ_double q), (sub r' b)) else ((double q), r')
    | XH ->
      (match b with
       | N0 -> (N0, (Npos XH))
       | Npos p -> (match p with
                    | XH -> ((Npos XH), N0)
                    | _ -> (N0, (Npos XH))))

  (** val div_eucl : n -> n -> n * n **)

  let div_eucl a b =
    match a with
    | N0 -> (N0, N0)
    | Npos na -> (match b with
                  | N0 -> (N0, a)
                  | Npos _ -> pos_div_eucl na b)

  (** val div : n -> n -> n **)

  let div a b =
    fst (div_eucl a b)

  (** val modulo : n -> n -> n **)

  let modulo a b =
    snd (div_eucl a b)

  (** val to_nat : n -> nat **)

  let to_nat = function
  | N0 -> O
  | Npos p -> Coq_Pos.to_nat p

  (** val of_nat : nat -> n **)

  let of_nat = function
  | O -> N0
  | S n' -> Npos (Coq_Pos.of_succ_nat n')

  (** val eq_dec : n -> n -> bool **)

  let eq_dec n0 m =
    match n0 with
    | N0 -> (match m with
             | N0 -> true
             | Npos _ -> false)
    | Npos p -> (match m with
                 | N0 -> false
                 | Npos p0 -> Coq_Pos.eq_dec p p0)
 end

module Z =
 struct
  (** val double : z -> z **)

  let double = function
  | Z0 -> Z0
  | Zpos p -> Zpos (XO p)
  | Zneg p -> Zneg (XO p)

  (** val succ_double : z -> z **)

  let succ_double = function
  | Z0 -> Zpos XH
  | Zpos p -> Zpos (XI p)
  | Zneg p -> Zneg (Coq_Pos.pred_double p)

  (** val pred_double : z -> z **)

  let pred_double = function
  | Z0 -> Zneg XH
  | Zpos p -> Zpos (Coq_Pos.pred_double p)
  | Zneg p -> Zneg (XI p)

  (** val pos_sub : positive -> positive -> z **)

  let rec pos_sub x y =
    match x with
    | XI p ->
      (match y with
       | XI q -> double (pos_sub p q)
       | XO q -> succ_double (pos_sub p q)
       | XH -> Zpos (XO p))
    | XO p ->
      (match y with
       | XI q -> pred_double (pos_sub p q)
       | XO q -> double (pos_sub p q)
       | XH -> Zpos (Coq_Pos.pred_double p))
    | XH ->
      (match y with
       | XI q -> Zneg (XO q)
       | XO q -> Zneg (Coq_Pos.pred_double q)
       | XH -> Z0)

  (** val add : z -> z -> z **)

  let add x y =
    match x with
    | Z0 -> y
    | Zpos x' ->
      (match y with
       | Z0 -> x
       | Zpos y' -> Zpos (Coq_Pos.add x' y')
       | Zneg y' -> pos_sub x' y')
    | Zneg x' ->
      (match y with
       | Z0 -> x
       | Zpos y' -> pos_sub y' x'
       | Zneg y' -> Zneg (Coq_Pos.add x' y'))

  (** val opp : z -> z **)

  let opp = function
  | Z0 -> Z0
  | Zpos x0 -> Zneg x0
  | Zneg x0 -> Zpos x0

  (** val sub : z -> z -> z **)

  let sub m n0 =
    add m (opp n0)

  (** val mul : z -> z -> z **)

  let mul x y =
    match x with
    | Z0 -> Z0
    | Zpos x' ->
      (match y with
       | Z0 -> Z0
       | Zpos y' -> Zpos (Coq_Pos.mul x' y')
       | Zneg y' -> Zneg (Coq_Pos.mul x' y'))
    | Zneg x' ->
      (match y with
       | Z0 -> Z0
       | Zpos y' -> Zneg (Coq_Pos.mul x' y')
       | Zneg y' -> Zpos (Coq_Pos.mul x' y'))

  (** val compare : z -> z -> comparison **)

  let compare x y =
    match x with
    | Z0 -> (match y with
             | Z0 -> Eq
             | Zpos _ -> Lt
             | Zneg _ -> Gt)
    | Zpos x' -> (match y with
                  | Zpos y' -> Coq_Pos.compare x' y'
                  | _ -> Gt)
    | Zneg x' ->
      (match y with
       | Zneg y' -> compOpp (Coq_Pos.compare x' y')
       | _ -> Lt)

  (** val leb : z -> z -> bool **)

  let leb x y =
    match compare x y with
    | Gt -> false
    | _ -> true

  (** val ltb : z -> z -> bool **)

  let ltb x y =
    match compare x y with
    | Lt -> true
    | _ -> false

  (** val eqb : z -> z -> bool **)

  let eqb x y =
    match x with
    | Z0 -> (match y with
             | Z0 -> true
             | _ -> false)
    | Zpos p -> (match y with
                 | Zpos q -> Coq_Pos.eqb p q
                 | _ -> false)
    | Zneg p -> (match y with
                 | Zneg q -> Coq_Pos.eqb p q
                 | _ -> false)

  (** val to_nat : z -> nat **)

  let to_nat = function
  | Zpos p -> Coq_Pos.to_nat p
  | _ -> O

  (** val to_N : z -> n **)

  let to_N = function
  | Zpos p -> Npos p
  | _ -> N0

  (** val of_nat : nat -> z **)

  let of_nat = function
  | O -> Z0
  | S n1 -> Zpos (Coq_Pos.of_succ_nat n1)

  (** val of_N : n -> z **)

  let of_N = function
  | N0 -> Z0
  | Npos p -> Zpos p

  (** val pos_div_eucl : positive -> z -> z * z **)

  let rec pos_div_eucl a b =
    match a with
    | XI a' ->
      let (q, r) = pos_div_eucl a' b in
      let r' = add (mul (Zpos (XO XH)) r) (Zpos XH) in
      if ltb r' b
      then ((mul (Zpos (XO XH)) q), r')
      else ((add (mul (Zpos (XO XH)) q) (Zpos XH)), (sub r' b))
    | XO a' ->
      let (q, r) = pos_div_eucl a' b in
      let r' = mul (Zpos (XO XH)) r in
      if ltb r' b
      then ((mul (Zpos (XO XH)) q), r')
      else ((add (mul (Zpos (XO XH)) q) (Zpos XH)), (sub r' b))
    | XH -> if leb (Zpos (XO XH)) b then (Z0, (Zpos XH)) else ((Zpos XH), Z0)

  (** val div_eucl : z -> z -> z * z **)

  let div_eucl a b =
    match a with
    | Z0 -> (Z0, Z0)
    | Zpos a' ->
      (match b with
       | Z0 -> (Z0, a)
       | Zpos _ -> pos_div_eucl a' b
       | Zneg b' ->
         let (q, r) = pos_div_eucl a' (Zpos b') in
         (match r with
          | Z0 -> ((opp q), Z0)
          | _ -> ((opp (add q (Zpos XH))), (add b r))))
    | Zneg a' ->
      (match b with
       | Z0 -> (Z0, a)
       | Zpos _ ->
         let (q, r) = pos_div_eucl a' b in
         (match r with
          | Z0 -> ((opp q), Z0)
          | _ -> ((opp (add q (Zpos XH))), (sub b r)))
       | Zneg b' -> let (q, r) = pos_div_eucl a' (Zpos b') in (q, (opp r)))

  (** val modulo : z -> z -> z **)

  let modulo a b =
    let (_, r) = div_eucl a b in r

  (** val quotrem : z -> z -> z * z **)

  let quotrem a b =
    match a with
    | Z0 -> (Z0, Z0)
    | Zpos a0 ->
      (match b with
       | Z0 -> (Z0, a)
       | Zpos b0 ->
         let (q, r) = N.pos_div_eucl a0 (Npos b0) in ((of_N q), (of_N r))
       | Zneg b0 ->
         let (q, r) = N.pos_div_eucl a0 (Npos b0) in
         ((opp (of_N q)), (of_N r)))
    | Zneg a0 ->
      (match b with
       | Z0 -> (Z0, a)
       | Zpos b0 ->
         let (q, r) = N.pos_div_eucl a0 (Npos b0) in
         ((opp (of_N q)), (opp (of_N r)))
       | Zneg b0 ->
         let (q, r) = N.pos_div_eucl a0 (Npos b0) in
         ((of_N q), (opp (of_N r))))

  (** val quot : z -> z -> z **)

  let quot a b =
    fst (quotrem a b)

  (** val rem : z -> z -> z **)

  let rem a b =
    snd (quotrem a b)
 end

type bytes = n list

(** val len : bytes -> n **)

let len bs =
  N.of_nat (length bs)

(** val le32 : n -> bytes **)

let le32 v =
  (N.modulo v (Npos (XO (XO (XO (XO (XO (XO (XO (XO XH)))))))))) :: (
    (N.modulo (N.div v (Npos (XO (XO (XO (XO (XO (XO (XO (XO XH))))))))))
      (Npos (XO (XO (XO (XO (XO (XO (XO (XO XH)))))))))) :: ((N.modulo
                                                               (N.div v (Npos
                                                                 (XO (XO (XO
                                                                 (XO (XO (XO
                                                                 (XO (XO (XO
                                                                 (XO (XO (XO
                                                                 (XO (XO (XO
                                                                 (XO
                                                                 XH))))))))))))))))))
                                                               (Npos (XO (XO
                                                               (XO (XO (XO
                                                               (XO (XO (XO
                                                               XH)))))))))) :: (
    (N.modulo
      (N.div v (Npos (XO (XO (XO (XO (XO (XO (XO (XO (XO (XO (XO (XO (XO (XO
        (XO (XO (XO (XO (XO (XO (XO (XO (XO (XO XH))))))))))))))))))))))))))
      (Npos (XO (XO (XO (XO (XO (XO (XO (XO XH)))))))))) :: [])))

(** val le64 : n -> bytes **)

let le64 v =
  app
    (le32
      (N.modulo v (Npos (XO (XO (XO (XO (XO (XO (XO (XO (XO (XO (XO (XO (XO
        (XO (XO (XO (XO (XO (XO (XO (XO (XO (XO (XO (XO (XO (XO (XO (XO (XO
        (XO (XO XH)))))))))))))))))))))))))))))))))))
    (le32
      (N.div v (Npos (XO (XO (XO (XO (XO (XO (XO (XO (XO (XO (XO (XO (XO (XO
        (XO (XO (XO (XO (XO (XO (XO (XO (XO (XO (XO (XO (XO (XO (XO (XO (XO
        (XO XH)))))))))))))))))))))))))))))))))))

(** val nth0 : nat -> bytes -> n **)

let nth0 n0 bs =
  nth n0 bs N0

(** val rd32 : bytes -> n **)

let rd32 bs =
  N.add
    (N.add
      (N.add (nth0 O bs)
        (N.mul (Npos (XO (XO (XO (XO (XO (XO (XO (XO XH)))))))))
          (nth0 (S O) bs)))
      (N.mul (Npos (XO (XO (XO (XO (XO (XO (XO (XO (XO (XO (XO (XO (XO (XO
        (XO (XO XH))))))))))))))))) (nth0 (S (S O)) bs)))
    (N.mul (Npos (XO (XO (XO (XO (XO (XO (XO (XO (XO (XO (XO (XO (XO (XO (XO
      (XO (XO (XO (XO (XO (XO (XO (XO (XO XH)))))))))))))))))))))))))
      (nth0 (S (S (S O))) bs))

(** val rd64 : bytes -> n **)

let rd64 bs =
  N.add (rd32 bs)
    (N.mul (Npos (XO (XO (XO (XO (XO (XO (XO (XO (XO (XO (XO (XO (XO (XO (XO
      (XO (XO (XO (XO (XO (XO (XO (XO (XO (XO (XO (XO (XO (XO (XO (XO (XO
      XH))))))))))))))))))))))))))))))))) (rd32 (skipn (S (S (S (S O)))) bs)))

(** val be32 : n -> bytes **)

let be32 v =
  rev (le32 v)

(** val be64 : n -> bytes **)

let be64 v =
  rev (le64 v)

(** val rdbe32 : bytes -> n **)

let rdbe32 bs =
  rd32 (rev (firstn (S (S (S (S O)))) bs))

(** val rdbe64 : bytes -> n **)

let rdbe64 bs =
  rd64 (rev (firstn (S (S (S (S (S (S (S (S O)))))))) bs))

(** val be16 : n -> bytes **)

let be16 v =
  (N.modulo (N.div v (Npos (XO (XO (XO (XO (XO (XO (XO (XO XH)))))))))) (Npos
    (XO (XO (XO (XO (XO (XO (XO (XO XH)))))))))) :: ((N.modulo v (Npos (XO
                                                       (XO (XO (XO (XO (XO
                                                       (XO (XO XH)))))))))) :: [])

(** val rdbe16 : bytes -> n **)

let rdbe16 bs =
  N.add (N.mul (Npos (XO (XO (XO (XO (XO (XO (XO (XO XH))))))))) (nth0 O bs))
    (nth0 (S O) bs)

(** val two64 : n **)

let two64 =
  Npos (XO (XO (XO (XO (XO (XO (XO (XO (XO (XO (XO (XO (XO (XO (XO (XO (XO
    (XO (XO (XO (XO (XO (XO (XO (XO (XO (XO (XO (XO (XO (XO (XO (XO (XO (XO
    (XO (XO (XO (XO (XO (XO (XO (XO (XO (XO (XO (XO (XO (XO (XO (XO (XO (XO
    (XO (XO (XO (XO (XO (XO (XO (XO (XO (XO (XO
    XH))))))))))))))))))))))))))))))))))))))))))))))))))))))))))))))))

(** val two63 : n **)

let two63 =
  Npos (XO (XO (XO (XO (XO (XO (XO (XO (XO (XO (XO (XO (XO (XO (XO (XO (XO
    (XO (XO (XO (XO (XO (XO (XO (XO (XO (XO (XO (XO (XO (XO (XO (XO (XO (XO
    (XO (XO (XO (XO (XO (XO (XO (XO (XO (XO (XO (XO (XO (XO (XO (XO (XO (XO
    (XO (XO (XO (XO (XO (XO (XO (XO (XO (XO
    XH)))))))))))))))))))))))))))))))))))))))))))))))))))))))))))))))

(** val two32 : n **)

let two32 =
  Npos (XO (XO (XO (XO (XO (XO (XO (XO (XO (XO (XO (XO (XO (XO (XO (XO (XO
    (XO (XO (XO (XO (XO (XO (XO (XO (XO (XO (XO (XO (XO (XO (XO
    XH))))))))))))))))))))))))))))))))

(** val two31 : n **)

let two31 =
  Npos (XO (XO (XO (XO (XO (XO (XO (XO (XO (XO (XO (XO (XO (XO (XO (XO (XO
    (XO (XO (XO (XO (XO (XO (XO (XO (XO (XO (XO (XO (XO (XO
    XH)))))))))))))))))))))))))))))))

(** val two16 : n **)

let two16 =
  Npos (XO (XO (XO (XO (XO (XO (XO (XO (XO (XO (XO (XO (XO (XO (XO (XO
    XH))))))))))))))))

(** val two15 : n **)

let two15 =
  Npos (XO (XO (XO (XO (XO (XO (XO (XO (XO (XO (XO (XO (XO (XO (XO
    XH)))))))))))))))

(** val z_to_u : n -> z -> n **)

let z_to_u w z0 =
  Z.to_N (Z.modulo z0 (Z.of_N w))

(** val u_to_z : n -> n -> n -> z **)

let u_to_z w half u =
  if N.ltb u half then Z.of_N u else Z.sub (Z.of_N u) (Z.of_N w)

(** val beq_bytes : bytes -> bytes -> bool **)

let rec beq_bytes a b =
  match a with
  | [] -> (match b with
           | [] -> true
           | _ :: _ -> false)
  | x :: a' ->
    (match b with
     | [] -> false
     | y :: b' -> (&&) (N.eqb x y) (beq_bytes a' b'))

type str = n list

(** val sp : n **)

let sp =
  Npos (XO (XO (XO (XO (XO XH)))))

(** val split_aux : str -> str -> str list **)

let rec split_aux s cur =
  match s with
  | [] -> (rev_append cur []) :: []
  | c :: r ->
    if N.eqb c sp
    then (rev_append cur []) :: (split_aux r [])
    else split_aux r (c :: cur)

(** val tokens : str -> str list **)

let tokens s =
  split_aux s []

(** val hexval : n -> n option **)

let hexval c =
  if (&&) (N.leb (Npos (XO (XO (XO (XO (XI XH)))))) c)
       (N.leb c (Npos (XI (XO (XO (XI (XI XH)))))))
  then Some (N.sub c (Npos (XO (XO (XO (XO (XI XH)))))))
  else if (&&) (N.leb (Npos (XI (XO (XO (XO (XO (XI XH))))))) c)
            (N.leb c (Npos (XO (XI (XI (XO (XO (XI XH))))))))
       then Some (N.sub c (Npos (XI (XI (XI (XO (XI (XO XH))))))))
       else None

(** val hex_to_N_aux : str -> n -> n option **)

let rec hex_to_N_aux s acc =
  match s with
  | [] -> Some acc
  | c :: r ->
    (match hexval c with
     | Some v ->
       hex_to_N_aux r (N.add (N.mul acc (Npos (XO (XO (XO (XO XH)))))) v)
     | None -> None)

(** val hex_to_N : str -> n option **)

let hex_to_N s = match s with
| [] -> None
| _ :: _ -> hex_to_N_aux s N0

(** val hex_to_Z : str -> z option **)

let hex_to_Z s = match s with
| [] -> (match hex_to_N s with
         | Some n0 -> Some (Z.of_N n0)
         | None -> None)
| n0 :: r ->
  (match n0 with
   | N0 -> (match hex_to_N s with
            | Some n1 -> Some (Z.of_N n1)
            | None -> None)
   | Npos p ->
     (match p with
      | XI p0 ->
        (match p0 with
         | XO p1 ->
           (match p1 with
            | XI p2 ->
              (match p2 with
               | XI p3 ->
                 (match p3 with
                  | XO p4 ->
                    (match p4 with
                     | XH ->
                       (match hex_to_N r with
                        | Some n1 -> Some (Z.opp (Z.of_N n1))
                        | None -> None)
                     | _ ->
                       (match hex_to_N s with
                        | Some n1 -> Some (Z.of_N n1)
                        | None -> None))
                  | _ ->
                    (match hex_to_N s with
                     | Some n1 -> Some (Z.of_N n1)
                     | None -> None))
               | _ ->
                 (match hex_to_N s with
                  | Some n1 -> Some (Z.of_N n1)
                  | None -> None))
            | _ ->
              (match hex_to_N s with
               | Some n1 -> Some (Z.of_N n1)
               | None -> None))
         | _ ->
           (match hex_to_N s with
            | Some n1 -> Some (Z.of_N n1)
            | None -> None))
      | _ ->
        (match hex_to_N s with
         | Some n1 -> Some (Z.of_N n1)
         | None -> None)))

(** val hex_to_bytes_aux : str -> bytes option **)

let rec hex_to_bytes_aux = function
| [] -> Some []
| a :: l ->
  (match l with
   | [] -> None
   | b :: r ->
     (match hexval a with
      | Some x ->
        (match hexval b with
         | Some y ->
           (match hex_to_bytes_aux r with
            | Some t ->
              Some ((N.add (N.mul x (Npos (XO (XO (XO (XO XH)))))) y) :: t)
            | None -> None)
         | None -> None)
      | None -> None))

(** val hex_to_bytes : str -> bytes option **)

let hex_to_bytes s = match s with
| [] -> hex_to_bytes_aux s
| n0 :: l ->
  (match n0 with
   | N0 -> hex_to_bytes_aux s
   | Npos p ->
     (match p with
      | XI p0 ->
        (match p0 with
         | XO p1 ->
           (match p1 with
            | XI p2 ->
              (match p2 with
               | XI p3 ->
                 (match p3 with
                  | XO p4 ->
                    (match p4 with
                     | XH ->
                       (match l with
                        | [] -> Some []
                        | _ :: _ -> hex_to_bytes_aux s)
                     | _ -> hex_to_bytes_aux s)
                  | _ -> hex_to_bytes_aux s)
               | _ -> hex_to_bytes_aux s)
            | _ -> hex_to_bytes_aux s)
         | _ -> hex_to_bytes_aux s)
      | _ -> hex_to_bytes_aux s))

(** val hexdigit : n -> n **)

let hexdigit v =
  if N.ltb v (Npos (XO (XI (XO XH))))
  then N.add (Npos (XO (XO (XO (XO (XI XH)))))) v
  else N.add (Npos (XI (XI (XI (XO (XI (XO XH))))))) v

(** val n_to_hex_aux : nat -> n -> str -> str **)

let rec n_to_hex_aux fuel v acc =
  match fuel with
  | O -> acc
  | S f ->
    let acc' = (hexdigit (N.modulo v (Npos (XO (XO (XO (XO XH))))))) :: acc in
    if N.ltb v (Npos (XO (XO (XO (XO XH)))))
    then acc'
    else n_to_hex_aux f (N.div v (Npos (XO (XO (XO (XO XH)))))) acc'

(** val n_to_hex : n -> str **)

let n_to_hex v =
  n_to_hex_aux (S (S (S (S (S (S (S (S (S (S (S (S (S (S (S (S (S (S (S (S (S
    (S (S (S (S (S (S (S (S (S (S (S (S (S (S (S (S (S (S (S (S (S (S (S (S
    (S (S (S (S (S (S (S (S (S (S (S (S (S (S (S (S (S (S (S
    O)))))))))))))))))))))))))))))))))))))))))))))))))))))))))))))))) v []

(** val z_to_hex : z -> str **)

let z_to_hex z0 =
  if Z.ltb z0 Z0
  then (Npos (XI (XO (XI (XI (XO XH)))))) :: (n_to_hex (Z.to_N (Z.opp z0)))
  else n_to_hex (Z.to_N z0)

(** val bytes_to_hex_aux : bytes -> str **)

let rec bytes_to_hex_aux = function
| [] -> []
| b :: r ->
  (hexdigit (N.div b (Npos (XO (XO (XO (XO XH))))))) :: ((hexdigit
                                                           (N.modulo b (Npos
                                                             (XO (XO (XO (XO
                                                             XH))))))) :: 
    (bytes_to_hex_aux r))

(** val bytes_to_hex : bytes -> str **)

let bytes_to_hex bs = match bs with
| [] -> (Npos (XI (XO (XI (XI (XO XH)))))) :: []
| _ :: _ -> bytes_to_hex_aux bs

(** val join : str list -> str **)

let rec join = function
| [] -> []
| x :: r -> (match r with
             | [] -> x
             | _ :: _ -> app x (sp :: (join r)))

(** val s_ok : str **)

let s_ok =
  (Npos (XI (XI (XI (XI (XO (XI XH))))))) :: ((Npos (XI (XI (XO (XI (XO (XI
    XH))))))) :: [])

(** val s_err : str **)

let s_err =
  (Npos (XI (XO (XI (XO (XO (XI XH))))))) :: ((Npos (XO (XI (XO (XO (XI (XI
    XH))))))) :: ((Npos (XO (XI (XO (XO (XI (XI XH))))))) :: []))

(** val s_bad : str **)

let s_bad =
  (Npos (XO (XI (XO (XO (XO (XI XH))))))) :: ((Npos (XI (XO (XO (XO (XO (XI
    XH))))))) :: ((Npos (XO (XO (XI (XO (XO (XI XH))))))) :: ((Npos (XI (XO
    (XO (XI (XO (XI XH))))))) :: ((Npos (XO (XI (XI (XI (XO (XI
    XH))))))) :: ((Npos (XO (XO (XO (XO (XI (XI XH))))))) :: ((Npos (XI (XO
    (XI (XO (XI (XI XH))))))) :: ((Npos (XO (XO (XI (XO (XI (XI
    XH))))))) :: [])))))))

(** val s_utc : str **)

let s_utc =
  (Npos (XI (XO (XI (XO (XI (XI XH))))))) :: ((Npos (XO (XO (XI (XO (XI (XI
    XH))))))) :: ((Npos (XI (XI (XO (XO (XO (XI XH))))))) :: []))

(** val str_eqb : str -> str -> bool **)

let rec str_eqb a b =
  match a with
  | [] -> (match b with
           | [] -> true
           | _ :: _ -> false)
  | x :: a' ->
    (match b with
     | [] -> false
     | y :: b' -> (&&) (N.eqb x y) (str_eqb a' b'))

(** val put_uvarint_aux : nat -> n -> bytes **)

let rec put_uvarint_aux fuel v =
  match fuel with
  | O -> []
  | S f ->
    if N.ltb v (Npos (XO (XO (XO (XO (XO (XO (XO XH))))))))
    then v :: []
    else (N.add (N.modulo v (Npos (XO (XO (XO (XO (XO (XO (XO XH)))))))))
           (Npos (XO (XO (XO (XO (XO (XO (XO XH))))))))) :: (put_uvarint_aux
                                                              f
                                                              (N.div v (Npos
                                                                (XO (XO (XO
                                                                (XO (XO (XO
                                                                (XO
                                                                XH))))))))))

(** val put_uvarint : n -> bytes **)

let put_uvarint v =
  put_uvarint_aux (S (S (S (S (S (S (S (S (S (S O)))))))))) v

(** val get_uvarint_aux : bytes -> nat -> n -> n -> n * z **)

let rec get_uvarint_aux buf i x s =
  match buf with
  | [] -> (N0, Z0)
  | b :: r ->
    if Nat.eqb i (S (S (S (S (S (S (S (S (S (S O))))))))))
    then (N0, (Z.opp (Z.add (Z.of_nat i) (Zpos XH))))
    else if N.ltb b (Npos (XO (XO (XO (XO (XO (XO (XO XH))))))))
         then if (&&) (Nat.eqb i (S (S (S (S (S (S (S (S (S O))))))))))
                   (N.ltb (Npos XH) b)
              then (N0, (Z.opp (Z.add (Z.of_nat i) (Zpos XH))))
              else ((N.modulo (N.add x (N.mul b (N.pow (Npos (XO XH)) s)))
                      two64), (Z.add (Z.of_nat i) (Zpos XH)))
         else get_uvarint_aux r (S i)
                (N.modulo
                  (N.add x
                    (N.mul
                      (N.modulo b (Npos (XO (XO (XO (XO (XO (XO (XO
                        XH))))))))) (N.pow (Npos (XO XH)) s))) two64)
                (N.add s (Npos (XI (XI XH))))

(** val get_uvarint : bytes -> n * z **)

let get_uvarint buf =
  get_uvarint_aux buf O N0 N0

type gotime = { t_sec : z; t_nsec : z; t_zone : z option }

(** val marshal_time : gotime -> bytes option **)

let marshal_time t =
  let hdr = fun version offmin ->
    app ((Z.to_N version) :: [])
      (app (be64 (z_to_u two64 t.t_sec))
        (app (be32 (z_to_u two32 t.t_nsec)) (be16 (z_to_u two16 offmin))))
  in
  (match t.t_zone with
   | Some off ->
     let offsec = Z.rem off (Zpos (XO (XO (XI (XI (XI XH)))))) in
     let offmin = Z.quot off (Zpos (XO (XO (XI (XI (XI XH)))))) in
     if (||)
          ((||)
            (Z.ltb offmin (Zneg (XO (XO (XO (XO (XO (XO (XO (XO (XO (XO (XO
              (XO (XO (XO (XO XH))))))))))))))))) (Z.eqb offmin (Zneg XH)))
          (Z.ltb (Zpos (XI (XI (XI (XI (XI (XI (XI (XI (XI (XI (XI (XI (XI
            (XI XH))))))))))))))) offmin)
     then None
     else if Z.eqb offsec Z0
          then Some (hdr (Zpos XH) offmin)
          else Some
                 (app (hdr (Zpos (XO XH)) offmin)
                   ((z_to_u (Npos (XO (XO (XO (XO (XO (XO (XO (XO XH)))))))))
                      offsec) :: []))
   | None -> Some (hdr (Zpos XH) (Zneg XH)))

(** val unmarshal_time : bytes -> gotime option **)

let unmarshal_time buf = match buf with
| [] -> None
| version :: rest ->
  if negb ((||) (N.eqb version (Npos XH)) (N.eqb version (Npos (XO XH))))
  then None
  else let want =
         if N.eqb version (Npos (XO XH))
         then S (S (S (S (S (S (S (S (S (S (S (S (S (S (S (S O)))))))))))))))
         else S (S (S (S (S (S (S (S (S (S (S (S (S (S (S O))))))))))))))
       in
       if negb (Nat.eqb (length buf) want)
       then None
       else let sec = u_to_z two64 two63 (rdbe64 rest) in
            let nsec =
              u_to_z two32 two31
                (rdbe32 (skipn (S (S (S (S (S (S (S (S O)))))))) rest))
            in
            let offmin =
              u_to_z two16 two15
                (rdbe16
                  (skipn (S (S (S (S (S (S (S (S (S (S (S (S O))))))))))))
                    rest))
            in
            let offs =
              if N.eqb version (Npos (XO XH))
              then Z.of_N
                     (nth0 (S (S (S (S (S (S (S (S (S (S (S (S (S (S
                       O)))))))))))))) rest)
              else Z0
            in
            let off =
              Z.add (Z.mul offmin (Zpos (XO (XO (XI (XI (XI XH))))))) offs
            in
            Some { t_sec = sec; t_nsec = nsec; t_zone =
            (if Z.eqb off (Zneg (XO (XO (XI (XI (XI XH))))))
             then None
             else Some off) }

type log = { l_index : n; l_term : n; l_type : n; l_data : bytes;
             l_ext : bytes; l_time : gotime }

(** val enc_bytes : bytes -> bytes **)

let enc_bytes bs =
  app (put_uvarint (len bs)) bs

(** val encode_log : log -> bytes option **)

let encode_log l =
  match marshal_time l.l_time with
  | Some tb ->
    Some
      (app (put_uvarint l.l_index)
        (app (put_uvarint l.l_term)
          (app (put_uvarint l.l_type)
            (app (enc_bytes l.l_data) (app (enc_bytes l.l_ext) tb)))))
  | None -> None

type 'a dres =
| DOk of 'a * bytes
| DErr

(** val dec_varint : bytes -> n dres **)

let dec_varint buf =
  let (v, n0) = get_uvarint buf in
  if Z.leb n0 Z0 then DErr else DOk (v, (skipn (Z.to_nat n0) buf))

(** val dec_bytes : bytes -> bytes dres **)

let dec_bytes buf =
  match dec_varint buf with
  | DOk (n0, rest) ->
    if N.eqb n0 N0
    then DOk ([], rest)
    else if N.ltb (len rest) n0
         then DErr
         else DOk ((firstn (N.to_nat n0) rest), (skipn (N.to_nat n0) rest))
  | DErr -> DErr

(** val decode_log : bytes -> log option **)

let decode_log buf =
  match dec_varint buf with
  | DOk (idx, r1) ->
    (match dec_varint r1 with
     | DOk (term, r2) ->
       (match dec_varint r2 with
        | DOk (typ, r3) ->
          (match dec_bytes r3 with
           | DOk (data, r4) ->
             (match dec_bytes r4 with
              | DOk (ext, r5) ->
                (match unmarshal_time r5 with
                 | Some t ->
                   Some { l_index = idx; l_term = term; l_type =
                     (N.modulo typ (Npos (XO (XO (XO (XO (XO (XO (XO (XO
                       XH)))))))))); l_data = data; l_ext = ext; l_time = t }
                 | None -> None)
              | DErr -> None)
           | DErr -> None)
        | DErr -> None)
     | DErr -> None)
  | DErr -> None

(** val parse_zone : str -> z option option **)

let parse_zone s =
  if str_eqb s s_utc
  then Some None
  else (match hex_to_Z s with
        | Some z0 -> Some (Some z0)
        | None -> None)

(** val show_zone : z option -> str **)

let show_zone = function
| Some o -> z_to_hex o
| None -> s_utc

(** val parse_log : str list -> log option **)

let parse_log = function
| [] -> None
| i :: l ->
  (match l with
   | [] -> None
   | t :: l0 ->
     (match l0 with
      | [] -> None
      | ty :: l1 ->
        (match l1 with
         | [] -> None
         | d :: l2 ->
           (match l2 with
            | [] -> None
            | e :: l3 ->
              (match l3 with
               | [] -> None
               | sec :: l4 ->
                 (match l4 with
                  | [] -> None
                  | ns :: l5 ->
                    (match l5 with
                     | [] -> None
                     | zn :: l6 ->
                       (match l6 with
                        | [] ->
                          (match hex_to_N i with
                           | Some i0 ->
                             (match hex_to_N t with
                              | Some t0 ->
                                (match hex_to_N ty with
                                 | Some ty0 ->
                                   (match hex_to_bytes d with
                                    | Some d0 ->
                                      (match hex_to_bytes e with
                                       | Some e0 ->
                                         (match hex_to_Z sec with
                                          | Some sec0 ->
                                            (match hex_to_Z ns with
                                             | Some ns0 ->
                                               (match parse_zone zn with
                                                | Some zn0 ->
                                                  Some { l_index = i0;
                                                    l_term = t0; l_type =
                                                    ty0; l_data = d0; l_ext =
                                                    e0; l_time = { t_sec =
                                                    sec0; t_nsec = ns0;
                                                    t_zone = zn0 } }
                                                | None -> None)
                                             | None -> None)
                                          | None -> None)
                                       | None -> None)
                                    | None -> None)
                                 | None -> None)
                              | None -> None)
                           | None -> None)
                        | _ :: _ -> None))))))))

(** val show_log : bool -> log -> str **)

let show_log with_time l =
  join
    (app
      ((n_to_hex l.l_index) :: ((n_to_hex l.l_term) :: ((n_to_hex l.l_type) :: (
      (bytes_to_hex l.l_data) :: ((bytes_to_hex l.l_ext) :: [])))))
      (if with_time
       then (z_to_hex l.l_time.t_sec) :: ((z_to_hex l.l_time.t_nsec) :: (
              (show_zone l.l_time.t_zone) :: []))
       else []))

(** val run_enc : str list -> str **)

let run_enc ts =
  match parse_log ts with
  | Some l ->
    (match encode_log l with
     | Some bs -> bytes_to_hex bs
     | None -> s_err)
  | None -> s_bad

(** val run_dec : str list -> str **)

let run_dec = function
| [] -> s_bad
| h :: l ->
  (match l with
   | [] -> s_bad
   | flag :: l0 ->
     (match l0 with
      | [] ->
        (match hex_to_bytes h with
         | Some bs ->
           (match decode_log bs with
            | Some l1 ->
              join
                (s_ok :: ((show_log
                            (str_eqb flag ((Npos (XO (XI (XI (XO (XI (XI
                              XH))))))) :: [])) l1) :: []))
            | None -> s_err)
         | None -> s_bad)
      | _ :: _ -> s_bad))

type entry = { e_index : n; e_term : n; e_type : n; e_data : bytes;
               e_ext : bytes; e_sec : z; e_nsec : z }

type lstore = { ls_first : n; ls_ents : entry list }

(** val empty_store : lstore **)

let empty_store =
  { ls_first = N0; ls_ents = [] }

(** val ls_len : lstore -> n **)

let ls_len s =
  N.of_nat (length s.ls_ents)

(** val first_index : lstore -> n **)

let first_index s =
  match s.ls_ents with
  | [] -> N0
  | _ :: _ -> s.ls_first

(** val last_index : lstore -> n **)

let last_index s =
  match s.ls_ents with
  | [] -> N0
  | _ :: _ -> N.sub (N.add s.ls_first (ls_len s)) (Npos XH)

(** val get_log : lstore -> n -> entry option **)

let get_log s idx =
  if N.ltb idx s.ls_first
  then None
  else nth_error s.ls_ents (N.to_nat (N.sub idx s.ls_first))

(** val consecutive_from : n -> entry list -> bool **)

let rec consecutive_from i = function
| [] -> true
| e :: r -> (&&) (N.eqb e.e_index i) (consecutive_from (N.add i (Npos XH)) r)

(** val store_logs : lstore -> entry list -> lstore option **)

let store_logs s b = match b with
| [] -> Some s
| e :: _ ->
  (match s.ls_ents with
   | [] ->
     if consecutive_from e.e_index b
     then Some { ls_first = e.e_index; ls_ents = b }
     else None
   | _ :: _ ->
     if (&&) (N.eqb e.e_index (N.add (last_index s) (Npos XH)))
          (consecutive_from e.e_index b)
     then Some { ls_first = s.ls_first; ls_ents = (app s.ls_ents b) }
     else None)

type env = { cancel_at : nat option; get_fail : n option;
             store_fail : nat option; has_progress : bool }

(** val cancelled : env -> nat -> bool **)

let cancelled ev chk =
  match ev.cancel_at with
  | Some k -> Nat.leb k chk
  | None -> false

(** val src_get : env -> lstore -> n -> entry option **)

let src_get ev src idx =
  match ev.get_fail with
  | Some f -> if N.eqb f idx then None else get_log src idx
  | None -> get_log src idx

(** val dst_store : env -> nat -> lstore -> entry list -> lstore option **)

let dst_store ev ncall dst b =
  match ev.store_fail with
  | Some k -> if Nat.eqb k ncall then None else store_logs dst b
  | None -> store_logs dst b

type cres =
| COk
| CCanceled
| CErrFirst
| CErrGet
| CErrStore
| COutOfFuel

type cout = { o_res : cres; o_dst : lstore; o_batches : entry list list;
              o_gets : n }

type cresult = { r_res : cres; r_dst : lstore; r_batches : entry list list;
                 r_gets : n; r_closed : bool }

(** val run_deferred : env -> cout -> cresult **)

let run_deferred ev o =
  { r_res = o.o_res; r_dst = o.o_dst; r_batches = (rev o.o_batches); r_gets =
    o.o_gets; r_closed = ev.has_progress }

(** val ret : cres -> lstore -> entry list list -> n -> cout **)

let ret r dst bs g =
  { o_res = r; o_dst = dst; o_batches = bs; o_gets = g }

(** val flush :
    env -> lstore -> entry list list -> entry list -> (lstore * entry list
    list) option **)

let flush ev dst bs batch_rev =
  let b = rev_append batch_rev [] in
  (match dst_store ev (length bs) dst b with
   | Some d -> Some (d, (b :: bs))
   | None -> None)

(** val copy_loop :
    nat -> env -> lstore -> z -> n -> n -> nat -> entry list -> z -> lstore
    -> entry list list -> n -> cout **)

let rec copy_loop fuel ev src bb last idx chk batch_rev bsize dst bs g =
  match fuel with
  | O -> ret COutOfFuel dst bs g
  | S f ->
    if N.ltb last idx
    then (match batch_rev with
          | [] -> ret COk dst bs g
          | _ :: _ ->
            (match flush ev dst bs batch_rev with
             | Some p -> let (d, bs') = p in ret COk d bs' g
             | None -> ret CErrStore dst bs g))
    else if cancelled ev chk
         then ret CCanceled dst bs g
         else (match src_get ev src idx with
               | Some e ->
                 let batch' = e :: batch_rev in
                 let bsize' =
                   Z.add (Z.add bsize (Z.of_N (len e.e_data))) (Zpos (XO (XO
                     (XO (XO (XO XH))))))
                 in
                 let idx' = N.modulo (N.add idx (Npos XH)) two64 in
                 if Z.leb bb bsize'
                 then (match flush ev dst bs batch' with
                       | Some p ->
                         let (d, bs') = p in
                         copy_loop f ev src bb last idx' (S chk) [] Z0 d bs'
                           (N.add g (Npos XH))
                       | None -> ret CErrStore dst bs (N.add g (Npos XH)))
                 else copy_loop f ev src bb last idx' (S chk) batch' bsize'
                        dst bs (N.add g (Npos XH))
               | None -> ret CErrGet dst bs (N.add g (Npos XH)))

(** val copy_logs_body : env -> z -> lstore -> lstore -> cout **)

let copy_logs_body ev bb src dst =
  let first = first_index src in
  let last = last_index src in
  if (&&) (N.eqb first N0) (N.eqb last N0)
  then ret COk dst [] N0
  else copy_loop (S (S (length src.ls_ents))) ev src bb last first O [] Z0
         dst [] N0

(** val copy_logs : env -> z -> lstore -> lstore -> cresult **)

let copy_logs ev bb src dst =
  run_deferred ev (copy_logs_body ev bb src dst)

(** val indexed_fromb : n -> entry list -> bool **)

let rec indexed_fromb i = function
| [] -> true
| e :: r -> (&&) (N.eqb e.e_index i) (indexed_fromb (N.add i (Npos XH)) r)

(** val wf_storeb : lstore -> bool **)

let wf_storeb s =
  (&&)
    ((&&) (indexed_fromb s.ls_first s.ls_ents)
      (match s.ls_ents with
       | [] -> true
       | _ :: _ -> N.leb (Npos XH) s.ls_first))
    (N.ltb (N.add s.ls_first (ls_len s)) two64)

type sstore = { s_kv : (bytes * bytes) list; s_int : (bytes * n) list }

(** val empty_sstore : sstore **)

let empty_sstore =
  { s_kv = []; s_int = [] }

(** val lookup : bytes -> (bytes * 'a1) list -> 'a1 option **)

let rec lookup k = function
| [] -> None
| p :: r -> let (k', v) = p in if beq_bytes k k' then Some v else lookup k r

(** val s_get : sstore -> bytes -> bytes option **)

let s_get s k =
  lookup k s.s_kv

(** val s_get_int : sstore -> bytes -> n option **)

let s_get_int s k =
  lookup k s.s_int

(** val s_set : sstore -> bytes -> bytes -> sstore **)

let s_set s k v =
  { s_kv = ((k, v) :: s.s_kv); s_int = s.s_int }

(** val s_set_int : sstore -> bytes -> n -> sstore **)

let s_set_int s k v =
  { s_kv = s.s_kv; s_int = ((k, v) :: s.s_int) }

type miss_policy = { miss_get_err : bool; miss_int_err : bool }

type sres =
| SOk
| SCanceled
| SErrGet

(** val k_current_term : bytes **)

let k_current_term =
  (Npos (XI (XI (XO (XO (XO (XO XH))))))) :: ((Npos (XI (XO (XI (XO (XI (XI
    XH))))))) :: ((Npos (XO (XI (XO (XO (XI (XI XH))))))) :: ((Npos (XO (XI
    (XO (XO (XI (XI XH))))))) :: ((Npos (XI (XO (XI (XO (XO (XI
    XH))))))) :: ((Npos (XO (XI (XI (XI (XO (XI XH))))))) :: ((Npos (XO (XO
    (XI (XO (XI (XI XH))))))) :: ((Npos (XO (XO (XI (XO (XI (XO
    XH))))))) :: ((Npos (XI (XO (XI (XO (XO (XI XH))))))) :: ((Npos (XO (XI
    (XO (XO (XI (XI XH))))))) :: ((Npos (XI (XO (XI (XI (XO (XI
    XH))))))) :: []))))))))))

(** val k_last_vote_term : bytes **)

let k_last_vote_term =
  (Npos (XO (XO (XI (XI (XO (XO XH))))))) :: ((Npos (XI (XO (XO (XO (XO (XI
    XH))))))) :: ((Npos (XI (XI (XO (XO (XI (XI XH))))))) :: ((Npos (XO (XO
    (XI (XO (XI (XI XH))))))) :: ((Npos (XO (XI (XI (XO (XI (XO
    XH))))))) :: ((Npos (XI (XI (XI (XI (XO (XI XH))))))) :: ((Npos (XO (XO
    (XI (XO (XI (XI XH))))))) :: ((Npos (XI (XO (XI (XO (XO (XI
    XH))))))) :: ((Npos (XO (XO (XI (XO (XI (XO XH))))))) :: ((Npos (XI (XO
    (XI (XO (XO (XI XH))))))) :: ((Npos (XO (XI (XO (XO (XI (XI
    XH))))))) :: ((Npos (XI (XO (XI (XI (XO (XI XH))))))) :: [])))))))))))

(** val k_last_vote_cand : bytes **)

let k_last_vote_cand =
  (Npos (XO (XO (XI (XI (XO (XO XH))))))) :: ((Npos (XI (XO (XO (XO (XO (XI
    XH))))))) :: ((Npos (XI (XI (XO (XO (XI (XI XH))))))) :: ((Npos (XO (XO
    (XI (XO (XI (XI XH))))))) :: ((Npos (XO (XI (XI (XO (XI (XO
    XH))))))) :: ((Npos (XI (XI (XI (XI (XO (XI XH))))))) :: ((Npos (XO (XO
    (XI (XO (XI (XI XH))))))) :: ((Npos (XI (XO (XI (XO (XO (XI
    XH))))))) :: ((Npos (XI (XI (XO (XO (XO (XO XH))))))) :: ((Npos (XI (XO
    (XO (XO (XO (XI XH))))))) :: ((Npos (XO (XI (XI (XI (XO (XI
    XH))))))) :: ((Npos (XO (XO (XI (XO (XO (XI XH))))))) :: [])))))))))))

(** val known_int_keys : bytes list **)

let known_int_keys =
  k_current_term :: (k_last_vote_term :: [])

(** val known_keys : bytes list **)

let known_keys =
  k_last_vote_cand :: []

type sout = { so_res : sres; so_dst : sstore; so_chk : nat }

(** val copy_int_keys :
    miss_policy -> nat option -> sstore -> bytes list -> nat -> sstore -> sout **)

let rec copy_int_keys pol cancel src ks chk dst =
  match ks with
  | [] -> { so_res = SOk; so_dst = dst; so_chk = chk }
  | k :: r ->
    if match cancel with
       | Some c -> Nat.leb c chk
       | None -> false
    then { so_res = SCanceled; so_dst = dst; so_chk = chk }
    else (match s_get_int src k with
          | Some v ->
            copy_int_keys pol cancel src r (S chk) (s_set_int dst k v)
          | None ->
            if pol.miss_int_err
            then { so_res = SErrGet; so_dst = dst; so_chk = chk }
            else copy_int_keys pol cancel src r (S chk) (s_set_int dst k N0))

(** val copy_keys :
    miss_policy -> nat option -> sstore -> bytes list -> nat -> sstore -> sout **)

let rec copy_keys pol cancel src ks chk dst =
  match ks with
  | [] -> { so_res = SOk; so_dst = dst; so_chk = chk }
  | k :: r ->
    if match cancel with
       | Some c -> Nat.leb c chk
       | None -> false
    then { so_res = SCanceled; so_dst = dst; so_chk = chk }
    else (match s_get src k with
          | Some v -> copy_keys pol cancel src r (S chk) (s_set dst k v)
          | None ->
            if pol.miss_get_err
            then { so_res = SErrGet; so_dst = dst; so_chk = chk }
            else copy_keys pol cancel src r (S chk) (s_set dst k []))

type sresult = { sr_res : sres; sr_dst : sstore; sr_closed : bool }

(** val copy_stable :
    miss_policy -> nat option -> bool -> sstore -> sstore -> bytes list ->
    bytes list -> sresult **)

let copy_stable pol cancel progress src dst extra extra_int =
  let o1 = copy_int_keys pol cancel src (app known_int_keys extra_int) O dst
  in
  let o =
    match o1.so_res with
    | SOk ->
      copy_keys pol cancel src (app known_keys extra) o1.so_chk o1.so_dst
    | _ -> o1
  in
  { sr_res = o.so_res; sr_dst = o.so_dst; sr_closed = progress }

(** val s_canceled : str **)

let s_canceled =
  (Npos (XI (XI (XO (XO (XO (XI XH))))))) :: ((Npos (XI (XO (XO (XO (XO (XI
    XH))))))) :: ((Npos (XO (XI (XI (XI (XO (XI XH))))))) :: ((Npos (XI (XI
    (XO (XO (XO (XI XH))))))) :: ((Npos (XI (XO (XI (XO (XO (XI
    XH))))))) :: ((Npos (XO (XO (XI (XI (XO (XI XH))))))) :: ((Npos (XI (XO
    (XI (XO (XO (XI XH))))))) :: ((Npos (XO (XO (XI (XO (XO (XI
    XH))))))) :: [])))))))

(** val s_errfirst : str **)

let s_errfirst =
  (Npos (XI (XO (XI (XO (XO (XI XH))))))) :: ((Npos (XO (XI (XO (XO (XI (XI
    XH))))))) :: ((Npos (XO (XI (XO (XO (XI (XI XH))))))) :: ((Npos (XO (XI
    (XI (XO (XO (XI XH))))))) :: ((Npos (XI (XO (XO (XI (XO (XI
    XH))))))) :: ((Npos (XO (XI (XO (XO (XI (XI XH))))))) :: ((Npos (XI (XI
    (XO (XO (XI (XI XH))))))) :: ((Npos (XO (XO (XI (XO (XI (XI
    XH))))))) :: [])))))))

(** val s_errget : str **)

let s_errget =
  (Npos (XI (XO (XI (XO (XO (XI XH))))))) :: ((Npos (XO (XI (XO (XO (XI (XI
    XH))))))) :: ((Npos (XO (XI (XO (XO (XI (XI XH))))))) :: ((Npos (XI (XI
    (XI (XO (XO (XI XH))))))) :: ((Npos (XI (XO (XI (XO (XO (XI
    XH))))))) :: ((Npos (XO (XO (XI (XO (XI (XI XH))))))) :: [])))))

(** val s_errstore : str **)

let s_errstore =
  (Npos (XI (XO (XI (XO (XO (XI XH))))))) :: ((Npos (XO (XI (XO (XO (XI (XI
    XH))))))) :: ((Npos (XO (XI (XO (XO (XI (XI XH))))))) :: ((Npos (XI (XI
    (XO (XO (XI (XI XH))))))) :: ((Npos (XO (XO (XI (XO (XI (XI
    XH))))))) :: ((Npos (XI (XI (XI (XI (XO (XI XH))))))) :: ((Npos (XO (XI
    (XO (XO (XI (XI XH))))))) :: ((Npos (XI (XO (XI (XO (XO (XI
    XH))))))) :: [])))))))

(** val s_fuel : str **)

let s_fuel =
  (Npos (XO (XI (XI (XO (XO (XI XH))))))) :: ((Npos (XI (XO (XI (XO (XI (XI
    XH))))))) :: ((Npos (XI (XO (XI (XO (XO (XI XH))))))) :: ((Npos (XO (XO
    (XI (XI (XO (XI XH))))))) :: [])))

(** val s_dash : str **)

let s_dash =
  (Npos (XI (XO (XI (XI (XO XH)))))) :: []

(** val opt_N : str -> n option option **)

let opt_N s =
  if str_eqb s s_dash
  then Some None
  else (match hex_to_N s with
        | Some n0 -> Some (Some n0)
        | None -> None)

(** val opt_nat : str -> nat option option **)

let opt_nat s =
  match opt_N s with
  | Some o ->
    (match o with
     | Some n0 -> Some (Some (N.to_nat n0))
     | None -> Some None)
  | None -> None

(** val parse_bool : str -> bool option **)

let parse_bool = function
| [] -> None
| n0 :: l ->
  (match n0 with
   | N0 -> None
   | Npos p ->
     (match p with
      | XI p0 ->
        (match p0 with
         | XO p1 ->
           (match p1 with
            | XO p2 ->
              (match p2 with
               | XO p3 ->
                 (match p3 with
                  | XI p4 ->
                    (match p4 with
                     | XH -> (match l with
                              | [] -> Some true
                              | _ :: _ -> None)
                     | _ -> None)
                  | _ -> None)
               | _ -> None)
            | _ -> None)
         | _ -> None)
      | XO p0 ->
        (match p0 with
         | XO p1 ->
           (match p1 with
            | XO p2 ->
              (match p2 with
               | XO p3 ->
                 (match p3 with
                  | XI p4 ->
                    (match p4 with
                     | XH -> (match l with
                              | [] -> Some false
                              | _ :: _ -> None)
                     | _ -> None)
                  | _ -> None)
               | _ -> None)
            | _ -> None)
         | _ -> None)
      | XH -> None))

(** val parse_entries : nat -> str list -> entry list option **)

let rec parse_entries fuel ts =
  match fuel with
  | O -> None
  | S f ->
    (match ts with
     | [] -> Some []
     | i :: l ->
       (match l with
        | [] -> None
        | t :: l0 ->
          (match l0 with
           | [] -> None
           | ty :: l1 ->
             (match l1 with
              | [] -> None
              | d :: l2 ->
                (match l2 with
                 | [] -> None
                 | e :: l3 ->
                   (match l3 with
                    | [] -> None
                    | sec :: l4 ->
                      (match l4 with
                       | [] -> None
                       | ns :: rest ->
                         (match hex_to_N i with
                          | Some i0 ->
                            (match hex_to_N t with
                             | Some t0 ->
                               (match hex_to_N ty with
                                | Some ty0 ->
                                  (match hex_to_bytes d with
                                   | Some d0 ->
                                     (match hex_to_bytes e with
                                      | Some e0 ->
                                        (match hex_to_Z sec with
                                         | Some sec0 ->
                                           (match hex_to_Z ns with
                                            | Some ns0 ->
                                              (match parse_entries f rest with
                                               | Some r ->
                                                 Some ({ e_index = i0;
                                                   e_term = t0; e_type = ty0;
                                                   e_data = d0; e_ext = e0;
                                                   e_sec = sec0; e_nsec =
                                                   ns0 } :: r)
                                               | None -> None)
                                            | None -> None)
                                         | None -> None)
                                      | None -> None)
                                   | None -> None)
                                | None -> None)
                             | None -> None)
                          | None -> None))))))))

(** val show_entry : entry -> str list **)

let show_entry e =
  (n_to_hex e.e_index) :: ((n_to_hex e.e_term) :: ((n_to_hex e.e_type) :: (
    (bytes_to_hex e.e_data) :: ((bytes_to_hex e.e_ext) :: ((z_to_hex e.e_sec) :: (
    (z_to_hex e.e_nsec) :: []))))))

(** val show_cres : cres -> str **)

let show_cres = function
| COk -> s_ok
| CCanceled -> s_canceled
| CErrFirst -> s_errfirst
| CErrGet -> s_errget
| CErrStore -> s_errstore
| COutOfFuel -> s_fuel

(** val show_bool : bool -> str **)

let show_bool = function
| true -> (Npos (XI (XO (XO (XO (XI XH)))))) :: []
| false -> (Npos (XO (XO (XO (XO (XI XH)))))) :: []

(** val show_cresult : cresult -> str **)

let show_cresult r =
  join
    (app
      ((show_cres r.r_res) :: ((show_bool r.r_closed) :: ((n_to_hex r.r_gets) :: (
      (n_to_hex (first_index r.r_dst)) :: ((n_to_hex (last_index r.r_dst)) :: (
      (n_to_hex (N.of_nat (length r.r_batches))) :: []))))))
      (app (map (fun b -> n_to_hex (N.of_nat (length b))) r.r_batches)
        (app ((n_to_hex (ls_len r.r_dst)) :: [])
          (flat_map show_entry r.r_dst.ls_ents))))

(** val run_mig : str list -> str **)

let run_mig = function
| [] -> s_bad
| _ :: l ->
  (match l with
   | [] -> s_bad
   | _ :: l0 ->
     (match l0 with
      | [] -> s_bad
      | prog :: l1 ->
        (match l1 with
         | [] -> s_bad
         | bb :: l2 ->
           (match l2 with
            | [] -> s_bad
            | cancel :: l3 ->
              (match l3 with
               | [] -> s_bad
               | gf :: l4 ->
                 (match l4 with
                  | [] -> s_bad
                  | sf :: l5 ->
                    (match l5 with
                     | [] -> s_bad
                     | first :: ents ->
                       (match parse_bool prog with
                        | Some prog0 ->
                          (match hex_to_Z bb with
                           | Some bb0 ->
                             (match opt_nat cancel with
                              | Some cancel0 ->
                                (match opt_N gf with
                                 | Some gf0 ->
                                   (match opt_nat sf with
                                    | Some sf0 ->
                                      (match hex_to_N first with
                                       | Some first0 ->
                                         (match parse_entries (S
                                                  (length ents)) ents with
                                          | Some ents0 ->
                                            let src = { ls_first = first0;
                                              ls_ents = ents0 }
                                            in
                                            if wf_storeb src
                                            then show_cresult
                                                   (copy_logs { cancel_at =
                                                     cancel0; get_fail = gf0;
                                                     store_fail = sf0;
                                                     has_progress = prog0 }
                                                     bb0 src empty_store)
                                            else s_bad
                                          | None -> s_bad)
                                       | None -> s_bad)
                                    | None -> s_bad)
                                 | None -> s_bad)
                              | None -> s_bad)
                           | None -> s_bad)
                        | None -> s_bad))))))))

(** val policy_of : str -> miss_policy option **)

let policy_of = function
| [] -> None
| n0 :: l ->
  (match n0 with
   | N0 -> None
   | Npos p ->
     (match p with
      | XI p0 ->
        (match p0 with
         | XI p1 ->
           (match p1 with
            | XI p2 ->
              (match p2 with
               | XO p3 ->
                 (match p3 with
                  | XI p4 ->
                    (match p4 with
                     | XI p5 ->
                       (match p5 with
                        | XH ->
                          (match l with
                           | [] ->
                             Some { miss_get_err = false; miss_int_err =
                               false }
                           | _ :: _ -> None)
                        | _ -> None)
                     | _ -> None)
                  | _ -> None)
               | _ -> None)
            | _ -> None)
         | XO p1 ->
           (match p1 with
            | XO p2 ->
              (match p2 with
               | XI p3 ->
                 (match p3 with
                  | XO p4 ->
                    (match p4 with
                     | XI p5 ->
                       (match p5 with
                        | XH ->
                          (match l with
                           | [] ->
                             Some { miss_get_err = true; miss_int_err =
                               false }
                           | _ :: _ -> None)
                        | _ -> None)
                     | _ -> None)
                  | _ -> None)
               | _ -> None)
            | _ -> None)
         | XH -> None)
      | XO p0 ->
        (match p0 with
         | XI p1 ->
           (match p1 with
            | XO p2 ->
              (match p2 with
               | XO p3 ->
                 (match p3 with
                  | XO p4 ->
                    (match p4 with
                     | XI p5 ->
                       (match p5 with
                        | XH ->
                          (match l with
                           | [] ->
                             Some { miss_get_err = true; miss_int_err = true }
                           | _ :: _ -> None)
                        | _ -> None)
                     | _ -> None)
                  | _ -> None)
               | _ -> None)
            | _ -> None)
         | _ -> None)
      | XH -> None))

(** val take_keys : nat -> str list -> (bytes list * str list) option **)

let rec take_keys n0 ts =
  match n0 with
  | O -> Some ([], ts)
  | S m ->
    (match ts with
     | [] -> None
     | k :: r ->
       (match hex_to_bytes k with
        | Some k0 ->
          (match take_keys m r with
           | Some p -> let (ks, rest) = p in Some ((k0 :: ks), rest)
           | None -> None)
        | None -> None))

(** val take_kvs :
    nat -> str list -> ((bytes * bytes) list * str list) option **)

let rec take_kvs n0 ts =
  match n0 with
  | O -> Some ([], ts)
  | S m ->
    (match ts with
     | [] -> None
     | k :: l ->
       (match l with
        | [] -> None
        | v :: r ->
          (match hex_to_bytes k with
           | Some k0 ->
             (match hex_to_bytes v with
              | Some v0 ->
                (match take_kvs m r with
                 | Some p ->
                   let (ks, rest) = p in Some (((k0, v0) :: ks), rest)
                 | None -> None)
              | None -> None)
           | None -> None)))

(** val take_ints :
    nat -> str list -> ((bytes * n) list * str list) option **)

let rec take_ints n0 ts =
  match n0 with
  | O -> Some ([], ts)
  | S m ->
    (match ts with
     | [] -> None
     | k :: l ->
       (match l with
        | [] -> None
        | v :: r ->
          (match hex_to_bytes k with
           | Some k0 ->
             (match hex_to_N v with
              | Some v0 ->
                (match take_ints m r with
                 | Some p ->
                   let (ks, rest) = p in Some (((k0, v0) :: ks), rest)
                 | None -> None)
              | None -> None)
           | None -> None)))

(** val count : str list -> (nat * str list) option **)

let count = function
| [] -> None
| c :: r ->
  (match hex_to_N c with
   | Some n0 ->
     if N.ltb n0 (Npos (XO (XO (XO (XO (XO (XO (XO (XO (XO (XO (XO (XO
          XH)))))))))))))
     then Some ((N.to_nat n0), r)
     else None
   | None -> None)

(** val show_sres : sres -> str **)

let show_sres = function
| SOk -> s_ok
| SCanceled -> s_canceled
| SErrGet -> s_errget

(** val show_sresult : sresult -> bytes list -> bytes list -> str **)

let show_sresult r int_keys keys =
  join
    (app ((show_sres r.sr_res) :: ((show_bool r.sr_closed) :: []))
      (app
        (map (fun k ->
          n_to_hex (match s_get_int r.sr_dst k with
                    | Some v -> v
                    | None -> N0)) int_keys)
        (map (fun k ->
          bytes_to_hex (match s_get r.sr_dst k with
                        | Some v -> v
                        | None -> [])) keys)))

(** val run_stb : str list -> str **)

let run_stb = function
| [] -> s_bad
| src :: l ->
  (match l with
   | [] -> s_bad
   | _ :: l0 ->
     (match l0 with
      | [] -> s_bad
      | prog :: l1 ->
        (match l1 with
         | [] -> s_bad
         | cancel :: r0 ->
           (match policy_of src with
            | Some pol ->
              (match parse_bool prog with
               | Some prog0 ->
                 (match opt_nat cancel with
                  | Some cancel0 ->
                    (match count r0 with
                     | Some p ->
                       let (nx, r1) = p in
                       (match take_keys nx r1 with
                        | Some p0 ->
                          let (extra, r2) = p0 in
                          (match count r2 with
                           | Some p1 ->
                             let (nxi, r3) = p1 in
                             (match take_keys nxi r3 with
                              | Some p2 ->
                                let (extra_int, r4) = p2 in
                                (match count r4 with
                                 | Some p3 ->
                                   let (nkv, r5) = p3 in
                                   (match take_kvs nkv r5 with
                                    | Some p4 ->
                                      let (kvs, r6) = p4 in
                                      (match count r6 with
                                       | Some p5 ->
                                         let (nint, r7) = p5 in
                                         (match take_ints nint r7 with
                                          | Some p6 ->
                                            let (ints, l2) = p6 in
                                            (match l2 with
                                             | [] ->
                                               show_sresult
                                                 (copy_stable pol cancel0
                                                   prog0 { s_kv = kvs;
                                                   s_int = ints }
                                                   empty_sstore extra
                                                   extra_int)
                                                 (app known_int_keys
                                                   extra_int)
                                                 (app known_keys extra)
                                             | _ :: _ -> s_bad)
                                          | None -> s_bad)
                                       | None -> s_bad)
                                    | None -> s_bad)
                                 | None -> s_bad)
                              | None -> s_bad)
                           | None -> s_bad)
                        | None -> s_bad)
                     | None -> s_bad)
                  | None -> s_bad)
               | None -> s_bad)
            | None -> s_bad))))

type fname =
| Seg of n
| Meta
| MetaTmp
| Other of n

type mkind =
| MCall
| MAck

type event =
| OpenExcl of fname
| OpenCreat of fname
| OpenW of fname
| Fallocate of fname * n * n * n
| Pwrite of fname * n * n
| Truncate of fname * n
| Fsync of fname
| Fdatasync of fname
| FsyncDir
| Unlink of fname
| Rename of fname * fname
| Close of fname
| Mark of mkind * n * n

type viol =
| VMissingFileFsync
| VMissingDirFsync
| VDeleteNoDirFsync
| VNonExclCreate
| VBadFallocate
| VNotPreallocated
| VSegTruncated
| VSegRenamed
| VUnknownFile
| VMetaNotRenamed
| VMetaTmpNotSynced
| VMetaDirNotSynced
| VMetaNotSynced
| VMetaUnlinked

(** val memb : n -> n list -> bool **)

let memb s l =
  existsb (N.eqb s) l

(** val del : n -> n list -> n list **)

let del s l =
  remove N.eq_dec s l

(** val add0 : n -> n list -> n list **)

let add0 s l =
  if memb s l then l else s :: l

type cst = { known : n list; nofalloc : n list; dirty : n list;
             pendent : n list; written : n list; unl : bool;
             tmp_exists : bool; tmp_dirty : bool; tmp_open : bool;
             tmp_written : bool; meta_exists : bool; meta_dirty : bool;
             ren_pending : bool }

(** val c0 : cst **)

let c0 =
  { known = []; nofalloc = []; dirty = []; pendent = []; written = []; unl =
    false; tmp_exists = false; tmp_dirty = false; tmp_open = false;
    tmp_written = false; meta_exists = false; meta_dirty = false;
    ren_pending = false }

(** val set_segs :
    cst -> n list -> n list -> n list -> n list -> n list -> bool -> cst **)

let set_segs c k nf d p w u =
  { known = k; nofalloc = nf; dirty = d; pendent = p; written = w; unl = u;
    tmp_exists = c.tmp_exists; tmp_dirty = c.tmp_dirty; tmp_open =
    c.tmp_open; tmp_written = c.tmp_written; meta_exists = c.meta_exists;
    meta_dirty = c.meta_dirty; ren_pending = c.ren_pending }

(** val set_meta :
    cst -> bool -> bool -> bool -> bool -> bool -> bool -> bool -> cst **)

let set_meta c te td to0 tw me md rp =
  { known = c.known; nofalloc = c.nofalloc; dirty = c.dirty; pendent =
    c.pendent; written = c.written; unl = c.unl; tmp_exists = te; tmp_dirty =
    td; tmp_open = to0; tmp_written = tw; meta_exists = me; meta_dirty = md;
    ren_pending = rp }

(** val is_nil : n list -> bool **)

let is_nil = function
| [] -> true
| _ :: _ -> false

(** val ack_check : cst -> viol option **)

let ack_check c =
  if negb (is_nil c.dirty)
  then Some VMissingFileFsync
  else if negb (forallb (fun s -> negb (memb s c.written)) c.pendent)
       then Some VMissingDirFsync
       else if c.unl
            then Some VDeleteNoDirFsync
            else if c.ren_pending
                 then Some VMetaDirNotSynced
                 else if c.meta_dirty then Some VMetaNotSynced else None

(** val tmp_write : cst -> (cst, viol) sum **)

let tmp_write c =
  if c.tmp_exists
  then Inl
         (set_meta c true true c.tmp_open true c.meta_exists c.meta_dirty
           c.ren_pending)
  else Inr VUnknownFile

(** val meta_write : cst -> (cst, viol) sum **)

let meta_write c =
  if c.meta_exists
  then Inl
         (set_meta c c.tmp_exists c.tmp_dirty c.tmp_open c.tmp_written true
           true c.ren_pending)
  else Inr VUnknownFile

(** val step : n -> cst -> event -> (cst, viol) sum **)

let step segsize c = function
| OpenExcl n0 ->
  (match n0 with
   | Seg s ->
     if memb s c.known
     then Inr VUnknownFile
     else Inl
            (set_segs c (s :: c.known) (add0 s c.nofalloc) (del s c.dirty)
              (add0 s c.pendent) (del s c.written) c.unl)
   | Meta -> if c.meta_exists then Inl c else Inr VMetaNotRenamed
   | MetaTmp ->
     if c.tmp_exists
     then Inl
            (set_meta c true c.tmp_dirty true c.tmp_written c.meta_exists
              c.meta_dirty c.ren_pending)
     else Inl
            (set_meta c true false true false c.meta_exists c.meta_dirty
              c.ren_pending)
   | Other _ -> Inl c)
| OpenCreat n0 ->
  (match n0 with
   | Seg _ -> Inr VNonExclCreate
   | Meta -> if c.meta_exists then Inl c else Inr VMetaNotRenamed
   | MetaTmp ->
     if c.tmp_exists
     then Inl
            (set_meta c true c.tmp_dirty true c.tmp_written c.meta_exists
              c.meta_dirty c.ren_pending)
     else Inl
            (set_meta c true false true false c.meta_exists c.meta_dirty
              c.ren_pending)
   | Other _ -> Inl c)
| OpenW n0 ->
  (match n0 with
   | Seg s -> if memb s c.known then Inl c else Inr VUnknownFile
   | Meta -> if c.meta_exists then Inl c else Inr VUnknownFile
   | MetaTmp ->
     if c.tmp_exists
     then Inl
            (set_meta c true c.tmp_dirty true c.tmp_written c.meta_exists
              c.meta_dirty c.ren_pending)
     else Inr VUnknownFile
   | Other _ -> Inl c)
| Fallocate (n0, mode, off, len0) ->
  (match n0 with
   | Seg s ->
     if (&&) ((&&) ((&&) (memb s c.nofalloc) (N.eqb mode N0)) (N.eqb off N0))
          (N.eqb len0 segsize)
     then Inl
            (set_segs c c.known (del s c.nofalloc) c.dirty c.pendent
              c.written c.unl)
     else Inr VBadFallocate
   | Meta -> meta_write c
   | MetaTmp -> tmp_write c
   | Other _ -> Inl c)
| Pwrite (n0, _, _) ->
  (match n0 with
   | Seg s ->
     if negb (memb s c.known)
     then Inr VUnknownFile
     else if memb s c.nofalloc
          then Inr VNotPreallocated
          else Inl
                 (set_segs c c.known c.nofalloc (add0 s c.dirty) c.pendent
                   (add0 s c.written) c.unl)
   | Meta -> meta_write c
   | MetaTmp -> tmp_write c
   | Other _ -> Inl c)
| Truncate (n0, _) ->
  (match n0 with
   | Seg _ -> Inr VSegTruncated
   | Meta -> meta_write c
   | MetaTmp -> tmp_write c
   | Other _ -> Inl c)
| Fsync n0 ->
  (match n0 with
   | Seg s ->
     if memb s c.known
     then Inl
            (set_segs c c.known c.nofalloc (del s c.dirty) c.pendent
              c.written c.unl)
     else Inr VUnknownFile
   | Meta ->
     if c.meta_exists
     then Inl
            (set_meta c c.tmp_exists c.tmp_dirty c.tmp_open c.tmp_written
              true false c.ren_pending)
     else Inr VUnknownFile
   | MetaTmp ->
     if c.tmp_exists
     then Inl
            (set_meta c true false c.tmp_open c.tmp_written c.meta_exists
              c.meta_dirty c.ren_pending)
     else Inr VUnknownFile
   | Other _ -> Inl c)
| Fdatasync n0 ->
  (match n0 with
   | Seg s ->
     if memb s c.known
     then Inl
            (set_segs c c.known c.nofalloc (del s c.dirty) c.pendent
              c.written c.unl)
     else Inr VUnknownFile
   | Meta ->
     if c.meta_exists
     then Inl
            (set_meta c c.tmp_exists c.tmp_dirty c.tmp_open c.tmp_written
              true false c.ren_pending)
     else Inr VUnknownFile
   | MetaTmp ->
     if c.tmp_exists
     then Inl
            (set_meta c true false c.tmp_open c.tmp_written c.meta_exists
              c.meta_dirty c.ren_pending)
     else Inr VUnknownFile
   | Other _ -> Inl c)
| FsyncDir ->
  Inl
    (set_meta (set_segs c c.known c.nofalloc c.dirty [] c.written false)
      c.tmp_exists c.tmp_dirty c.tmp_open c.tmp_written c.meta_exists
      c.meta_dirty false)
| Unlink n0 ->
  (match n0 with
   | Seg s ->
     if memb s c.known
     then Inl
            (set_segs c (del s c.known) (del s c.nofalloc) (del s c.dirty)
              (del s c.pendent) (del s c.written) true)
     else Inr VUnknownFile
   | Meta -> Inr VMetaUnlinked
   | MetaTmp ->
     Inl
       (set_meta c false false false false c.meta_exists c.meta_dirty
         c.ren_pending)
   | Other _ -> Inl c)
| Rename (a, b) ->
  (match a with
   | Seg _ -> Inr VSegRenamed
   | Meta ->
     (match b with
      | Seg _ -> Inr VSegRenamed
      | _ -> Inr VMetaNotRenamed)
   | MetaTmp ->
     (match b with
      | Seg _ -> Inr VSegRenamed
      | Meta ->
        if (&&) ((&&) ((&&) c.tmp_exists c.tmp_written) (negb c.tmp_dirty))
             (negb c.tmp_open)
        then Inl (set_meta c false false false false true false true)
        else Inr VMetaTmpNotSynced
      | _ -> Inr VMetaNotRenamed)
   | Other _ ->
     (match b with
      | Seg _ -> Inr VSegRenamed
      | Other _ -> Inl c
      | _ -> Inr VMetaNotRenamed))
| Close n0 ->
  (match n0 with
   | MetaTmp ->
     Inl
       (set_meta c c.tmp_exists c.tmp_dirty false c.tmp_written c.meta_exists
         c.meta_dirty c.ren_pending)
   | _ -> Inl c)
| Mark (k, _, _) ->
  (match k with
   | MCall -> Inl c
   | MAck -> (match ack_check c with
              | Some v -> Inr v
              | None -> Inl c))

(** val check : n -> cst -> nat -> event list -> (cst, nat * viol) sum **)

let rec check segsize c i = function
| [] -> Inl c
| e :: r ->
  (match step segsize c e with
   | Inl c' -> check segsize c' (S i) r
   | Inr v -> Inr (i, v))

(** val final_ok : cst -> bool **)

let final_ok c =
  is_nil c.nofalloc

(** val discipline_res : n -> event list -> (nat * viol) option **)

let discipline_res segsize t =
  match check segsize c0 O t with
  | Inl c -> if final_ok c then None else Some ((length t), VBadFallocate)
  | Inr iv -> Some iv

type fsop =
| FCreate of n
| FOpenWriter of n
| FWrite of n * n * n
| FSync of n
| FClose of n
| FDelete of n
| FMetaInit
| FMetaCommit
| FMark of mkind * n * n

type handles = (n * bool) list

(** val h_get : n -> handles -> bool option **)

let rec h_get s = function
| [] -> None
| p :: r -> let (s', b) = p in if N.eqb s' s then Some b else h_get s r

(** val h_del : n -> handles -> handles **)

let rec h_del s = function
| [] -> []
| p :: r ->
  let (s', b) = p in if N.eqb s' s then h_del s r else (s', b) :: (h_del s r)

(** val h_set : n -> bool -> handles -> handles **)

let h_set s b h =
  (s, b) :: (h_del s h)

(** val meta_init_events : event list **)

let meta_init_events =
  (OpenCreat MetaTmp) :: ((Pwrite (MetaTmp, N0, N0)) :: ((Fdatasync
    MetaTmp) :: ((Close MetaTmp) :: ((Rename (MetaTmp,
    Meta)) :: (FsyncDir :: ((OpenCreat Meta) :: []))))))

(** val meta_commit_events : event list **)

let meta_commit_events =
  (Pwrite (Meta, N0, N0)) :: ((Fdatasync Meta) :: [])

(** val fs_step : n -> handles -> fsop -> event list * handles **)

let fs_step segsize h = function
| FCreate s ->
  (((OpenExcl (Seg s)) :: ((Fallocate ((Seg s), N0, N0, segsize)) :: [])),
    (h_set s false h))
| FOpenWriter s -> (((OpenW (Seg s)) :: []), (h_set s false h))
| FWrite (s, off, len0) -> (((Pwrite ((Seg s), off, len0)) :: []), h)
| FSync s ->
  (match h_get s h with
   | Some b ->
     if b
     then (((Fsync (Seg s)) :: []), h)
     else (((Fsync (Seg s)) :: (FsyncDir :: [])), (h_set s true h))
   | None -> (((Fsync (Seg s)) :: []), h))
| FClose s -> (((Close (Seg s)) :: []), (h_del s h))
| FDelete s -> (((Unlink (Seg s)) :: (FsyncDir :: [])), (h_del s h))
| FMetaInit -> (meta_init_events, h)
| FMetaCommit -> (meta_commit_events, h)
| FMark (k, op, n0) -> (((Mark (k, op, n0)) :: []), h)

(** val fs_trace_from : n -> handles -> fsop list -> event list **)

let rec fs_trace_from segsize h = function
| [] -> []
| o :: r ->
  let (ev, h') = fs_step segsize h o in app ev (fs_trace_from segsize h' r)

(** val fs_trace : n -> fsop list -> event list **)

let fs_trace segsize ops =
  fs_trace_from segsize [] ops

(** val colon : n **)

let colon =
  Npos (XO (XI (XO (XI (XI XH)))))

(** val split_colon_aux : str -> str -> str list **)

let rec split_colon_aux s cur =
  match s with
  | [] -> (rev_append cur []) :: []
  | c :: r ->
    if N.eqb c colon
    then (rev_append cur []) :: (split_colon_aux r [])
    else split_colon_aux r (c :: cur)

(** val fields : str -> str list **)

let fields s =
  split_colon_aux s []

(** val parse_fname : str -> fname option **)

let parse_fname = function
| [] -> None
| n0 :: r ->
  (match n0 with
   | N0 -> None
   | Npos p ->
     (match p with
      | XI p0 ->
        (match p0 with
         | XI p1 ->
           (match p1 with
            | XI p2 ->
              (match p2 with
               | XI p3 ->
                 (match p3 with
                  | XO p4 ->
                    (match p4 with
                     | XI p5 ->
                       (match p5 with
                        | XH ->
                          (match hex_to_N r with
                           | Some n1 -> Some (Other n1)
                           | None -> None)
                        | _ -> None)
                     | _ -> None)
                  | _ -> None)
               | _ -> None)
            | XO p2 ->
              (match p2 with
               | XO p3 ->
                 (match p3 with
                  | XI p4 ->
                    (match p4 with
                     | XI p5 ->
                       (match p5 with
                        | XH ->
                          (match hex_to_N r with
                           | Some n1 -> Some (Seg n1)
                           | None -> None)
                        | _ -> None)
                     | _ -> None)
                  | _ -> None)
               | _ -> None)
            | XH -> None)
         | XO p1 ->
           (match p1 with
            | XI p2 ->
              (match p2 with
               | XI p3 ->
                 (match p3 with
                  | XO p4 ->
                    (match p4 with
                     | XI p5 ->
                       (match p5 with
                        | XH ->
                          (match r with
                           | [] -> Some Meta
                           | _ :: _ -> None)
                        | _ -> None)
                     | _ -> None)
                  | _ -> None)
               | _ -> None)
            | _ -> None)
         | XH -> None)
      | XO p0 ->
        (match p0 with
         | XO p1 ->
           (match p1 with
            | XI p2 ->
              (match p2 with
               | XO p3 ->
                 (match p3 with
                  | XI p4 ->
                    (match p4 with
                     | XI p5 ->
                       (match p5 with
                        | XH ->
                          (match r with
                           | [] -> Some MetaTmp
                           | _ :: _ -> None)
                        | _ -> None)
                     | _ -> None)
                  | _ -> None)
               | _ -> None)
            | _ -> None)
         | _ -> None)
      | XH -> None))

(** val show_fname : fname -> str **)

let show_fname = function
| Seg n0 -> (Npos (XI (XI (XO (XO (XI (XI XH))))))) :: (n_to_hex n0)
| Meta -> (Npos (XI (XO (XI (XI (XO (XI XH))))))) :: []
| MetaTmp -> (Npos (XO (XO (XI (XO (XI (XI XH))))))) :: []
| Other n0 -> (Npos (XI (XI (XI (XI (XO (XI XH))))))) :: (n_to_hex n0)

(** val t_x : str **)

let t_x =
  (Npos (XO (XO (XO (XI (XI (XI XH))))))) :: []

(** val t_c : str **)

let t_c =
  (Npos (XI (XI (XO (XO (XO (XI XH))))))) :: []

(** val t_o : str **)

let t_o =
  (Npos (XI (XI (XI (XI (XO (XI XH))))))) :: []

(** val t_fa : str **)

let t_fa =
  (Npos (XO (XI (XI (XO (XO (XI XH))))))) :: ((Npos (XI (XO (XO (XO (XO (XI
    XH))))))) :: [])

(** val t_w : str **)

let t_w =
  (Npos (XI (XI (XI (XO (XI (XI XH))))))) :: []

(** val t_tr : str **)

let t_tr =
  (Npos (XO (XO (XI (XO (XI (XI XH))))))) :: ((Npos (XO (XI (XO (XO (XI (XI
    XH))))))) :: [])

(** val t_fs : str **)

let t_fs =
  (Npos (XO (XI (XI (XO (XO (XI XH))))))) :: ((Npos (XI (XI (XO (XO (XI (XI
    XH))))))) :: [])

(** val t_fd : str **)

let t_fd =
  (Npos (XO (XI (XI (XO (XO (XI XH))))))) :: ((Npos (XO (XO (XI (XO (XO (XI
    XH))))))) :: [])

(** val t_fD : str **)

let t_fD =
  (Npos (XO (XI (XI (XO (XO (XI XH))))))) :: ((Npos (XO (XO (XI (XO (XO (XO
    XH))))))) :: [])

(** val t_u : str **)

let t_u =
  (Npos (XI (XO (XI (XO (XI (XI XH))))))) :: []

(** val t_r : str **)

let t_r =
  (Npos (XO (XI (XO (XO (XI (XI XH))))))) :: []

(** val t_cl : str **)

let t_cl =
  (Npos (XI (XI (XO (XO (XO (XI XH))))))) :: ((Npos (XO (XO (XI (XI (XO (XI
    XH))))))) :: [])

(** val t_mc : str **)

let t_mc =
  (Npos (XI (XO (XI (XI (XO (XI XH))))))) :: ((Npos (XI (XI (XO (XO (XO (XI
    XH))))))) :: [])

(** val t_ma : str **)

let t_ma =
  (Npos (XI (XO (XI (XI (XO (XI XH))))))) :: ((Npos (XI (XO (XO (XO (XO (XI
    XH))))))) :: [])

(** val parse_event : str -> event option **)

let parse_event tok =
  match fields tok with
  | [] -> None
  | k :: l ->
    (match l with
     | [] -> if str_eqb k t_fD then Some FsyncDir else None
     | a :: l0 ->
       (match l0 with
        | [] ->
          (match parse_fname a with
           | Some f ->
             if str_eqb k t_x
             then Some (OpenExcl f)
             else if str_eqb k t_c
                  then Some (OpenCreat f)
                  else if str_eqb k t_o
                       then Some (OpenW f)
                       else if str_eqb k t_fs
                            then Some (Fsync f)
                            else if str_eqb k t_fd
                                 then Some (Fdatasync f)
                                 else if str_eqb k t_u
                                      then Some (Unlink f)
                                      else if str_eqb k t_cl
                                           then Some (Close f)
                                           else None
           | None -> None)
        | b :: l1 ->
          (match l1 with
           | [] ->
             if str_eqb k t_r
             then (match parse_fname a with
                   | Some f ->
                     (match parse_fname b with
                      | Some g -> Some (Rename (f, g))
                      | None -> None)
                   | None -> None)
             else if str_eqb k t_tr
                  then (match parse_fname a with
                        | Some f ->
                          (match hex_to_N b with
                           | Some n0 -> Some (Truncate (f, n0))
                           | None -> None)
                        | None -> None)
                  else if str_eqb k t_mc
                       then (match hex_to_N a with
                             | Some op ->
                               (match hex_to_N b with
                                | Some n0 -> Some (Mark (MCall, op, n0))
                                | None -> None)
                             | None -> None)
                       else if str_eqb k t_ma
                            then (match hex_to_N a with
                                  | Some op ->
                                    (match hex_to_N b with
                                     | Some n0 -> Some (Mark (MAck, op, n0))
                                     | None -> None)
                                  | None -> None)
                            else None
           | c :: l2 ->
             (match l2 with
              | [] ->
                if str_eqb k t_w
                then (match parse_fname a with
                      | Some f ->
                        (match hex_to_N b with
                         | Some off ->
                           (match hex_to_N c with
                            | Some len0 -> Some (Pwrite (f, off, len0))
                            | None -> None)
                         | None -> None)
                      | None -> None)
                else None
              | d :: l3 ->
                (match l3 with
                 | [] ->
                   if str_eqb k t_fa
                   then (match parse_fname a with
                         | Some f ->
                           (match hex_to_N b with
                            | Some m ->
                              (match hex_to_N c with
                               | Some off ->
                                 (match hex_to_N d with
                                  | Some len0 ->
                                    Some (Fallocate (f, m, off, len0))
                                  | None -> None)
                               | None -> None)
                            | None -> None)
                         | None -> None)
                   else None
                 | _ :: _ -> None)))))

(** val parse_all :
    (str -> 'a1 option) -> str list -> 'a1 list -> 'a1 list option **)

let rec parse_all p ts acc =
  match ts with
  | [] -> Some (rev_append acc [])
  | t :: r ->
    (match p t with
     | Some a -> parse_all p r (a :: acc)
     | None -> None)

(** val jc : str list -> str **)

let rec jc = function
| [] -> []
| x :: r -> (match r with
             | [] -> x
             | _ :: _ -> app x (colon :: (jc r)))

(** val show_event : event -> str **)

let show_event = function
| OpenExcl f -> jc (t_x :: ((show_fname f) :: []))
| OpenCreat f -> jc (t_c :: ((show_fname f) :: []))
| OpenW f -> jc (t_o :: ((show_fname f) :: []))
| Fallocate (f, m, o, l) ->
  jc
    (t_fa :: ((show_fname f) :: ((n_to_hex m) :: ((n_to_hex o) :: ((n_to_hex
                                                                    l) :: [])))))
| Pwrite (f, o, l) ->
  jc (t_w :: ((show_fname f) :: ((n_to_hex o) :: ((n_to_hex l) :: []))))
| Truncate (f, l) -> jc (t_tr :: ((show_fname f) :: ((n_to_hex l) :: [])))
| Fsync f -> jc (t_fs :: ((show_fname f) :: []))
| Fdatasync f -> jc (t_fd :: ((show_fname f) :: []))
| FsyncDir -> t_fD
| Unlink f -> jc (t_u :: ((show_fname f) :: []))
| Rename (a, b) -> jc (t_r :: ((show_fname a) :: ((show_fname b) :: [])))
| Close f -> jc (t_cl :: ((show_fname f) :: []))
| Mark (k, op, n0) ->
  (match k with
   | MCall -> jc (t_mc :: ((n_to_hex op) :: ((n_to_hex n0) :: [])))
   | MAck -> jc (t_ma :: ((n_to_hex op) :: ((n_to_hex n0) :: []))))

(** val show_viol : viol -> str **)

let show_viol = function
| VMissingFileFsync ->
  (Npos (XI (XO (XI (XI (XO (XI XH))))))) :: ((Npos (XI (XO (XO (XI (XO (XI
    XH))))))) :: ((Npos (XI (XI (XO (XO (XI (XI XH))))))) :: ((Npos (XI (XI
    (XO (XO (XI (XI XH))))))) :: ((Npos (XI (XO (XO (XI (XO (XI
    XH))))))) :: ((Npos (XO (XI (XI (XI (XO (XI XH))))))) :: ((Npos (XI (XI
    (XI (XO (XO (XI XH))))))) :: ((Npos (XI (XO (XI (XI (XO
    XH)))))) :: ((Npos (XO (XI (XI (XO (XO (XI XH))))))) :: ((Npos (XI (XO
    (XO (XI (XO (XI XH))))))) :: ((Npos (XO (XO (XI (XI (XO (XI
    XH))))))) :: ((Npos (XI (XO (XI (XO (XO (XI XH))))))) :: ((Npos (XI (XO
    (XI (XI (XO XH)))))) :: ((Npos (XO (XI (XI (XO (XO (XI
    XH))))))) :: ((Npos (XI (XI (XO (XO (XI (XI XH))))))) :: ((Npos (XI (XO
    (XO (XI (XI (XI XH))))))) :: ((Npos (XO (XI (XI (XI (XO (XI
    XH))))))) :: ((Npos (XI (XI (XO (XO (XO (XI
    XH))))))) :: [])))))))))))))))))
| VMissingDirFsync ->
  (Npos (XI (XO (XI (XI (XO (XI XH))))))) :: ((Npos (XI (XO (XO (XI (XO (XI
    XH))))))) :: ((Npos (XI (XI (XO (XO (XI (XI XH))))))) :: ((Npos (XI (XI
    (XO (XO (XI (XI XH))))))) :: ((Npos (XI (XO (XO (XI (XO (XI
    XH))))))) :: ((Npos (XO (XI (XI (XI (XO (XI XH))))))) :: ((Npos (XI (XI
    (XI (XO (XO (XI XH))))))) :: ((Npos (XI (XO (XI (XI (XO
    XH)))))) :: ((Npos (XO (XO (XI (XO (XO (XI XH))))))) :: ((Npos (XI (XO
    (XO (XI (XO (XI XH))))))) :: ((Npos (XO (XI (XO (XO (XI (XI
    XH))))))) :: ((Npos (XI (XO (XI (XI (XO XH)))))) :: ((Npos (XO (XI (XI
    (XO (XO (XI XH))))))) :: ((Npos (XI (XI (XO (XO (XI (XI
    XH))))))) :: ((Npos (XI (XO (XO (XI (XI (XI XH))))))) :: ((Npos (XO (XI
    (XI (XI (XO (XI XH))))))) :: ((Npos (XI (XI (XO (XO (XO (XI
    XH))))))) :: []))))))))))))))))
| VDeleteNoDirFsync ->
  (Npos (XO (XO (XI (XO (XO (XI XH))))))) :: ((Npos (XI (XO (XI (XO (XO (XI
    XH))))))) :: ((Npos (XO (XO (XI (XI (XO (XI XH))))))) :: ((Npos (XI (XO
    (XI (XO (XO (XI XH))))))) :: ((Npos (XO (XO (XI (XO (XI (XI
    XH))))))) :: ((Npos (XI (XO (XI (XO (XO (XI XH))))))) :: ((Npos (XI (XO
    (XI (XI (XO XH)))))) :: ((Npos (XI (XI (XI (XO (XI (XI
    XH))))))) :: ((Npos (XI (XO (XO (XI (XO (XI XH))))))) :: ((Npos (XO (XO
    (XI (XO (XI (XI XH))))))) :: ((Npos (XO (XO (XO (XI (XO (XI
    XH))))))) :: ((Npos (XI (XI (XI (XI (XO (XI XH))))))) :: ((Npos (XI (XO
    (XI (XO (XI (XI XH))))))) :: ((Npos (XO (XO (XI (XO (XI (XI
    XH))))))) :: ((Npos (XI (XO (XI (XI (XO XH)))))) :: ((Npos (XO (XO (XI
    (XO (XO (XI XH))))))) :: ((Npos (XI (XO (XO (XI (XO (XI
    XH))))))) :: ((Npos (XO (XI (XO (XO (XI (XI XH))))))) :: ((Npos (XI (XO
    (XI (XI (XO XH)))))) :: ((Npos (XO (XI (XI (XO (XO (XI
    XH))))))) :: ((Npos (XI (XI (XO (XO (XI (XI XH))))))) :: ((Npos (XI (XO
    (XO (XI (XI (XI XH))))))) :: ((Npos (XO (XI (XI (XI (XO (XI
    XH))))))) :: ((Npos (XI (XI (XO (XO (XO (XI
    XH))))))) :: [])))))))))))))))))))))))
| VNonExclCreate ->
  (Npos (XO (XI (XI (XI (XO (XI XH))))))) :: ((Npos (XI (XI (XI (XI (XO (XI
    XH))))))) :: ((Npos (XO (XI (XI (XI (XO (XI XH))))))) :: ((Npos (XI (XO
    (XI (XI (XO XH)))))) :: ((Npos (XI (XO (XI (XO (XO (XI
    XH))))))) :: ((Npos (XO (XO (XO (XI (XI (XI XH))))))) :: ((Npos (XI (XI
    (XO (XO (XO (XI XH))))))) :: ((Npos (XO (XO (XI (XI (XO (XI
    XH))))))) :: ((Npos (XI (XO (XI (XO (XI (XI XH))))))) :: ((Npos (XI (XI
    (XO (XO (XI (XI XH))))))) :: ((Npos (XI (XO (XO (XI (XO (XI
    XH))))))) :: ((Npos (XO (XI (XI (XO (XI (XI XH))))))) :: ((Npos (XI (XO
    (XI (XO (XO (XI XH))))))) :: ((Npos (XI (XO (XI (XI (XO
    XH)))))) :: ((Npos (XI (XI (XO (XO (XO (XI XH))))))) :: ((Npos (XO (XI
    (XO (XO (XI (XI XH))))))) :: ((Npos (XI (XO (XI (XO (XO (XI
    XH))))))) :: ((Npos (XI (XO (XO (XO (XO (XI XH))))))) :: ((Npos (XO (XO
    (XI (XO (XI (XI XH))))))) :: ((Npos (XI (XO (XI (XO (XO (XI
    XH))))))) :: [])))))))))))))))))))
| VBadFallocate ->
  (Npos (XO (XI (XO (XO (XO (XI XH))))))) :: ((Npos (XI (XO (XO (XO (XO (XI
    XH))))))) :: ((Npos (XO (XO (XI (XO (XO (XI XH))))))) :: ((Npos (XI (XO
    (XI (XI (XO XH)))))) :: ((Npos (XO (XI (XI (XO (XO (XI
    XH))))))) :: ((Npos (XI (XO (XO (XO (XO (XI XH))))))) :: ((Npos (XO (XO
    (XI (XI (XO (XI XH))))))) :: ((Npos (XO (XO (XI (XI (XO (XI
    XH))))))) :: ((Npos (XI (XI (XI (XI (XO (XI XH))))))) :: ((Npos (XI (XI
    (XO (XO (XO (XI XH))))))) :: ((Npos (XI (XO (XO (XO (XO (XI
    XH))))))) :: ((Npos (XO (XO (XI (XO (XI (XI XH))))))) :: ((Npos (XI (XO
    (XI (XO (XO (XI XH))))))) :: []))))))))))))
| VNotPreallocated ->
  (Npos (XO (XI (XI (XI (XO (XI XH))))))) :: ((Npos (XI (XI (XI (XI (XO (XI
    XH))))))) :: ((Npos (XO (XO (XI (XO (XI (XI XH))))))) :: ((Npos (XI (XO
    (XI (XI (XO XH)))))) :: ((Npos (XO (XO (XO (XO (XI (XI
    XH))))))) :: ((Npos (XO (XI (XO (XO (XI (XI XH))))))) :: ((Npos (XI (XO
    (XI (XO (XO (XI XH))))))) :: ((Npos (XI (XO (XO (XO (XO (XI
    XH))))))) :: ((Npos (XO (XO (XI (XI (XO (XI XH))))))) :: ((Npos (XO (XO
    (XI (XI (XO (XI XH))))))) :: ((Npos (XI (XI (XI (XI (XO (XI
    XH))))))) :: ((Npos (XI (XI (XO (XO (XO (XI XH))))))) :: ((Npos (XI (XO
    (XO (XO (XO (XI XH))))))) :: ((Npos (XO (XO (XI (XO (XI (XI
    XH))))))) :: ((Npos (XI (XO (XI (XO (XO (XI XH))))))) :: ((Npos (XO (XO
    (XI (XO (XO (XI XH))))))) :: [])))))))))))))))
| VSegTruncated ->
  (Npos (XI (XI (XO (XO (XI (XI XH))))))) :: ((Npos (XI (XO (XI (XO (XO (XI
    XH))))))) :: ((Npos (XI (XI (XI (XO (XO (XI XH))))))) :: ((Npos (XI (XO
    (XI (XI (XO (XI XH))))))) :: ((Npos (XI (XO (XI (XO (XO (XI
    XH))))))) :: ((Npos (XO (XI (XI (XI (XO (XI XH))))))) :: ((Npos (XO (XO
    (XI (XO (XI (XI XH))))))) :: ((Npos (XI (XO (XI (XI (XO
    XH)))))) :: ((Npos (XO (XO (XI (XO (XI (XI XH))))))) :: ((Npos (XO (XI
    (XO (XO (XI (XI XH))))))) :: ((Npos (XI (XO (XI (XO (XI (XI
    XH))))))) :: ((Npos (XO (XI (XI (XI (XO (XI XH))))))) :: ((Npos (XI (XI
    (XO (XO (XO (XI XH))))))) :: ((Npos (XI (XO (XO (XO (XO (XI
    XH))))))) :: ((Npos (XO (XO (XI (XO (XI (XI XH))))))) :: ((Npos (XI (XO
    (XI (XO (XO (XI XH))))))) :: ((Npos (XO (XO (XI (XO (XO (XI
    XH))))))) :: []))))))))))))))))
| VSegRenamed ->
  (Npos (XI (XI (XO (XO (XI (XI XH))))))) :: ((Npos (XI (XO (XI (XO (XO (XI
    XH))))))) :: ((Npos (XI (XI (XI (XO (XO (XI XH))))))) :: ((Npos (XI (XO
    (XI (XI (XO (XI XH))))))) :: ((Npos (XI (XO (XI (XO (XO (XI
    XH))))))) :: ((Npos (XO (XI (XI (XI (XO (XI XH))))))) :: ((Npos (XO (XO
    (XI (XO (XI (XI XH))))))) :: ((Npos (XI (XO (XI (XI (XO
    XH)))))) :: ((Npos (XO (XI (XO (XO (XI (XI XH))))))) :: ((Npos (XI (XO
    (XI (XO (XO (XI XH))))))) :: ((Npos (XO (XI (XI (XI (XO (XI
    XH))))))) :: ((Npos (XI (XO (XO (XO (XO (XI XH))))))) :: ((Npos (XI (XO
    (XI (XI (XO (XI XH))))))) :: ((Npos (XI (XO (XI (XO (XO (XI
    XH))))))) :: ((Npos (XO (XO (XI (XO (XO (XI XH))))))) :: []))))))))))))))
| VUnknownFile ->
  (Npos (XI (XO (XI (XO (XI (XI XH))))))) :: ((Npos (XO (XI (XI (XI (XO (XI
    XH))))))) :: ((Npos (XI (XI (XO (XI (XO (XI XH))))))) :: ((Npos (XO (XI
    (XI (XI (XO (XI XH))))))) :: ((Npos (XI (XI (XI (XI (XO (XI
    XH))))))) :: ((Npos (XI (XI (XI (XO (XI (XI XH))))))) :: ((Npos (XO (XI
    (XI (XI (XO (XI XH))))))) :: ((Npos (XI (XO (XI (XI (XO
    XH)))))) :: ((Npos (XO (XI (XI (XO (XO (XI XH))))))) :: ((Npos (XI (XO
    (XO (XI (XO (XI XH))))))) :: ((Npos (XO (XO (XI (XI (XO (XI
    XH))))))) :: ((Npos (XI (XO (XI (XO (XO (XI XH))))))) :: [])))))))))))
| VMetaNotRenamed ->
  (Npos (XI (XO (XI (XI (XO (XI XH))))))) :: ((Npos (XI (XO (XI (XO (XO (XI
    XH))))))) :: ((Npos (XO (XO (XI (XO (XI (XI XH))))))) :: ((Npos (XI (XO
    (XO (XO (XO (XI XH))))))) :: ((Npos (XI (XO (XI (XI (XO
    XH)))))) :: ((Npos (XO (XI (XI (XI (XO (XI XH))))))) :: ((Npos (XI (XI
    (XI (XI (XO (XI XH))))))) :: ((Npos (XO (XO (XI (XO (XI (XI
    XH))))))) :: ((Npos (XI (XO (XI (XI (XO XH)))))) :: ((Npos (XO (XI (XO
    (XO (XI (XI XH))))))) :: ((Npos (XI (XO (XI (XO (XO (XI
    XH))))))) :: ((Npos (XO (XI (XI (XI (XO (XI XH))))))) :: ((Npos (XI (XO
    (XO (XO (XO (XI XH))))))) :: ((Npos (XI (XO (XI (XI (XO (XI
    XH))))))) :: ((Npos (XI (XO (XI (XO (XO (XI XH))))))) :: ((Npos (XO (XO
    (XI (XO (XO (XI XH))))))) :: [])))))))))))))))
| VMetaTmpNotSynced ->
  (Npos (XI (XO (XI (XI (XO (XI XH))))))) :: ((Npos (XI (XO (XI (XO (XO (XI
    XH))))))) :: ((Npos (XO (XO (XI (XO (XI (XI XH))))))) :: ((Npos (XI (XO
    (XO (XO (XO (XI XH))))))) :: ((Npos (XI (XO (XI (XI (XO
    XH)))))) :: ((Npos (XO (XO (XI (XO (XI (XI XH))))))) :: ((Npos (XI (XO
    (XI (XI (XO (XI XH))))))) :: ((Npos (XO (XO (XO (XO (XI (XI
    XH))))))) :: ((Npos (XI (XO (XI (XI (XO XH)))))) :: ((Npos (XO (XI (XI
    (XI (XO (XI XH))))))) :: ((Npos (XI (XI (XI (XI (XO (XI
    XH))))))) :: ((Npos (XO (XO (XI (XO (XI (XI XH))))))) :: ((Npos (XI (XO
    (XI (XI (XO XH)))))) :: ((Npos (XI (XI (XO (XO (XI (XI
    XH))))))) :: ((Npos (XI (XO (XO (XI (XI (XI XH))))))) :: ((Npos (XO (XI
    (XI (XI (XO (XI XH))))))) :: ((Npos (XI (XI (XO (XO (XO (XI
    XH))))))) :: ((Npos (XI (XO (XI (XO (XO (XI XH))))))) :: ((Npos (XO (XO
    (XI (XO (XO (XI XH))))))) :: []))))))))))))))))))
| VMetaDirNotSynced ->
  (Npos (XI (XO (XI (XI (XO (XI XH))))))) :: ((Npos (XI (XO (XI (XO (XO (XI
    XH))))))) :: ((Npos (XO (XO (XI (XO (XI (XI XH))))))) :: ((Npos (XI (XO
    (XO (XO (XO (XI XH))))))) :: ((Npos (XI (XO (XI (XI (XO
    XH)))))) :: ((Npos (XO (XO (XI (XO (XO (XI XH))))))) :: ((Npos (XI (XO
    (XO (XI (XO (XI XH))))))) :: ((Npos (XO (XI (XO (XO (XI (XI
    XH))))))) :: ((Npos (XI (XO (XI (XI (XO XH)))))) :: ((Npos (XO (XI (XI
    (XI (XO (XI XH))))))) :: ((Npos (XI (XI (XI (XI (XO (XI
    XH))))))) :: ((Npos (XO (XO (XI (XO (XI (XI XH))))))) :: ((Npos (XI (XO
    (XI (XI (XO XH)))))) :: ((Npos (XI (XI (XO (XO (XI (XI
    XH))))))) :: ((Npos (XI (XO (XO (XI (XI (XI XH))))))) :: ((Npos (XO (XI
    (XI (XI (XO (XI XH))))))) :: ((Npos (XI (XI (XO (XO (XO (XI
    XH))))))) :: ((Npos (XI (XO (XI (XO (XO (XI XH))))))) :: ((Npos (XO (XO
    (XI (XO (XO (XI XH))))))) :: []))))))))))))))))))
| VMetaNotSynced ->
  (Npos (XI (XO (XI (XI (XO (XI XH))))))) :: ((Npos (XI (XO (XI (XO (XO (XI
    XH))))))) :: ((Npos (XO (XO (XI (XO (XI (XI XH))))))) :: ((Npos (XI (XO
    (XO (XO (XO (XI XH))))))) :: ((Npos (XI (XO (XI (XI (XO
    XH)))))) :: ((Npos (XO (XI (XI (XI (XO (XI XH))))))) :: ((Npos (XI (XI
    (XI (XI (XO (XI XH))))))) :: ((Npos (XO (XO (XI (XO (XI (XI
    XH))))))) :: ((Npos (XI (XO (XI (XI (XO XH)))))) :: ((Npos (XI (XI (XO
    (XO (XI (XI XH))))))) :: ((Npos (XI (XO (XO (XI (XI (XI
    XH))))))) :: ((Npos (XO (XI (XI (XI (XO (XI XH))))))) :: ((Npos (XI (XI
    (XO (XO (XO (XI XH))))))) :: ((Npos (XI (XO (XI (XO (XO (XI
    XH))))))) :: ((Npos (XO (XO (XI (XO (XO (XI XH))))))) :: []))))))))))))))
| VMetaUnlinked ->
  (Npos (XI (XO (XI (XI (XO (XI XH))))))) :: ((Npos (XI (XO (XI (XO (XO (XI
    XH))))))) :: ((Npos (XO (XO (XI (XO (XI (XI XH))))))) :: ((Npos (XI (XO
    (XO (XO (XO (XI XH))))))) :: ((Npos (XI (XO (XI (XI (XO
    XH)))))) :: ((Npos (XI (XO (XI (XO (XI (XI XH))))))) :: ((Npos (XO (XI
    (XI (XI (XO (XI XH))))))) :: ((Npos (XO (XO (XI (XI (XO (XI
    XH))))))) :: ((Npos (XI (XO (XO (XI (XO (XI XH))))))) :: ((Npos (XO (XI
    (XI (XI (XO (XI XH))))))) :: ((Npos (XI (XI (XO (XI (XO (XI
    XH))))))) :: ((Npos (XI (XO (XI (XO (XO (XI XH))))))) :: ((Npos (XO (XO
    (XI (XO (XO (XI XH))))))) :: []))))))))))))

(** val s_viol : str **)

let s_viol =
  (Npos (XO (XI (XI (XO (XI (XI XH))))))) :: ((Npos (XI (XO (XO (XI (XO (XI
    XH))))))) :: ((Npos (XI (XI (XI (XI (XO (XI XH))))))) :: ((Npos (XO (XO
    (XI (XI (XO (XI XH))))))) :: [])))

(** val run_fst : str list -> str **)

let run_fst = function
| [] -> s_bad
| seg :: evs ->
  (match hex_to_N seg with
   | Some seg0 ->
     (match parse_all parse_event evs [] with
      | Some t ->
        (match discipline_res seg0 t with
         | Some p ->
           let (i, v) = p in
           join (s_viol :: ((n_to_hex (N.of_nat i)) :: ((show_viol v) :: [])))
         | None -> s_ok)
      | None -> s_bad)
   | None -> s_bad)

(** val t_cr : str **)

let t_cr =
  (Npos (XI (XI (XO (XO (XO (XI XH))))))) :: ((Npos (XO (XI (XO (XO (XI (XI
    XH))))))) :: [])

(** val t_ow : str **)

let t_ow =
  (Npos (XI (XI (XI (XI (XO (XI XH))))))) :: ((Npos (XI (XI (XI (XO (XI (XI
    XH))))))) :: [])

(** val t_wr : str **)

let t_wr =
  (Npos (XI (XI (XI (XO (XI (XI XH))))))) :: ((Npos (XO (XI (XO (XO (XI (XI
    XH))))))) :: [])

(** val t_sy : str **)

let t_sy =
  (Npos (XI (XI (XO (XO (XI (XI XH))))))) :: ((Npos (XI (XO (XO (XI (XI (XI
    XH))))))) :: [])

(** val t_de : str **)

let t_de =
  (Npos (XO (XO (XI (XO (XO (XI XH))))))) :: ((Npos (XI (XO (XI (XO (XO (XI
    XH))))))) :: [])

(** val t_mi : str **)

let t_mi =
  (Npos (XI (XO (XI (XI (XO (XI XH))))))) :: ((Npos (XI (XO (XO (XI (XO (XI
    XH))))))) :: [])

(** val parse_fsop : str -> fsop option **)

let parse_fsop tok =
  match fields tok with
  | [] -> None
  | k :: l ->
    (match l with
     | [] ->
       if str_eqb k t_mi
       then Some FMetaInit
       else if str_eqb k t_mc then Some FMetaCommit else None
     | a :: l0 ->
       (match l0 with
        | [] ->
          (match hex_to_N a with
           | Some s ->
             if str_eqb k t_cr
             then Some (FCreate s)
             else if str_eqb k t_ow
                  then Some (FOpenWriter s)
                  else if str_eqb k t_sy
                       then Some (FSync s)
                       else if str_eqb k t_cl
                            then Some (FClose s)
                            else if str_eqb k t_de
                                 then Some (FDelete s)
                                 else None
           | None -> None)
        | b :: l1 ->
          (match l1 with
           | [] -> None
           | c :: l2 ->
             (match l2 with
              | [] ->
                if str_eqb k t_wr
                then (match hex_to_N a with
                      | Some s ->
                        (match hex_to_N b with
                         | Some off ->
                           (match hex_to_N c with
                            | Some len0 -> Some (FWrite (s, off, len0))
                            | None -> None)
                         | None -> None)
                      | None -> None)
                else None
              | _ :: _ -> None))))

(** val s_dash1 : str **)

let s_dash1 =
  (Npos (XI (XO (XI (XI (XO XH)))))) :: []

(** val run_fso : str list -> str **)

let run_fso = function
| [] -> s_bad
| seg :: ops ->
  (match hex_to_N seg with
   | Some seg0 ->
     (match parse_all parse_fsop ops [] with
      | Some ops0 ->
        (match fs_trace seg0 ops0 with
         | [] -> s_dash1
         | e :: l -> join (map show_event (e :: l)))
      | None -> s_bad)
   | None -> s_bad)

(** val k_enc : str **)

let k_enc =
  (Npos (XI (XO (XI (XO (XO (XI XH))))))) :: ((Npos (XO (XI (XI (XI (XO (XI
    XH))))))) :: ((Npos (XI (XI (XO (XO (XO (XI XH))))))) :: []))

(** val k_dec : str **)

let k_dec =
  (Npos (XO (XO (XI (XO (XO (XI XH))))))) :: ((Npos (XI (XO (XI (XO (XO (XI
    XH))))))) :: ((Npos (XI (XI (XO (XO (XO (XI XH))))))) :: []))

(** val k_mig : str **)

let k_mig =
  (Npos (XI (XO (XI (XI (XO (XI XH))))))) :: ((Npos (XI (XO (XO (XI (XO (XI
    XH))))))) :: ((Npos (XI (XI (XI (XO (XO (XI XH))))))) :: []))

(** val k_stb : str **)

let k_stb =
  (Npos (XI (XI (XO (XO (XI (XI XH))))))) :: ((Npos (XO (XO (XI (XO (XI (XI
    XH))))))) :: ((Npos (XO (XI (XO (XO (XO (XI XH))))))) :: []))

(** val k_fst : str **)

let k_fst =
  (Npos (XO (XI (XI (XO (XO (XI XH))))))) :: ((Npos (XI (XI (XO (XO (XI (XI
    XH))))))) :: ((Npos (XO (XO (XI (XO (XI (XI XH))))))) :: []))

(** val k_fso : str **)

let k_fso =
  (Npos (XO (XI (XI (XO (XO (XI XH))))))) :: ((Npos (XI (XI (XO (XO (XI (XI
    XH))))))) :: ((Npos (XI (XI (XI (XI (XO (XI XH))))))) :: []))

(** val run_line : str -> str **)

let run_line line =
  match tokens line with
  | [] -> s_bad
  | cmd :: args ->
    if str_eqb cmd k_enc
    then run_enc args
    else if str_eqb cmd k_dec
         then run_dec args
         else if str_eqb cmd k_mig
              then run_mig args
              else if str_eqb cmd k_stb
                   then run_stb args
                   else if str_eqb cmd k_fst
                        then run_fst args
                        else if str_eqb cmd k_fso then run_fso args else s_bad
