
(** val negb : bool -> bool **)

let negb = function
| true -> false
| false -> true

type nat =
| O
| S of nat

(** val fst : ('a1 * 'a2) -> 'a1 **)

let fst = function
| (x, _) -> x

(** val snd : ('a1 * 'a2) -> 'a2 **)

let snd = function
| (_, y) -> y

(** val length : 'a1 list -> nat **)

let rec length = function
| [] -> O
| _ :: l' -> S (length l')

(** val app : 'a1 list -> 'a1 list -> 'a1 list **)

let rec app l m =
  match l with
  | [] -> m
  | a :: l1 -> a :: (app l1 m)

type comparison =
| Eq
| Lt
| Gt

(** val compOpp : comparison -> comparison **)

let compOpp = function
| Eq -> Eq
| Lt -> Gt
| Gt -> Lt

module Coq__1 = struct
 (** val add : nat -> nat -> nat **)
 let rec add n0 m =
   match n0 with
   | O -> m
   | S p -> S (add p m)
end
include Coq__1

(** val sub : nat -> nat -> nat **)

let rec sub n0 m =
  match n0 with
  | O -> n0
  | S k -> (match m with
            | O -> n0
            | S l -> sub k l)

module Nat =
 struct
  (** val eqb : nat -> nat -> bool **)

  let rec eqb n0 m =
    match n0 with
    | O -> (match m with
            | O -> true
            | S _ -> false)
    | S n' -> (match m with
               | O -> false
               | S m' -> eqb n' m')

  (** val leb : nat -> nat -> bool **)

  let rec leb n0 m =
    match n0 with
    | O -> true
    | S n' -> (match m with
               | O -> false
               | S m' -> leb n' m')

  (** val ltb : nat -> nat -> bool **)

  let ltb n0 m =
    leb (S n0) m

  (** val max : nat -> nat -> nat **)

  let rec max n0 m =
    match n0 with
    | O -> m
    | S n' -> (match m with
               | O -> n0
               | S m' -> S (max n' m'))

  (** val divmod : nat -> nat -> nat -> nat -> nat * nat **)

  let rec divmod x y q u =
    match x with
    | O -> (q, u)
    | S x' ->
      (match u with
       | O -> divmod x' y (S q) y
       | S u' -> divmod x' y q u')

  (** val div : nat -> nat -> nat **)

  let div x y = match y with
  | O -> y
  | S y' -> fst (divmod x y' O y')
 end

(** val nth : nat -> 'a1 list -> 'a1 -> 'a1 **)

let rec nth n0 l default =
  match n0 with
  | O -> (match l with
          | [] -> default
          | x :: _ -> x)
  | S m -> (match l with
            | [] -> default
            | _ :: t -> nth m t default)

(** val nth_error : 'a1 list -> nat -> 'a1 option **)

let rec nth_error l = function
| O -> (match l with
        | [] -> None
        | x :: _ -> Some x)
| S n1 -> (match l with
           | [] -> None
           | _ :: l0 -> nth_error l0 n1)

(** val last : 'a1 list -> 'a1 -> 'a1 **)

let rec last l d =
  match l with
  | [] -> d
  | a :: l0 -> (match l0 with
                | [] -> a
                | _ :: _ -> last l0 d)

(** val rev : 'a1 list -> 'a1 list **)

let rec rev = function
| [] -> []
| x :: l' -> app (rev l') (x :: [])

(** val rev_append : 'a1 list -> 'a1 list -> 'a1 list **)

let rec rev_append l l' =
  match l with
  | [] -> l'
  | a :: l0 -> rev_append l0 (a :: l')

(** val map : ('a1 -> 'a2) -> 'a1 list -> 'a2 list **)

let rec map f = function
| [] -> []
| a :: t -> (f a) :: (map f t)

(** val flat_map : ('a1 -> 'a2 list) -> 'a1 list -> 'a2 list **)

let rec flat_map f = function
| [] -> []
| x :: t -> app (f x) (flat_map f t)

(** val fold_left : ('a1 -> 'a2 -> 'a1) -> 'a2 list -> 'a1 -> 'a1 **)

let rec fold_left f l a0 =
  match l with
  | [] -> a0
  | b :: t -> fold_left f t (f a0 b)

(** val fold_right : ('a2 -> 'a1 -> 'a1) -> 'a1 -> 'a2 list -> 'a1 **)

let rec fold_right f a0 = function
| [] -> a0
| b :: t -> f b (fold_right f a0 t)

(** val existsb : ('a1 -> bool) -> 'a1 list -> bool **)

let rec existsb f = function
| [] -> false
| a :: l0 -> (||) (f a) (existsb f l0)

(** val filter : ('a1 -> bool) -> 'a1 list -> 'a1 list **)

let rec filter f = function
| [] -> []
| x :: l0 -> if f x then x :: (filter f l0) else filter f l0

(** val firstn : nat -> 'a1 list -> 'a1 list **)

let rec firstn n0 l =
  match n0 with
  | O -> []
  | S n1 -> (match l with
             | [] -> []
             | a :: l0 -> a :: (firstn n1 l0))

(** val skipn : nat -> 'a1 list -> 'a1 list **)

let rec skipn n0 l =
  match n0 with
  | O -> l
  | S n1 -> (match l with
             | [] -> []
             | _ :: l0 -> skipn n1 l0)

(** val repeat : 'a1 -> nat -> 'a1 list **)

let rec repeat x = function
| O -> []
| S k -> x :: (repeat x k)

type positive =
| XI of positive
| XO of positive
| XH

type n =
| N0
| Npos of positive

type z =
| Z0
| Zpos of positive
| Zneg of positive

module Pos =
 struct
  type mask =
  | IsNul
  | IsPos of positive
  | IsNeg
 end

module Coq_Pos =
 struct
  (** val succ : positive -> positive **)

  let rec succ = function
  | XI p -> XO (succ p)
  | XO p -> XI p
  | XH -> XO XH

  (** val add : positive -> positive -> positive **)

  let rec add x y =
    match x with
    | XI p ->
      (match y with
       | XI q -> XO (add_carry p q)
       | XO q -> XI (add p q)
       | XH -> XO (succ p))
    | XO p ->
      (match y with
       | XI q -> XI (add p q)
       | XO q -> XO (add p q)
       | XH -> XI p)
    | XH -> (match y with
             | XI q -> XO (succ q)
             | XO q -> XI q
             | XH -> XO XH)

  (** val add_carry : positive -> positive -> positive **)

  and add_carry x y =
    match x with
    | XI p ->
      (match y with
       | XI q -> XI (add_carry p q)
       | XO q -> XO (add_carry p q)
       | XH -> XI (succ p))
    | XO p ->
      (match y with
       | XI q -> XO (add_carry p q)
       | XO q -> XI (add p q)
       | XH -> XO (succ p))
    | XH ->
      (match y with
       | XI q -> XI (succ q)
       | XO q -> XO (succ q)
       | XH -> XI XH)

  (** val pred_double : positive -> positive **)

  let rec pred_double = function
  | XI p -> XI (XO p)
  | XO p -> XI (pred_double p)
  | XH -> XH

  type mask = Pos.mask =
  | IsNul
  | IsPos of positive
  | IsNeg

  (** val succ_double_mask : mask -> mask **)

  let succ_double_mask = function
  | IsNul -> IsPos XH
  | IsPos p -> IsPos (XI p)
  | IsNeg -> IsNeg

  (** val double_mask : mask -> mask **)

  let double_mask = function
  | IsPos p -> IsPos (XO p)
  | x0 -> x0

  (** val double_pred_mask : positive -> mask **)

  let double_pred_mask = function
  | XI p -> IsPos (XO (XO p))
  | XO p -> IsPos (XO (pred_double p))
  | XH -> IsNul

  (** val sub_mask : positive -> positive -> mask **)

  let rec sub_mask x y =
    match x with
    | XI p ->
      (match y with
       | XI q -> double_mask (sub_mask p q)
       | XO q -> succ_double_mask (sub_mask p q)
       | XH -> IsPos (XO p))
    | XO p ->
      (match y with
       | XI q -> succ_double_mask (sub_mask_carry p q)
       | XO q -> double_mask (sub_mask p q)
       | XH -> IsPos (pred_double p))
    | XH -> (match y with
             | XH -> IsNul
             | _ -> IsNeg)

  (** val sub_mask_carry : positive -> positive -> mask **)

  and sub_mask_carry x y =
    match x with
    | XI p ->
      (match y with
       | XI q -> succ_double_mask (sub_mask_carry p q)
       | XO q -> double_mask (sub_mask p q)
       | XH -> IsPos (pred_double p))
    | XO p ->
      (match y with
       | XI q -> double_mask (sub_mask_carry p q)
       | XO q -> succ_double_mask (sub_mask_carry p q)
       | XH -> double_pred_mask p)
    | XH -> IsNeg

  (** val mul : positive -> positive -> positive **)

  let rec mul x y =
    match x with
    | XI p -> add y (XO (mul p y))
    | XO p -> XO (mul p y)
    | XH -> y

  (** val iter : ('a1 -> 'a1) -> 'a1 -> positive -> 'a1 **)

  let rec iter f x = function
  | XI n' -> f (iter f (iter f x n') n')
  | XO n' -> iter f (iter f x n') n'
  | XH -> f x

  (** val pow : positive -> positive -> positive **)

  let pow x =
    iter (mul x) XH

  (** val compare_cont : comparison -> positive -> positive -> comparison **)

  let rec compare_cont r x y =
    match x with
    | XI p ->
      (match y with
       | XI q -> compare_cont r p q
       | XO q -> compare_cont Gt p q
       | XH -> Gt)
    | XO p ->
      (match y with
       | XI q -> compare_cont Lt p q
       | XO q -> compare_cont r p q
       | XH -> Gt)
    | XH -> (match y with
             | XH -> r
             | _ -> Lt)

  (** val compare : positive -> positive -> comparison **)

  let compare =
    compare_cont Eq

  (** val eqb : positive -> positive -> bool **)

  let rec eqb p q =
    match p with
    | XI p0 -> (match q with
                | XI q0 -> eqb p0 q0
                | _ -> false)
    | XO p0 -> (match q with
                | XO q0 -> eqb p0 q0
                | _ -> false)
    | XH -> (match q with
             | XH -> true
             | _ -> false)

  (** val coq_Nsucc_double : n -> n **)

  let coq_Nsucc_double = function
  | N0 -> Npos XH
  | Npos p -> Npos (XI p)

  (** val coq_Ndouble : n -> n **)

  let coq_Ndouble = function
  | N0 -> N0
  | Npos p -> Npos (XO p)

  (** val coq_lxor : positive -> positive -> n **)

  let rec coq_lxor p q =
    match p with
    | XI p0 ->
      (match q with
       | XI q0 -> coq_Ndouble (coq_lxor p0 q0)
       | XO q0 -> coq_Nsucc_double (coq_lxor p0 q0)
       | XH -> Npos (XO p0))
    | XO p0 ->
      (match q with
       | XI q0 -> coq_Nsucc_double (coq_lxor p0 q0)
       | XO q0 -> coq_Ndouble (coq_lxor p0 q0)
       | XH -> Npos (XI p0))
    | XH ->
      (match q with
       | XI q0 -> Npos (XO q0)
       | XO q0 -> Npos (XI q0)
       | XH -> N0)

  (** val iter_op : ('a1 -> 'a1 -> 'a1) -> positive -> 'a1 -> 'a1 **)

  let rec iter_op op p a =
    match p with
    | XI p0 -> op a (iter_op op p0 (op a a))
    | XO p0 -> iter_op op p0 (op a a)
    | XH -> a

  (** val to_nat : positive -> nat **)

  let to_nat x =
    iter_op Coq__1.add x (S O)

  (** val of_succ_nat : nat -> positive **)

  let rec of_succ_nat = function
  | O -> XH
  | S x -> succ (of_succ_nat x)
 end

module N =
 struct
  (** val succ_double : n -> n **)

  let succ_double = function
  | N0 -> Npos XH
  | Npos p -> Npos (XI p)

  (** val double : n -> n **)

  let double = function
  | N0 -> N0
  | Npos p -> Npos (XO p)

  (** val add : n -> n -> n **)

  let add n0 m =
    match n0 with
    | N0 -> m
    | Npos p -> (match m with
                 | N0 -> n0
                 | Npos q -> Npos (Coq_Pos.add p q))

  (** val sub : n -> n -> n **)

  let sub n0 m =
    match n0 with
    | N0 -> N0
    | Npos n' ->
      (match m with
       | N0 -> n0
       | Npos m' ->
         (match Coq_Pos.sub_mask n' m' with
          | Coq_Pos.IsPos p -> Npos p
          | _ -> N0))

  (** val mul : n -> n -> n **)

  let mul n0 m =
    match n0 with
    | N0 -> N0
    | Npos p -> (match m with
                 | N0 -> N0
                 | Npos q -> Npos (Coq_Pos.mul p q))

  (** val compare : n -> n -> comparison **)

  let compare n0 m =
    match n0 with
    | N0 -> (match m with
             | N0 -> Eq
             | Npos _ -> Lt)
    | Npos n' -> (match m with
                  | N0 -> Gt
                  | Npos m' -> Coq_Pos.compare n' m')

  (** val eqb : n -> n -> bool **)

  let eqb n0 m =
    match n0 with
    | N0 -> (match m with
             | N0 -> true
             | Npos _ -> false)
    | Npos p -> (match m with
                 | N0 -> false
                 | Npos q -> Coq_Pos.eqb p q)

  (** val leb : n -> n -> bool **)

  let leb x y =
    match compare x y with
    | Gt -> false
    | _ -> true

  (** val ltb : n -> n -> bool **)

  let ltb x y =
    match compare x y with
    | Lt -> true
    | _ -> false

  (** val min : n -> n -> n **)

  let min n0 n' =
    match compare n0 n' with
    | Gt -> n'
    | _ -> n0

  (** val div2 : n -> n **)

  let div2 = function
  | N0 -> N0
  | Npos p0 -> (match p0 with
                | XI p -> Npos p
                | XO p -> Npos p
                | XH -> N0)

  (** val even : n -> bool **)

  let even = function
  | N0 -> true
  | Npos p -> (match p with
               | XO _ -> true
               | _ -> false)

  (** val odd : n -> bool **)

  let odd n0 =
    negb (even n0)

  (** val pow : n -> n -> n **)

  let pow n0 = function
  | N0 -> Npos XH
  | Npos p0 -> (match n0 with
                | N0 -> N0
                | Npos q -> Npos (Coq_Pos.pow q p0))

  (** val pos_div_eucl : positive -> n -> n * n **)

  let rec pos_div_eucl a b =
    match a with
    | XI a' ->
      let (q, r) = pos_div_eucl a' b in
      let r' = succ_double r in
      if leb b r' then ((succ_double q), (sub r' b)) else ((double q), r')
    | XO a' ->
      let (q, r) = pos_div_eucl a' b in
      let r' = double r in
      if leb b r' then ((succ_double q), (sub r' b)) else ((double q), r')
    | XH ->
      (match b with
       | N0 -> (N0, (Npos XH))
       | Npos p -> (match p with
                    | XH -> ((Npos XH), N0)
                    | _ -> (N0, (Npos XH))))

  (** val div_eucl : n -> n -> n * n **)

  let div_eucl a b =
    match a with
    | N0 -> (N0, N0)
    | Npos na -> (match b with
                  | N0 -> (N0, a)
                  | Npos _ -> pos_div_eucl na b)

  (** val div : n -> n -> n **)

  let div a b =
    fst (div_eucl a b)

  (** val modulo : n -> n -> n **)

  let modulo a b =
    snd (div_eucl a b)

  (** val coq_lxor : n -> n -> n **)

  let coq_lxor n0 m =
    match n0 with
    | N0 -> m
    | Npos p -> (match m with
                 | N0 -> n0
                 | Npos q -> Coq_Pos.coq_lxor p q)

  (** val to_nat : n -> nat **)

  let to_nat = function
  | N0 -> O
  | Npos p -> Coq_Pos.to_nat p

  (** val of_nat : nat -> n **)

  let of_nat = function
  | O -> N0
  | S n' -> Npos (Coq_Pos.of_succ_nat n')
 end

module Z =
 struct
  (** val double : z -> z **)

  let double = function
  | Z0 -> Z0
  | Zpos p -> Zpos (XO p)
  | Zneg p -> Zneg (XO p)

  (** val succ_double : z -> z **)

  let succ_double = function
  | Z0 -> Zpos XH
  | Zpos p -> Zpos (XI p)
  | Zneg p -> Zneg (Coq_Pos.pred_double p)

  (** val pred_double : z -> z **)

  let pred_double = function
  | Z0 -> Zneg XH
  | Zpos p -> Zpos (Coq_Pos.pred_double p)
  | Zneg p -> Zneg (XI p)

  (** val pos_sub : positive -> positive -> z **)

  let rec pos_sub x y =
    match x with
    | XI p ->
      (match y with
       | XI q -> double (pos_sub p q)
       | XO q -> succ_double (pos_sub p q)
       | XH -> Zpos (XO p))
    | XO p ->
      (match y with
       | XI q -> pred_double (pos_sub p q)
       | XO q -> double (pos_sub p q)
       | XH -> Zpos (Coq_Pos.pred_double p))
    | XH ->
      (match y with
       | XI q -> Zneg (XO q)
       | XO q -> Zneg (Coq_Pos.pred_double q)
       | XH -> Z0)

  (** val add : z -> z -> z **)

  let add x y =
    match x with
    | Z0 -> y
    | Zpos x' ->
      (match y with
       | Z0 -> x
       | Zpos y' -> Zpos (Coq_Pos.add x' y')
       | Zneg y' -> pos_sub x' y')
    | Zneg x' ->
      (match y with
       | Z0 -> x
       | Zpos y' -> pos_sub y' x'
       | Zneg y' -> Zneg (Coq_Pos.add x' y'))

  (** val opp : z -> z **)

  let opp = function
  | Z0 -> Z0
  | Zpos x0 -> Zneg x0
  | Zneg x0 -> Zpos x0

  (** val sub : z -> z -> z **)

  let sub m n0 =
    add m (opp n0)

  (** val mul : z -> z -> z **)

  let mul x y =
    match x with
    | Z0 -> Z0
    | Zpos x' ->
      (match y with
       | Z0 -> Z0
       | Zpos y' -> Zpos (Coq_Pos.mul x' y')
       | Zneg y' -> Zneg (Coq_Pos.mul x' y'))
    | Zneg x' ->
      (match y with
       | Z0 -> Z0
       | Zpos y' -> Zneg (Coq_Pos.mul x' y')
       | Zneg y' -> Zpos (Coq_Pos.mul x' y'))

  (** val compare : z -> z -> comparison **)

  let compare x y =
    match x with
    | Z0 -> (match y with
             | Z0 -> Eq
             | Zpos _ -> Lt
             | Zneg _ -> Gt)
    | Zpos x' -> (match y with
                  | Zpos y' -> Coq_Pos.compare x' y'
                  | _ -> Gt)
    | Zneg x' ->
      (match y with
       | Zneg y' -> compOpp (Coq_Pos.compare x' y')
       | _ -> Lt)

  (** val leb : z -> z -> bool **)

  let leb x y =
    match compare x y with
    | Gt -> false
    | _ -> true

  (** val ltb : z -> z -> bool **)

  let ltb x y =
    match compare x y with
    | Lt -> true
    | _ -> false

  (** val eqb : z -> z -> bool **)

  let eqb x y =
    match x with
    | Z0 -> (match y with
             | Z0 -> true
             | _ -> false)
    | Zpos p -> (match y with
                 | Zpos q -> Coq_Pos.eqb p q
                 | _ -> false)
    | Zneg p -> (match y with
                 | Zneg q -> Coq_Pos.eqb p q
                 | _ -> false)

  (** val to_nat : z -> nat **)

  let to_nat = function
  | Zpos p -> Coq_Pos.to_nat p
  | _ -> O

  (** val to_N : z -> n **)

  let to_N = function
  | Zpos p -> Npos p
  | _ -> N0

  (** val of_nat : nat -> z **)

  let of_nat = function
  | O -> Z0
  | S n1 -> Zpos (Coq_Pos.of_succ_nat n1)

  (** val of_N : n -> z **)

  let of_N = function
  | N0 -> Z0
  | Npos p -> Zpos p

  (** val pos_div_eucl : positive -> z -> z * z **)

  let rec pos_div_eucl a b =
    match a with
    | XI a' ->
      let (q, r) = pos_div_eucl a' b in
      let r' = add (mul (Zpos (XO XH)) r) (Zpos XH) in
      if ltb r' b
      then ((mul (Zpos (XO XH)) q), r')
      else ((add (mul (Zpos (XO XH)) q) (Zpos XH)), (sub r' b))
    | XO a' ->
      let (q, r) = pos_div_eucl a' b in
      let r' = mul (Zpos (XO XH)) r in
      if ltb r' b
      then ((mul (Zpos (XO XH)) q), r')
      else ((add (mul (Zpos (XO XH)) q) (Zpos XH)), (sub r' b))
    | XH -> if leb (Zpos (XO XH)) b then (Z0, (Zpos XH)) else ((Zpos XH), Z0)

  (** val div_eucl : z -> z -> z * z **)

  let div_eucl a b =
    match a with
    | Z0 -> (Z0, Z0)
    | Zpos a' ->
      (match b with
       | Z0 -> (Z0, a)
       | Zpos _ -> pos_div_eucl a' b
       | Zneg b' ->
         let (q, r) = pos_div_eucl a' (Zpos b') in
         (match r with
          | Z0 -> ((opp q), Z0)
          | _ -> ((opp (add q (Zpos XH))), (add b r))))
    | Zneg a' ->
      (match b with
       | Z0 -> (Z0, a)
       | Zpos _ ->
         let (q, r) = pos_div_eucl a' b in
         (match r with
          | Z0 -> ((opp q), Z0)
          | _ -> ((opp (add q (Zpos XH))), (sub b r)))
       | Zneg b' -> let (q, r) = pos_div_eucl a' (Zpos b') in (q, (opp r)))

  (** val modulo : z -> z -> z **)

  let modulo a b =
    let (_, r) = div_eucl a b in r

  (** val quotrem : z -> z -> z * z **)

  let quotrem a b =
    match a with
    | Z0 -> (Z0, Z0)
    | Zpos a0 ->
      (match b with
       | Z0 -> (Z0, a)
       | Zpos b0 ->
         let (q, r) = N.pos_div_eucl a0 (Npos b0) in ((of_N q), (of_N r))
       | Zneg b0 ->
         let (q, r) = N.pos_div_eucl a0 (Npos b0) in
         ((opp (of_N q)), (of_N r)))
    | Zneg a0 ->
      (match b with
       | Z0 -> (Z0, a)
       | Zpos b0 ->
         let (q, r) = N.pos_div_eucl a0 (Npos b0) in
         ((opp (of_N q)), (opp (of_N r)))
       | Zneg b0 ->
         let (q, r) = N.pos_div_eucl a0 (Npos b0) in
         ((of_N q), (opp (of_N r))))

  (** val quot : z -> z -> z **)

  let quot a b =
    fst (quotrem a b)

  (** val rem : z -> z -> z **)

  let rem a b =
    snd (quotrem a b)
 end

type bytes = n list

(** val len : bytes -> n **)

let len bs =
  N.of_nat (length bs)

(** val zeros : nat -> bytes **)

let zeros n0 =
  repeat N0 n0

(** val sub0 : nat -> nat -> bytes -> bytes **)

let sub0 off n0 bs =
  firstn n0 (skipn off bs)

(** val le32 : n -> bytes **)

let le32 v =
  (N.modulo v (Npos (XO (XO (XO (XO (XO (XO (XO (XO XH)))))))))) :: (
    (N.modulo (N.div v (Npos (XO (XO (XO (XO (XO (XO (XO (XO XH))))))))))
      (Npos (XO (XO (XO (XO (XO (XO (XO (XO XH)))))))))) :: ((N.modulo
                                                               (N.div v (Npos
                                                                 (XO (XO (XO
                                                                 (XO (XO (XO
                                                                 (XO (XO (XO
                                                                 (XO (XO (XO
                                                                 (XO (XO (XO
                                                                 (XO
                                                                 XH))))))))))))))))))
                                                               (Npos (XO (XO
                                                               (XO (XO (XO
                                                               (XO (XO (XO
                                                               XH)))))))))) :: (
    (N.modulo
      (N.div v (Npos (XO (XO (XO (XO (XO (XO (XO (XO (XO (XO (XO (XO (XO (XO
        (XO (XO (XO (XO (XO (XO (XO (XO (XO (XO XH))))))))))))))))))))))))))
      (Npos (XO (XO (XO (XO (XO (XO (XO (XO XH)))))))))) :: [])))

(** val le64 : n -> bytes **)

let le64 v =
  app
    (le32
      (N.modulo v (Npos (XO (XO (XO (XO (XO (XO (XO (XO (XO (XO (XO (XO (XO
        (XO (XO (XO (XO (XO (XO (XO (XO (XO (XO (XO (XO (XO (XO (XO (XO (XO
        (XO (XO XH)))))))))))))))))))))))))))))))))))
    (le32
      (N.div v (Npos (XO (XO (XO (XO (XO (XO (XO (XO (XO (XO (XO (XO (XO (XO
        (XO (XO (XO (XO (XO (XO (XO (XO (XO (XO (XO (XO (XO (XO (XO (XO (XO
        (XO XH)))))))))))))))))))))))))))))))))))

(** val nth0 : nat -> bytes -> n **)

let nth0 n0 bs =
  nth n0 bs N0

(** val rd32 : bytes -> n **)

let rd32 bs =
  N.add
    (N.add
      (N.add (nth0 O bs)
        (N.mul (Npos (XO (XO (XO (XO (XO (XO (XO (XO XH)))))))))
          (nth0 (S O) bs)))
      (N.mul (Npos (XO (XO (XO (XO (XO (XO (XO (XO (XO (XO (XO (XO (XO (XO
        (XO (XO XH))))))))))))))))) (nth0 (S (S O)) bs)))
    (N.mul (Npos (XO (XO (XO (XO (XO (XO (XO (XO (XO (XO (XO (XO (XO (XO (XO
      (XO (XO (XO (XO (XO (XO (XO (XO (XO XH)))))))))))))))))))))))))
      (nth0 (S (S (S O))) bs))

(** val rd64 : bytes -> n **)

let rd64 bs =
  N.add (rd32 bs)
    (N.mul (Npos (XO (XO (XO (XO (XO (XO (XO (XO (XO (XO (XO (XO (XO (XO (XO
      (XO (XO (XO (XO (XO (XO (XO (XO (XO (XO (XO (XO (XO (XO (XO (XO (XO
      XH))))))))))))))))))))))))))))))))) (rd32 (skipn (S (S (S (S O)))) bs)))

(** val be32 : n -> bytes **)

let be32 v =
  rev (le32 v)

(** val be64 : n -> bytes **)

let be64 v =
  rev (le64 v)

(** val rdbe32 : bytes -> n **)

let rdbe32 bs =
  rd32 (rev (firstn (S (S (S (S O)))) bs))

(** val rdbe64 : bytes -> n **)

let rdbe64 bs =
  rd64 (rev (firstn (S (S (S (S (S (S (S (S O)))))))) bs))

(** val be16 : n -> bytes **)

let be16 v =
  (N.modulo (N.div v (Npos (XO (XO (XO (XO (XO (XO (XO (XO XH)))))))))) (Npos
    (XO (XO (XO (XO (XO (XO (XO (XO XH)))))))))) :: ((N.modulo v (Npos (XO
                                                       (XO (XO (XO (XO (XO
                                                       (XO (XO XH)))))))))) :: [])

(** val rdbe16 : bytes -> n **)

let rdbe16 bs =
  N.add (N.mul (Npos (XO (XO (XO (XO (XO (XO (XO (XO XH))))))))) (nth0 O bs))
    (nth0 (S O) bs)

(** val two64 : n **)

let two64 =
  Npos (XO (XO (XO (XO (XO (XO (XO (XO (XO (XO (XO (XO (XO (XO (XO (XO (XO
    (XO (XO (XO (XO (XO (XO (XO (XO (XO (XO (XO (XO (XO (XO (XO (XO (XO (XO
    (XO (XO (XO (XO (XO (XO (XO (XO (XO (XO (XO (XO (XO (XO (XO (XO (XO (XO
    (XO (XO (XO (XO (XO (XO (XO (XO (XO (XO (XO
    XH))))))))))))))))))))))))))))))))))))))))))))))))))))))))))))))))

(** val two63 : n **)

let two63 =
  Npos (XO (XO (XO (XO (XO (XO (XO (XO (XO (XO (XO (XO (XO (XO (XO (XO (XO
    (XO (XO (XO (XO (XO (XO (XO (XO (XO (XO (XO (XO (XO (XO (XO (XO (XO (XO
    (XO (XO (XO (XO (XO (XO (XO (XO (XO (XO (XO (XO (XO (XO (XO (XO (XO (XO
    (XO (XO (XO (XO (XO (XO (XO (XO (XO (XO
    XH)))))))))))))))))))))))))))))))))))))))))))))))))))))))))))))))

(** val two32 : n **)

let two32 =
  Npos (XO (XO (XO (XO (XO (XO (XO (XO (XO (XO (XO (XO (XO (XO (XO (XO (XO
    (XO (XO (XO (XO (XO (XO (XO (XO (XO (XO (XO (XO (XO (XO (XO
    XH))))))))))))))))))))))))))))))))

(** val two31 : n **)

let two31 =
  Npos (XO (XO (XO (XO (XO (XO (XO (XO (XO (XO (XO (XO (XO (XO (XO (XO (XO
    (XO (XO (XO (XO (XO (XO (XO (XO (XO (XO (XO (XO (XO (XO
    XH)))))))))))))))))))))))))))))))

(** val two16 : n **)

let two16 =
  Npos (XO (XO (XO (XO (XO (XO (XO (XO (XO (XO (XO (XO (XO (XO (XO (XO
    XH))))))))))))))))

(** val two15 : n **)

let two15 =
  Npos (XO (XO (XO (XO (XO (XO (XO (XO (XO (XO (XO (XO (XO (XO (XO
    XH)))))))))))))))

(** val z_to_u : n -> z -> n **)

let z_to_u w z0 =
  Z.to_N (Z.modulo z0 (Z.of_N w))

(** val u_to_z : n -> n -> n -> z **)

let u_to_z w half u =
  if N.ltb u half then Z.of_N u else Z.sub (Z.of_N u) (Z.of_N w)

(** val overwrite : bytes -> nat -> bytes -> bytes **)

let rec overwrite bs off w =
  match off with
  | O -> app w (skipn (length w) bs)
  | S o ->
    (match bs with
     | [] -> N0 :: (overwrite [] o w)
     | b :: r -> b :: (overwrite r o w))

(** val beq_bytes : bytes -> bytes -> bool **)

let rec beq_bytes a b =
  match a with
  | [] -> (match b with
           | [] -> true
           | _ :: _ -> false)
  | x :: a' ->
    (match b with
     | [] -> false
     | y :: b' -> (&&) (N.eqb x y) (beq_bytes a' b'))

(** val all_zero : bytes -> bool **)

let rec all_zero = function
| [] -> true
| b :: r -> (&&) (N.eqb b N0) (all_zero r)

type str = n list

(** val sp : n **)

let sp =
  Npos (XO (XO (XO (XO (XO XH)))))

(** val split_aux : str -> str -> str list **)

let rec split_aux s cur =
  match s with
  | [] -> (rev_append cur []) :: []
  | c :: r ->
    if N.eqb c sp
    then (rev_append cur []) :: (split_aux r [])
    else split_aux r (c :: cur)

(** val tokens : str -> str list **)

let tokens s =
  split_aux s []

(** val hexval : n -> n option **)

let hexval c =
  if (&&) (N.leb (Npos (XO (XO (XO (XO (XI XH)))))) c)
       (N.leb c (Npos (XI (XO (XO (XI (XI XH)))))))
  then Some (N.sub c (Npos (XO (XO (XO (XO (XI XH)))))))
  else if (&&) (N.leb (Npos (XI (XO (XO (XO (XO (XI XH))))))) c)
            (N.leb c (Npos (XO (XI (XI (XO (XO (XI XH))))))))
       then Some (N.sub c (Npos (XI (XI (XI (XO (XI (XO XH))))))))
       else None

(** val hex_to_N_aux : str -> n -> n option **)

let rec hex_to_N_aux s acc =
  match s with
  | [] -> Some acc
  | c :: r ->
    (match hexval c with
     | Some v ->
       hex_to_N_aux r (N.add (N.mul acc (Npos (XO (XO (XO (XO XH)))))) v)
     | None -> None)

(** val hex_to_N : str -> n option **)

let hex_to_N s = match s with
| [] -> None
| _ :: _ -> hex_to_N_aux s N0

(** val hex_to_Z : str -> z option **)

let hex_to_Z s = match s with
| [] -> (match hex_to_N s with
         | Some n0 -> Some (Z.of_N n0)
         | None -> None)
| n0 :: r ->
  (match n0 with
   | N0 -> (match hex_to_N s with
            | Some n1 -> Some (Z.of_N n1)
            | None -> None)
   | Npos p ->
     (match p with
      | XI p0 ->
        (match p0 with
         | XO p1 ->
           (match p1 with
            | XI p2 ->
              (match p2 with
               | XI p3 ->
                 (match p3 with
                  | XO p4 ->
                    (match p4 with
                     | XH ->
                       (match hex_to_N r with
                        | Some n1 -> Some (Z.opp (Z.of_N n1))
                        | None -> None)
                     | _ ->
                       (match hex_to_N s with
                        | Some n1 -> Some (Z.of_N n1)
                        | None -> None))
                  | _ ->
                    (match hex_to_N s with
                     | Some n1 -> Some (Z.of_N n1)
                     | None -> None))
               | _ ->
                 (match hex_to_N s with
                  | Some n1 -> Some (Z.of_N n1)
                  | None -> None))
            | _ ->
              (match hex_to_N s with
               | Some n1 -> Some (Z.of_N n1)
               | None -> None))
         | _ ->
           (match hex_to_N s with
            | Some n1 -> Some (Z.of_N n1)
            | None -> None))
      | _ ->
        (match hex_to_N s with
         | Some n1 -> Some (Z.of_N n1)
         | None -> None)))

(** val hex_to_bytes_aux : str -> bytes option **)

let rec hex_to_bytes_aux = function
| [] -> Some []
| a :: l ->
  (match l with
   | [] -> None
   | b :: r ->
     (match hexval a with
      | Some x ->
        (match hexval b with
         | Some y ->
           (match hex_to_bytes_aux r with
            | Some t ->
              Some ((N.add (N.mul x (Npos (XO (XO (XO (XO XH)))))) y) :: t)
            | None -> None)
         | None -> None)
      | None -> None))

(** val hex_to_bytes : str -> bytes option **)

let hex_to_bytes s = match s with
| [] -> hex_to_bytes_aux s
| n0 :: l ->
  (match n0 with
   | N0 -> hex_to_bytes_aux s
   | Npos p ->
     (match p with
      | XI p0 ->
        (match p0 with
         | XO p1 ->
           (match p1 with
            | XI p2 ->
              (match p2 with
               | XI p3 ->
                 (match p3 with
                  | XO p4 ->
                    (match p4 with
                     | XH ->
                       (match l with
                        | [] -> Some []
                        | _ :: _ -> hex_to_bytes_aux s)
                     | _ -> hex_to_bytes_aux s)
                  | _ -> hex_to_bytes_aux s)
               | _ -> hex_to_bytes_aux s)
            | _ -> hex_to_bytes_aux s)
         | _ -> hex_to_bytes_aux s)
      | _ -> hex_to_bytes_aux s))

(** val hexdigit : n -> n **)

let hexdigit v =
  if N.ltb v (Npos (XO (XI (XO XH))))
  then N.add (Npos (XO (XO (XO (XO (XI XH)))))) v
  else N.add (Npos (XI (XI (XI (XO (XI (XO XH))))))) v

(** val n_to_hex_aux : nat -> n -> str -> str **)

let rec n_to_hex_aux fuel v acc =
  match fuel with
  | O -> acc
  | S f ->
    let acc' = (hexdigit (N.modulo v (Npos (XO (XO (XO (XO XH))))))) :: acc in
    if N.ltb v (Npos (XO (XO (XO (XO XH)))))
    then acc'
    else n_to_hex_aux f (N.div v (Npos (XO (XO (XO (XO XH)))))) acc'

(** val n_to_hex : n -> str **)

let n_to_hex v =
  n_to_hex_aux (S (S (S (S (S (S (S (S (S (S (S (S (S (S (S (S (S (S (S (S (S
    (S (S (S (S (S (S (S (S (S (S (S (S (S (S (S (S (S (S (S (S (S (S (S (S
    (S (S (S (S (S (S (S (S (S (S (S (S (S (S (S (S (S (S (S
    O)))))))))))))))))))))))))))))))))))))))))))))))))))))))))))))))) v []

(** val z_to_hex : z -> str **)

let z_to_hex z0 =
  if Z.ltb z0 Z0
  then (Npos (XI (XO (XI (XI (XO XH)))))) :: (n_to_hex (Z.to_N (Z.opp z0)))
  else n_to_hex (Z.to_N z0)

(** val bytes_to_hex_aux : bytes -> str **)

let rec bytes_to_hex_aux = function
| [] -> []
| b :: r ->
  (hexdigit (N.div b (Npos (XO (XO (XO (XO XH))))))) :: ((hexdigit
                                                           (N.modulo b (Npos
                                                             (XO (XO (XO (XO
                                                             XH))))))) :: 
    (bytes_to_hex_aux r))

(** val bytes_to_hex : bytes -> str **)

let bytes_to_hex bs = match bs with
| [] -> (Npos (XI (XO (XI (XI (XO XH)))))) :: []
| _ :: _ -> bytes_to_hex_aux bs

(** val join : str list -> str **)

let rec join = function
| [] -> []
| x :: r -> (match r with
             | [] -> x
             | _ :: _ -> app x (sp :: (join r)))

(** val s_ok : str **)

let s_ok =
  (Npos (XI (XI (XI (XI (XO (XI XH))))))) :: ((Npos (XI (XI (XO (XI (XO (XI
    XH))))))) :: [])

(** val s_err : str **)

let s_err =
  (Npos (XI (XO (XI (XO (XO (XI XH))))))) :: ((Npos (XO (XI (XO (XO (XI (XI
    XH))))))) :: ((Npos (XO (XI (XO (XO (XI (XI XH))))))) :: []))

(** val s_bad : str **)

let s_bad =
  (Npos (XO (XI (XO (XO (XO (XI XH))))))) :: ((Npos (XI (XO (XO (XO (XO (XI
    XH))))))) :: ((Npos (XO (XO (XI (XO (XO (XI XH))))))) :: ((Npos (XI (XO
    (XO (XI (XO (XI XH))))))) :: ((Npos (XO (XI (XI (XI (XO (XI
    XH))))))) :: ((Npos (XO (XO (XO (XO (XI (XI XH))))))) :: ((Npos (XI (XO
    (XI (XO (XI (XI XH))))))) :: ((Npos (XO (XO (XI (XO (XI (XI
    XH))))))) :: [])))))))

(** val s_utc : str **)

let s_utc =
  (Npos (XI (XO (XI (XO (XI (XI XH))))))) :: ((Npos (XO (XO (XI (XO (XI (XI
    XH))))))) :: ((Npos (XI (XI (XO (XO (XO (XI XH))))))) :: []))

(** val str_eqb : str -> str -> bool **)

let rec str_eqb a b =
  match a with
  | [] -> (match b with
           | [] -> true
           | _ :: _ -> false)
  | x :: a' ->
    (match b with
     | [] -> false
     | y :: b' -> (&&) (N.eqb x y) (str_eqb a' b'))

(** val put_uvarint_aux : nat -> n -> bytes **)

let rec put_uvarint_aux fuel v =
  match fuel with
  | O -> []
  | S f ->
    if N.ltb v (Npos (XO (XO (XO (XO (XO (XO (XO XH))))))))
    then v :: []
    else (N.add (N.modulo v (Npos (XO (XO (XO (XO (XO (XO (XO XH)))))))))
           (Npos (XO (XO (XO (XO (XO (XO (XO XH))))))))) :: (put_uvarint_aux
                                                              f
                                                              (N.div v (Npos
                                                                (XO (XO (XO
                                                                (XO (XO (XO
                                                                (XO
                                                                XH))))))))))

(** val put_uvarint : n -> bytes **)

let put_uvarint v =
  put_uvarint_aux (S (S (S (S (S (S (S (S (S (S O)))))))))) v

(** val get_uvarint_aux : bytes -> nat -> n -> n -> n * z **)

let rec get_uvarint_aux buf i x s =
  match buf with
  | [] -> (N0, Z0)
  | b :: r ->
    if Nat.eqb i (S (S (S (S (S (S (S (S (S (S O))))))))))
    then (N0, (Z.opp (Z.add (Z.of_nat i) (Zpos XH))))
    else if N.ltb b (Npos (XO (XO (XO (XO (XO (XO (XO XH))))))))
         then if (&&) (Nat.eqb i (S (S (S (S (S (S (S (S (S O))))))))))
                   (N.ltb (Npos XH) b)
              then (N0, (Z.opp (Z.add (Z.of_nat i) (Zpos XH))))
              else ((N.modulo (N.add x (N.mul b (N.pow (Npos (XO XH)) s)))
                      two64), (Z.add (Z.of_nat i) (Zpos XH)))
         else get_uvarint_aux r (S i)
                (N.modulo
                  (N.add x
                    (N.mul
                      (N.modulo b (Npos (XO (XO (XO (XO (XO (XO (XO
                        XH))))))))) (N.pow (Npos (XO XH)) s))) two64)
                (N.add s (Npos (XI (XI XH))))

(** val get_uvarint : bytes -> n * z **)

let get_uvarint buf =
  get_uvarint_aux buf O N0 N0

type gotime = { t_sec : z; t_nsec : z; t_zone : z option }

(** val marshal_time : gotime -> bytes option **)

let marshal_time t =
  let hdr = fun version offmin ->
    app ((Z.to_N version) :: [])
      (app (be64 (z_to_u two64 t.t_sec))
        (app (be32 (z_to_u two32 t.t_nsec)) (be16 (z_to_u two16 offmin))))
  in
  (match t.t_zone with
   | Some off ->
     let offsec = Z.rem off (Zpos (XO (XO (XI (XI (XI XH)))))) in
     let offmin = Z.quot off (Zpos (XO (XO (XI (XI (XI XH)))))) in
     if (||)
          ((||)
            (Z.ltb offmin (Zneg (XO (XO (XO (XO (XO (XO (XO (XO (XO (XO (XO
              (XO (XO (XO (XO XH))))))))))))))))) (Z.eqb offmin (Zneg XH)))
          (Z.ltb (Zpos (XI (XI (XI (XI (XI (XI (XI (XI (XI (XI (XI (XI (XI
            (XI XH))))))))))))))) offmin)
     then None
     else if Z.eqb offsec Z0
          then Some (hdr (Zpos XH) offmin)
          else Some
                 (app (hdr (Zpos (XO XH)) offmin)
                   ((z_to_u (Npos (XO (XO (XO (XO (XO (XO (XO (XO XH)))))))))
                      offsec) :: []))
   | None -> Some (hdr (Zpos XH) (Zneg XH)))

(** val unmarshal_time : bytes -> gotime option **)

let unmarshal_time buf = match buf with
| [] -> None
| version :: rest ->
  if negb ((||) (N.eqb version (Npos XH)) (N.eqb version (Npos (XO XH))))
  then None
  else let want =
         if N.eqb version (Npos (XO XH))
         then S (S (S (S (S (S (S (S (S (S (S (S (S (S (S (S O)))))))))))))))
         else S (S (S (S (S (S (S (S (S (S (S (S (S (S (S O))))))))))))))
       in
       if negb (Nat.eqb (length buf) want)
       then None
       else let sec = u_to_z two64 two63 (rdbe64 rest) in
            let nsec =
              u_to_z two32 two31
                (rdbe32 (skipn (S (S (S (S (S (S (S (S O)))))))) rest))
            in
            let offmin =
              u_to_z two16 two15
                (rdbe16
                  (skipn (S (S (S (S (S (S (S (S (S (S (S (S O))))))))))))
                    rest))
            in
            let offs =
              if N.eqb version (Npos (XO XH))
              then Z.of_N
                     (nth0 (S (S (S (S (S (S (S (S (S (S (S (S (S (S
                       O)))))))))))))) rest)
              else Z0
            in
            let off =
              Z.add (Z.mul offmin (Zpos (XO (XO (XI (XI (XI XH))))))) offs
            in
            Some { t_sec = sec; t_nsec = nsec; t_zone =
            (if Z.eqb off (Zneg (XO (XO (XI (XI (XI XH))))))
             then None
             else Some off) }

type log = { l_index : n; l_term : n; l_type : n; l_data : bytes;
             l_ext : bytes; l_time : gotime }

(** val enc_bytes : bytes -> bytes **)

let enc_bytes bs =
  app (put_uvarint (len bs)) bs

(** val encode_log : log -> bytes option **)

let encode_log l =
  match marshal_time l.l_time with
  | Some tb ->
    Some
      (app (put_uvarint l.l_index)
        (app (put_uvarint l.l_term)
          (app (put_uvarint l.l_type)
            (app (enc_bytes l.l_data) (app (enc_bytes l.l_ext) tb)))))
  | None -> None

type 'a dres =
| DOk of 'a * bytes
| DErr

(** val dec_varint : bytes -> n dres **)

let dec_varint buf =
  let (v, n0) = get_uvarint buf in
  if Z.leb n0 Z0 then DErr else DOk (v, (skipn (Z.to_nat n0) buf))

(** val dec_bytes : bytes -> bytes dres **)

let dec_bytes buf =
  match dec_varint buf with
  | DOk (n0, rest) ->
    if N.eqb n0 N0
    then DOk ([], rest)
    else if N.ltb (len rest) n0
         then DErr
         else DOk ((firstn (N.to_nat n0) rest), (skipn (N.to_nat n0) rest))
  | DErr -> DErr

(** val decode_log : bytes -> log option **)

let decode_log buf =
  match dec_varint buf with
  | DOk (idx, r1) ->
    (match dec_varint r1 with
     | DOk (term, r2) ->
       (match dec_varint r2 with
        | DOk (typ, r3) ->
          (match dec_bytes r3 with
           | DOk (data, r4) ->
             (match dec_bytes r4 with
              | DOk (ext, r5) ->
                (match unmarshal_time r5 with
                 | Some t ->
                   Some { l_index = idx; l_term = term; l_type =
                     (N.modulo typ (Npos (XO (XO (XO (XO (XO (XO (XO (XO
                       XH)))))))))); l_data = data; l_ext = ext; l_time = t }
                 | None -> None)
              | DErr -> None)
           | DErr -> None)
        | DErr -> None)
     | DErr -> None)
  | DErr -> None

(** val parse_zone : str -> z option option **)

let parse_zone s =
  if str_eqb s s_utc
  then Some None
  else (match hex_to_Z s with
        | Some z0 -> Some (Some z0)
        | None -> None)

(** val show_zone : z option -> str **)

let show_zone = function
| Some o -> z_to_hex o
| None -> s_utc

(** val parse_log : str list -> log option **)

let parse_log = function
| [] -> None
| i :: l ->
  (match l with
   | [] -> None
   | t :: l0 ->
     (match l0 with
      | [] -> None
      | ty :: l1 ->
        (match l1 with
         | [] -> None
         | d :: l2 ->
           (match l2 with
            | [] -> None
            | e :: l3 ->
              (match l3 with
               | [] -> None
               | sec :: l4 ->
                 (match l4 with
                  | [] -> None
                  | ns :: l5 ->
                    (match l5 with
                     | [] -> None
                     | zn :: l6 ->
                       (match l6 with
                        | [] ->
                          (match hex_to_N i with
                           | Some i0 ->
                             (match hex_to_N t with
                              | Some t0 ->
                                (match hex_to_N ty with
                                 | Some ty0 ->
                                   (match hex_to_bytes d with
                                    | Some d0 ->
                                      (match hex_to_bytes e with
                                       | Some e0 ->
                                         (match hex_to_Z sec with
                                          | Some sec0 ->
                                            (match hex_to_Z ns with
                                             | Some ns0 ->
                                               (match parse_zone zn with
                                                | Some zn0 ->
                                                  Some { l_index = i0;
                                                    l_term = t0; l_type =
                                                    ty0; l_data = d0; l_ext =
                                                    e0; l_time = { t_sec =
                                                    sec0; t_nsec = ns0;
                                                    t_zone = zn0 } }
                                                | None -> None)
                                             | None -> None)
                                          | None -> None)
                                       | None -> None)
                                    | None -> None)
                                 | None -> None)
                              | None -> None)
                           | None -> None)
                        | _ :: _ -> None))))))))

(** val show_log : bool -> log -> str **)

let show_log with_time l =
  join
    (app
      ((n_to_hex l.l_index) :: ((n_to_hex l.l_term) :: ((n_to_hex l.l_type) :: (
      (bytes_to_hex l.l_data) :: ((bytes_to_hex l.l_ext) :: [])))))
      (if with_time
       then (z_to_hex l.l_time.t_sec) :: ((z_to_hex l.l_time.t_nsec) :: (
              (show_zone l.l_time.t_zone) :: []))
       else []))

(** val run_enc : str list -> str **)

let run_enc ts =
  match parse_log ts with
  | Some l ->
    (match encode_log l with
     | Some bs -> bytes_to_hex bs
     | None -> s_err)
  | None -> s_bad

(** val run_dec : str list -> str **)

let run_dec = function
| [] -> s_bad
| h :: l ->
  (match l with
   | [] -> s_bad
   | flag :: l0 ->
     (match l0 with
      | [] ->
        (match hex_to_bytes h with
         | Some bs ->
           (match decode_log bs with
            | Some l1 ->
              join
                (s_ok :: ((show_log
                            (str_eqb flag ((Npos (XO (XI (XI (XO (XI (XI
                              XH))))))) :: [])) l1) :: []))
            | None -> s_err)
         | None -> s_bad)
      | _ :: _ -> s_bad))

(** val maxEntrySize : n **)

let maxEntrySize =
  Npos (XO (XO (XO (XO (XO (XO (XO (XO (XO (XO (XO (XO (XO (XO (XO (XO (XO
    (XO (XO (XO (XO (XO (XO (XO (XO (XO XH))))))))))))))))))))))))))

(** val frameInvalid : n **)

let frameInvalid =
  N0

(** val frameEntry : n **)

let frameEntry =
  Npos XH

(** val frameIndex : n **)

let frameIndex =
  Npos (XO XH)

(** val frameCommit : n **)

let frameCommit =
  Npos (XI XH)

(** val firstExternalCodecID : n **)

let firstExternalCodecID =
  Npos (XO (XO (XO (XO (XO (XO (XO (XO (XO (XO (XO (XO (XO (XO (XO (XO
    XH))))))))))))))))

(** val binaryCodecID : n **)

let binaryCodecID =
  Npos XH

(** val file_header_len : n **)

let file_header_len =
  Npos (XO (XO (XO (XO (XO XH)))))

(** val frame_header_len : n **)

let frame_header_len =
  Npos (XO (XO (XO XH)))

(** val magic : n **)

let magic =
  Npos (XI (XO (XI (XI (XO (XO (XO (XO (XI (XI (XO (XI (XO (XI (XI (XO (XI
    (XI (XO (XI (XO (XI (XI (XI (XO (XO (XO (XI (XI (XO
    XH))))))))))))))))))))))))))))))

(** val min_buf_size : n **)

let min_buf_size =
  Npos (XO (XO (XO (XO (XO (XO (XO (XO (XO (XO (XO (XO (XO (XO (XO (XO
    XH))))))))))))))))

type seginfo = { si_id : n; si_base : n; si_min : n; si_max : n;
                 si_codec : n; si_index_start : n; si_sealed : bool;
                 si_size_limit : n }

(** val file_header : seginfo -> bytes **)

let file_header info =
  app (le32 magic)
    (app (N0 :: (N0 :: (N0 :: (N0 :: []))))
      (app (le64 info.si_base) (app (le64 info.si_id) (le64 info.si_codec))))

(** val read_file_header : bytes -> ((n * n) * n) option **)

let read_file_header buf =
  if N.ltb (len buf) file_header_len
  then None
  else if negb (N.eqb (rd64 buf) magic)
       then None
       else Some (((rd64 (skipn (S (S (S (S (S (S (S (S O)))))))) buf)),
              (rd64
                (skipn (S (S (S (S (S (S (S (S (S (S (S (S (S (S (S (S
                  O)))))))))))))))) buf))),
              (rd64
                (skipn (S (S (S (S (S (S (S (S (S (S (S (S (S (S (S (S (S (S
                  (S (S (S (S (S (S O)))))))))))))))))))))))) buf)))

(** val validate_file_header : ((n * n) * n) -> seginfo -> bool **)

let validate_file_header got info =
  let (p, c) = got in
  let (b, i) = p in
  (&&) ((&&) (N.eqb i info.si_id) (N.eqb b info.si_base))
    (N.eqb c info.si_codec)

(** val pad_len : n -> n **)

let pad_len n0 =
  N.modulo
    (N.sub (Npos (XO (XO (XO XH)))) (N.modulo n0 (Npos (XO (XO (XO XH))))))
    (Npos (XO (XO (XO XH))))

(** val enc_frame_size : n -> n **)

let enc_frame_size n0 =
  N.add (N.add (Npos (XO (XO (XO XH)))) n0) (pad_len n0)

(** val index_frame_size : n -> n **)

let index_frame_size num =
  if N.eqb num N0 then N0 else enc_frame_size (N.mul num (Npos (XO (XO XH))))

(** val frame_header : n -> n -> bytes **)

let frame_header typ v =
  app (typ :: (N0 :: (N0 :: (N0 :: [])))) (le32 v)

(** val enc_frame : n -> bytes -> bytes **)

let enc_frame typ payload =
  app (frame_header typ (len payload))
    (app payload (zeros (N.to_nat (pad_len (len payload)))))

(** val commit_frame : n -> bytes **)

let commit_frame crc =
  frame_header frameCommit crc

(** val index_payload : n list -> bytes **)

let index_payload offs =
  flat_map le32 offs

(** val index_frame : n list -> bytes **)

let index_frame offs =
  app (frame_header frameIndex (N.mul (Npos (XO (XO XH))) (len offs)))
    (app (index_payload offs) (if N.odd (len offs) then le32 N0 else []))

type fhdr =
| FH of n * n
| FHZero
| FHCorrupt
| FHShort

(** val read_frame_header : bytes -> fhdr **)

let read_frame_header buf =
  if N.ltb (len buf) frame_header_len
  then FHShort
  else let t = nth0 O buf in
       if N.eqb t frameInvalid
       then if all_zero (firstn (S (S (S (S (S (S (S (S O)))))))) buf)
            then FHZero
            else FHCorrupt
       else if (||) ((||) (N.eqb t frameEntry) (N.eqb t frameIndex))
                 (N.eqb t frameCommit)
            then FH (t, (rd32 (skipn (S (S (S (S O)))) buf)))
            else FHCorrupt

(** val fh_len : n -> n -> n **)

let fh_len typ v =
  if N.eqb typ frameCommit then N0 else v

(** val crc_poly : n **)

let crc_poly =
  Npos (XO (XO (XO (XI (XI (XI (XI (XO (XI (XI (XO (XI (XI (XI (XO (XO (XO
    (XI (XI (XO (XI (XI (XI (XI (XO (XI (XO (XO (XO (XO (XO
    XH)))))))))))))))))))))))))))))))

(** val crc_mask : n **)

let crc_mask =
  Npos (XI (XI (XI (XI (XI (XI (XI (XI (XI (XI (XI (XI (XI (XI (XI (XI (XI
    (XI (XI (XI (XI (XI (XI (XI (XI (XI (XI (XI (XI (XI (XI
    XH)))))))))))))))))))))))))))))))

(** val crc_shift1 : n -> n **)

let crc_shift1 c =
  if N.odd c then N.coq_lxor (N.div2 c) crc_poly else N.div2 c

(** val crc_byte : n -> n -> n **)

let crc_byte c b =
  crc_shift1
    (crc_shift1
      (crc_shift1
        (crc_shift1
          (crc_shift1 (crc_shift1 (crc_shift1 (crc_shift1 (N.coq_lxor c b))))))))

(** val crc_raw : n -> bytes -> n **)

let crc_raw c bs =
  fold_left crc_byte bs c

(** val crc_update : n -> bytes -> n **)

let crc_update crc bs =
  N.coq_lxor (crc_raw (N.coq_lxor crc crc_mask) bs) crc_mask

(** val crc32c : bytes -> n **)

let crc32c bs =
  crc_update N0 bs

type waction =
| WWrite of n * bytes
| WSync

type wres =
| WOk
| WErrSealed
| WErrTooBig
| WErrNonMono
| WErrShortBuf
| WErrIO

type wfault =
| FNone
| FWrite
| FSync

type wstate = { w_info : seginfo; w_buf : bytes; w_crc : n; w_off : n;
                w_index_start : n; w_offsets : n list; w_commit_idx : 
                n }

(** val set_buf : wstate -> bytes -> n -> n list -> wstate **)

let set_buf w buf crc offs =
  { w_info = w.w_info; w_buf = buf; w_crc = crc; w_off = w.w_off;
    w_index_start = w.w_index_start; w_offsets = offs; w_commit_idx =
    w.w_commit_idx }

(** val init_empty : seginfo -> wstate **)

let init_empty info =
  let h = file_header info in
  { w_info = info; w_buf = h; w_crc = (crc32c h); w_off = N0; w_index_start =
  N0; w_offsets = []; w_commit_idx = N0 }

type entry = n * bytes

(** val append_entry : wstate -> entry -> wstate option **)

let append_entry w e =
  if N.eqb (fst e) (N.add w.w_info.si_base (len w.w_offsets))
  then let fr = enc_frame frameEntry (snd e) in
       Some
       (set_buf w (app w.w_buf fr) (crc_update w.w_crc fr)
         (app w.w_offsets
           ((N.modulo (N.add w.w_off (len w.w_buf)) two32) :: [])))
  else None

(** val append_entries : wstate -> entry list -> wstate option **)

let rec append_entries w = function
| [] -> Some w
| e :: r ->
  (match append_entry w e with
   | Some w' -> append_entries w' r
   | None -> None)

(** val append_index : wstate -> wstate option **)

let append_index w =
  match w.w_offsets with
  | [] -> None
  | _ :: _ ->
    let fr = index_frame w.w_offsets in
    Some { w_info = w.w_info; w_buf = (app w.w_buf fr); w_crc =
    (crc_update w.w_crc fr); w_off = w.w_off; w_index_start =
    (N.add (N.add w.w_off (len w.w_buf)) (Npos (XO (XO (XO XH)))));
    w_offsets = w.w_offsets; w_commit_idx = w.w_commit_idx }

(** val commit_idx_of : wstate -> n **)

let commit_idx_of w =
  match w.w_offsets with
  | [] -> N0
  | _ :: _ -> N.sub (N.add w.w_info.si_base (len w.w_offsets)) (Npos XH)

(** val append_commit : wstate -> wfault -> wstate option * waction list **)

let append_commit w f =
  let buf = app w.w_buf (commit_frame w.w_crc) in
  (match f with
   | FNone ->
     let w' = { w_info = w.w_info; w_buf = []; w_crc = N0; w_off =
       (N.modulo (N.add w.w_off (len buf)) two32); w_index_start =
       w.w_index_start; w_offsets = w.w_offsets; w_commit_idx =
       w.w_commit_idx }
     in
     ((Some { w_info = w'.w_info; w_buf = []; w_crc = N0; w_off = w'.w_off;
     w_index_start = w'.w_index_start; w_offsets = w'.w_offsets;
     w_commit_idx = (commit_idx_of w') }), ((WWrite (w.w_off,
     buf)) :: (WSync :: [])))
   | FWrite -> (None, [])
   | FSync -> (None, ((WWrite (w.w_off, buf)) :: (WSync :: []))))

(** val needs_seal : wstate -> bool **)

let needs_seal w =
  N.ltb w.w_info.si_size_limit
    (N.modulo
      (N.add w.w_off
        (N.modulo (N.add (len w.w_buf) (index_frame_size (len w.w_offsets)))
          two32)) two32)

(** val too_big : entry list -> bool **)

let too_big es =
  existsb (fun e -> N.ltb maxEntrySize (len (snd e))) es

(** val append :
    wstate -> entry list -> wfault -> (wres * wstate) * waction list **)

let append w es f =
  match es with
  | [] -> ((WOk, w), [])
  | _ :: _ ->
    if N.ltb N0 w.w_index_start
    then ((WErrSealed, w), [])
    else if too_big es
         then ((WErrTooBig, w), [])
         else (match append_entries w es with
               | Some w1 ->
                 let w2 = if needs_seal w1 then append_index w1 else Some w1
                 in
                 (match w2 with
                  | Some w3 ->
                    let (o, acts) = append_commit w3 f in
                    (match o with
                     | Some w4 -> ((WOk, w4), acts)
                     | None -> ((WErrIO, w), acts))
                  | None -> ((WErrShortBuf, w), []))
               | None -> ((WErrNonMono, w), []))

(** val force_seal : wstate -> wfault -> (wres * wstate) * waction list **)

let force_seal w f =
  if N.ltb N0 w.w_index_start
  then ((WOk, w), [])
  else (match append_index w with
        | Some w1 ->
          let (o, acts) = append_commit w1 f in
          (match o with
           | Some w2 -> ((WOk, w2), acts)
           | None -> ((WErrIO, w), acts))
        | None -> ((WErrShortBuf, w), []))

(** val sealed : wstate -> bool **)

let sealed w =
  N.ltb N0 w.w_index_start

(** val apply_waction : bytes -> waction -> bytes **)

let apply_waction file = function
| WWrite (off, bs) -> overwrite file (N.to_nat off) bs
| WSync -> file

(** val apply_wactions : bytes -> waction list -> bytes **)

let apply_wactions file acts =
  fold_left apply_waction acts file

(** val read_at : bytes -> n -> n -> bytes **)

let read_at f off n0 =
  if N.leb (len f) off
  then []
  else sub0 (N.to_nat off) (N.to_nat (N.min n0 (N.sub (len f) off))) f

type frame_ev = { fe_typ : n; fe_val : n; fe_off : n }

(** val scan_from : nat -> bytes -> n -> frame_ev list **)

let rec scan_from fuel f off =
  match fuel with
  | O -> []
  | S fuel' ->
    (match read_frame_header (read_at f off (Npos (XO (XO (XO XH))))) with
     | FH (typ, v) ->
       { fe_typ = typ; fe_val = v; fe_off =
         off } :: (scan_from fuel' f
                    (N.add off (enc_frame_size (fh_len typ v))))
     | _ -> [])

(** val scan_fuel : bytes -> nat **)

let scan_fuel f =
  S (Nat.div (length f) (S (S (S (S (S (S (S (S O)))))))))

(** val scan : bytes -> frame_ev list **)

let scan f =
  scan_from (scan_fuel f) f (Npos (XO (XO (XO (XO (XO XH))))))

(** val scanned_header : bytes -> (n * n) * n **)

let scanned_header f =
  match read_file_header
          (firstn (S (S (S (S (S (S (S (S (S (S (S (S (S (S (S (S (S (S (S (S
            (S (S (S (S (S (S (S (S (S (S (S (S
            O))))))))))))))))))))))))))))))))
            (app f
              (zeros (S (S (S (S (S (S (S (S (S (S (S (S (S (S (S (S (S (S (S
                (S (S (S (S (S (S (S (S (S (S (S (S (S
                O))))))))))))))))))))))))))))))))))) with
  | Some h -> h
  | None -> ((N0, N0), N0)

type commit_info = { c_crc : n; c_off : n; c_crc_start : n;
                     c_offsets_len : nat; c_index_start : n }

type rec_acc = { ra_offsets : n list; ra_pending : n;
                 ra_prev : commit_info option; ra_final : commit_info option }

(** val rec_step : rec_acc -> frame_ev -> rec_acc **)

let rec_step a e =
  if N.eqb e.fe_typ frameEntry
  then { ra_offsets = (app a.ra_offsets ((N.modulo e.fe_off two32) :: []));
         ra_pending = a.ra_pending; ra_prev = a.ra_prev; ra_final =
         a.ra_final }
  else if N.eqb e.fe_typ frameIndex
       then { ra_offsets = a.ra_offsets; ra_pending =
              (N.add e.fe_off (Npos (XO (XO (XO XH))))); ra_prev = a.ra_prev;
              ra_final = a.ra_final }
       else { ra_offsets = a.ra_offsets; ra_pending = N0; ra_prev =
              a.ra_final; ra_final = (Some { c_crc = e.fe_val; c_off =
              e.fe_off; c_crc_start =
              (match a.ra_final with
               | Some p -> N.add p.c_off (Npos (XO (XO (XO XH))))
               | None -> N0); c_offsets_len = (length a.ra_offsets);
              c_index_start = a.ra_pending }) }

(** val rec_fold : frame_ev list -> rec_acc **)

let rec_fold evs =
  fold_left rec_step evs { ra_offsets = []; ra_pending = N0; ra_prev = None;
    ra_final = None }

(** val recovered : seginfo -> n -> n -> n list -> wstate **)

let recovered info off istart offs =
  let w = { w_info = info; w_buf = []; w_crc = N0; w_off =
    (N.modulo off two32); w_index_start = istart; w_offsets = offs;
    w_commit_idx = N0 }
  in
  { w_info = info; w_buf = []; w_crc = N0; w_off = w.w_off; w_index_start =
  istart; w_offsets = offs; w_commit_idx = (commit_idx_of w) }

(** val recover_state : seginfo -> bytes -> wstate option **)

let recover_state info f =
  let a = rec_fold (scan f) in
  let hdr_ok = validate_file_header (scanned_header f) info in
  (match a.ra_final with
   | Some fc ->
     if Nat.ltb fc.c_offsets_len (length a.ra_offsets)
     then if hdr_ok
          then Some
                 (recovered info (N.add fc.c_off (Npos (XO (XO (XO XH)))))
                   fc.c_index_start (firstn fc.c_offsets_len a.ra_offsets))
          else None
     else let batch = read_at f fc.c_crc_start (N.sub fc.c_off fc.c_crc_start)
          in
          if N.eqb (crc32c batch) fc.c_crc
          then if hdr_ok
               then Some
                      (recovered info
                        (N.add fc.c_off (Npos (XO (XO (XO XH)))))
                        fc.c_index_start a.ra_offsets)
               else None
          else (match a.ra_prev with
                | Some pc ->
                  if hdr_ok
                  then Some
                         (recovered info
                           (N.add pc.c_off (Npos (XO (XO (XO XH)))))
                           pc.c_index_start
                           (firstn pc.c_offsets_len a.ra_offsets))
                  else None
                | None -> Some (init_empty info))
   | None -> Some (init_empty info))

(** val scrub_chunks : nat -> bytes -> n -> waction list **)

let rec scrub_chunks fuel f off =
  match fuel with
  | O -> []
  | S fuel' ->
    let c = read_at f off min_buf_size in
    (match c with
     | [] -> []
     | _ :: _ ->
       app
         (if all_zero c then [] else (WWrite (off, (zeros (length c)))) :: [])
         (scrub_chunks fuel' f (N.add off (len c))))

(** val scrub_actions : bytes -> n -> waction list **)

let scrub_actions f off =
  let ws = scrub_chunks (S (N.to_nat (N.div (len f) min_buf_size))) f off in
  (match ws with
   | [] -> []
   | _ :: _ -> app ws (WSync :: []))

(** val recover_tail : seginfo -> bytes -> (wstate * waction list) option **)

let recover_tail info f =
  match recover_state info f with
  | Some w -> Some (w, (scrub_actions f w.w_off))
  | None -> None

type rres =
| ROk of bytes
| RNotFound
| RCorrupt
| RErr

(** val read_frame : bytes -> n -> rres * n **)

let read_frame f off =
  let buf = read_at f off min_buf_size in
  if N.ltb (len buf) (Npos (XO (XO (XO XH))))
  then (RErr, N0)
  else (match read_frame_header buf with
        | FH (typ, v) ->
          let l = fh_len typ v in
          if N.leb (N.add (Npos (XO (XO (XO XH)))) l) (len buf)
          then ((ROk
                 (sub0 (S (S (S (S (S (S (S (S O)))))))) (N.to_nat l) buf)),
                 N0)
          else if N.ltb maxEntrySize l
               then (RCorrupt, N0)
               else let p = read_at f (N.add off (Npos (XO (XO (XO XH))))) l
                    in
                    if N.ltb (len p) l then (RErr, l) else ((ROk p), l)
        | FHZero -> ((ROk []), N0)
        | FHCorrupt -> (RCorrupt, N0)
        | FHShort -> (RErr, N0))

(** val tail_offset : wstate -> n -> n option **)

let tail_offset w idx =
  if (||) ((||) (N.ltb idx w.w_info.si_base) (N.ltb idx w.w_info.si_min))
       (N.ltb w.w_commit_idx idx)
  then None
  else nth_error w.w_offsets (N.to_nat (N.sub idx w.w_info.si_base))

(** val tail_get : wstate -> bytes -> n -> rres **)

let tail_get w f idx =
  match tail_offset w idx with
  | Some off -> fst (read_frame f off)
  | None -> RNotFound

(** val sealed_get : seginfo -> bytes -> n -> rres **)

let sealed_get info f idx =
  if N.eqb info.si_index_start N0
  then RErr
  else if (||) (N.ltb idx info.si_min)
            ((&&) (N.ltb N0 info.si_max) (N.ltb info.si_max idx))
       then RNotFound
       else let bo =
              N.modulo
                (N.add info.si_index_start
                  (N.mul (N.modulo (N.sub idx info.si_base) two64) (Npos (XO
                    (XO XH))))) two64
            in
            let b4 = read_at f bo (Npos (XO (XO XH))) in
            if N.ltb (len b4) (Npos (XO (XO XH)))
            then RErr
            else fst (read_frame f (rd32 b4))

(** val open_sealed : seginfo -> bytes -> bool **)

let open_sealed info f =
  if N.ltb (len f) (Npos (XO (XO (XO (XO (XO XH))))))
  then false
  else (match read_file_header
                (firstn (S (S (S (S (S (S (S (S (S (S (S (S (S (S (S (S (S (S
                  (S (S (S (S (S (S (S (S (S (S (S (S (S (S
                  O)))))))))))))))))))))))))))))))) f) with
        | Some h -> validate_file_header h info
        | None -> false)

type dump_res =
| DumpOk of (n * bytes) list
| DumpErr of (n * bytes) list

(** val dump_batch :
    bytes -> ((n * n) * n) list -> (n * bytes) list -> (n * bytes) list
    option * (n * bytes) list **)

let rec dump_batch f batch acc =
  match batch with
  | [] -> ((Some acc), acc)
  | p :: r ->
    let (p0, l) = p in
    let (idx, off) = p0 in
    if N.ltb maxEntrySize l
    then (None, acc)
    else let p1 = read_at f (N.add off (Npos (XO (XO (XO XH))))) l in
         if N.ltb (len p1) l
         then (None, acc)
         else dump_batch f r (app acc ((idx, p1) :: []))

(** val dump_go :
    bytes -> frame_ev list -> n -> n -> n -> ((n * n) * n) list ->
    (n * bytes) list -> dump_res **)

let rec dump_go f evs idx after before batch acc =
  match evs with
  | [] -> DumpOk acc
  | e :: r ->
    if N.eqb e.fe_typ frameCommit
    then let (o, acc') = dump_batch f batch acc in
         (match o with
          | Some acc'0 -> dump_go f r idx after before [] acc'0
          | None -> DumpErr acc')
    else if negb (N.eqb e.fe_typ frameEntry)
         then dump_go f r idx after before batch acc
         else if N.leb idx after
              then dump_go f r (N.add idx (Npos XH)) after before batch acc
              else if (&&) (N.ltb N0 before) (N.leb before idx)
                   then DumpOk acc
                   else dump_go f r (N.add idx (Npos XH)) after before
                          (app batch (((idx, e.fe_off), e.fe_val) :: [])) acc

(** val dump_segment : bytes -> n -> n -> n -> dump_res **)

let dump_segment f base after before =
  dump_go f (scan f) base after before [] []

type smode =
| MTail
| MSealed of seginfo
| MNone

type sst = { s_info : seginfo; s_file : bytes; s_w : wstate; s_mode : 
             smode; s_pre : bytes }

(** val s_sealedk : str **)

let s_sealedk =
  (Npos (XI (XI (XO (XO (XI (XI XH))))))) :: ((Npos (XI (XO (XI (XO (XO (XI
    XH))))))) :: ((Npos (XI (XO (XO (XO (XO (XI XH))))))) :: ((Npos (XO (XO
    (XI (XI (XO (XI XH))))))) :: ((Npos (XI (XO (XI (XO (XO (XI
    XH))))))) :: ((Npos (XO (XO (XI (XO (XO (XI XH))))))) :: [])))))

(** val s_toobig : str **)

let s_toobig =
  (Npos (XO (XO (XI (XO (XI (XI XH))))))) :: ((Npos (XI (XI (XI (XI (XO (XI
    XH))))))) :: ((Npos (XI (XI (XI (XI (XO (XI XH))))))) :: ((Npos (XO (XI
    (XO (XO (XO (XI XH))))))) :: ((Npos (XI (XO (XO (XI (XO (XI
    XH))))))) :: ((Npos (XI (XI (XI (XO (XO (XI XH))))))) :: [])))))

(** val s_nonmono : str **)

let s_nonmono =
  (Npos (XO (XI (XI (XI (XO (XI XH))))))) :: ((Npos (XI (XI (XI (XI (XO (XI
    XH))))))) :: ((Npos (XO (XI (XI (XI (XO (XI XH))))))) :: ((Npos (XI (XO
    (XI (XI (XO (XI XH))))))) :: ((Npos (XI (XI (XI (XI (XO (XI
    XH))))))) :: ((Npos (XO (XI (XI (XI (XO (XI XH))))))) :: ((Npos (XI (XI
    (XI (XI (XO (XI XH))))))) :: []))))))

(** val s_nf : str **)

let s_nf =
  (Npos (XO (XI (XI (XI (XO (XI XH))))))) :: ((Npos (XO (XI (XI (XO (XO (XI
    XH))))))) :: [])

(** val s_corrupt : str **)

let s_corrupt =
  (Npos (XI (XI (XO (XO (XO (XI XH))))))) :: ((Npos (XI (XI (XI (XI (XO (XI
    XH))))))) :: ((Npos (XO (XI (XO (XO (XI (XI XH))))))) :: ((Npos (XO (XI
    (XO (XO (XI (XI XH))))))) :: ((Npos (XI (XO (XI (XO (XI (XI
    XH))))))) :: ((Npos (XO (XO (XO (XO (XI (XI XH))))))) :: ((Npos (XO (XO
    (XI (XO (XI (XI XH))))))) :: []))))))

(** val colon : n **)

let colon =
  Npos (XO (XI (XO (XI (XI XH)))))

(** val show_wres : wres -> str **)

let show_wres = function
| WOk -> s_ok
| WErrSealed -> s_sealedk
| WErrTooBig -> s_toobig
| WErrNonMono -> s_nonmono
| _ -> s_err

(** val show_rres : rres -> str **)

let show_rres = function
| ROk p -> app s_ok (colon :: (bytes_to_hex p))
| RNotFound -> s_nf
| RCorrupt -> s_corrupt
| RErr -> s_err

(** val strip_zeros_rev : bytes -> bytes **)

let rec strip_zeros_rev r = match r with
| [] -> r
| n0 :: t -> (match n0 with
              | N0 -> strip_zeros_rev t
              | Npos _ -> r)

(** val strip_trailing_zeros : bytes -> bytes **)

let strip_trailing_zeros bs =
  rev_append (strip_zeros_rev (rev_append bs [])) []

(** val parse_entries : nat -> str list -> (entry list * str list) option **)

let rec parse_entries k ts =
  match k with
  | O -> Some ([], ts)
  | S k' ->
    (match ts with
     | [] -> None
     | i :: l ->
       (match l with
        | [] -> None
        | p :: r ->
          (match hex_to_N i with
           | Some i0 ->
             (match hex_to_bytes p with
              | Some p0 ->
                (match parse_entries k' r with
                 | Some p1 ->
                   let (es, rest) = p1 in Some (((i0, p0) :: es), rest)
                 | None -> None)
              | None -> None)
           | None -> None)))

(** val crash_mix : bytes -> bytes -> n -> nat -> bytes **)

let rec crash_mix old new0 mask0 = function
| O -> []
| S f ->
  (match old with
   | [] ->
     (match new0 with
      | [] -> []
      | _ :: _ ->
        app
          (if N.odd mask0
           then firstn (S (S (S (S (S (S (S (S O)))))))) new0
           else firstn (S (S (S (S (S (S (S (S O)))))))) old)
          (crash_mix (skipn (S (S (S (S (S (S (S (S O)))))))) old)
            (skipn (S (S (S (S (S (S (S (S O)))))))) new0) (N.div2 mask0) f))
   | _ :: _ ->
     app
       (if N.odd mask0
        then firstn (S (S (S (S (S (S (S (S O)))))))) new0
        else firstn (S (S (S (S (S (S (S (S O)))))))) old)
       (crash_mix (skipn (S (S (S (S (S (S (S (S O)))))))) old)
         (skipn (S (S (S (S (S (S (S (S O)))))))) new0) (N.div2 mask0) f))

(** val pad_to : nat -> bytes -> bytes **)

let pad_to n0 bs =
  app bs (zeros (sub n0 (length bs)))

(** val show_dump : dump_res -> str **)

let show_dump r =
  let show_es = fun es ->
    join
      (map (fun e ->
        app (n_to_hex (fst e)) (colon :: (bytes_to_hex (snd e)))) es)
  in
  (match r with
   | DumpOk es -> app s_ok (colon :: (show_es es))
   | DumpErr es -> app s_err (colon :: (show_es es)))

(** val chr : n -> str -> bool **)

let chr c s =
  str_eqb s (c :: [])

(** val pre_of : sst -> waction list -> bytes **)

let pre_of st = function
| [] -> st.s_pre
| _ :: _ -> st.s_file

(** val run_ops : nat -> sst -> str list -> str list -> str list **)

let rec run_ops fuel st ts acc =
  match fuel with
  | O -> rev_append acc []
  | S fuel' ->
    (match ts with
     | [] -> rev_append acc []
     | op :: r ->
       if chr (Npos (XI (XO (XO (XO (XO (XO XH))))))) op
       then (match r with
             | [] -> rev_append (s_bad :: acc) []
             | k :: r1 ->
               (match hex_to_N k with
                | Some k0 ->
                  (match parse_entries (N.to_nat k0) r1 with
                   | Some p ->
                     let (es, r2) = p in
                     (match st.s_mode with
                      | MTail ->
                        let (p0, acts) = append st.s_w es FNone in
                        let (res, w') = p0 in
                        let f' = apply_wactions st.s_file acts in
                        run_ops fuel' { s_info = st.s_info; s_file = f';
                          s_w = w'; s_mode = MTail; s_pre =
                          (pre_of st acts) } r2 ((show_wres res) :: acc)
                      | _ -> run_ops fuel' st r2 (s_bad :: acc))
                   | None -> rev_append (s_bad :: acc) [])
                | None -> rev_append (s_bad :: acc) []))
       else if chr (Npos (XI (XI (XO (XO (XI (XO XH))))))) op
            then (match st.s_mode with
                  | MTail ->
                    let (p, acts) = force_seal st.s_w FNone in
                    let (res, w') = p in
                    let f' = apply_wactions st.s_file acts in
                    let o =
                      match res with
                      | WOk -> app s_ok (colon :: (n_to_hex w'.w_index_start))
                      | _ -> show_wres res
                    in
                    run_ops fuel' { s_info = st.s_info; s_file = f'; s_w =
                      w'; s_mode = MTail; s_pre = (pre_of st acts) } r
                      (o :: acc)
                  | _ -> run_ops fuel' st r (s_bad :: acc))
            else if chr (Npos (XI (XO (XO (XO (XI (XO XH))))))) op
                 then let o =
                        if sealed st.s_w
                        then app ((Npos (XI (XO (XO (XO (XI
                               XH)))))) :: (colon :: []))
                               (n_to_hex st.s_w.w_index_start)
                        else (Npos (XO (XO (XO (XO (XI XH)))))) :: []
                      in
                      run_ops fuel' st r (o :: acc)
                 else if chr (Npos (XO (XO (XI (XI (XO (XO XH))))))) op
                      then run_ops fuel' st r
                             ((n_to_hex st.s_w.w_commit_idx) :: acc)
                      else if chr (Npos (XI (XI (XI (XO (XO (XO XH))))))) op
                           then (match r with
                                 | [] -> rev_append (s_bad :: acc) []
                                 | i :: r1 ->
                                   (match hex_to_N i with
                                    | Some i0 ->
                                      let o =
                                        match st.s_mode with
                                        | MTail ->
                                          show_rres
                                            (tail_get st.s_w st.s_file i0)
                                        | MSealed info ->
                                          show_rres
                                            (sealed_get info st.s_file i0)
                                        | MNone -> s_bad
                                      in
                                      run_ops fuel' st r1 (o :: acc)
                                    | None -> rev_append (s_bad :: acc) []))
                           else if chr (Npos (XO (XI (XO (XO (XI (XO
                                     XH))))))) op
                                then (match recover_tail st.s_info st.s_file with
                                      | Some p ->
                                        let (w', acts) = p in
                                        run_ops fuel' { s_info = st.s_info;
                                          s_file =
                                          (apply_wactions st.s_file acts);
                                          s_w = w'; s_mode = MTail; s_pre =
                                          (pre_of st acts) } r (s_ok :: acc)
                                      | None ->
                                        run_ops fuel' { s_info = st.s_info;
                                          s_file = st.s_file; s_w = st.s_w;
                                          s_mode = MNone; s_pre = st.s_pre }
                                          r (s_corrupt :: acc))
                                else if chr (Npos (XI (XI (XO (XO (XO (XO
                                          XH))))))) op
                                     then (match r with
                                           | [] ->
                                             rev_append (s_bad :: acc) []
                                           | m :: r1 ->
                                             (match hex_to_N m with
                                              | Some m0 ->
                                                let n0 =
                                                  Nat.max (length st.s_pre)
                                                    (length st.s_file)
                                                in
                                                let img =
                                                  crash_mix
                                                    (pad_to n0 st.s_pre)
                                                    (pad_to n0 st.s_file) m0
                                                    (S
                                                    (Nat.div n0 (S (S (S (S
                                                      (S (S (S (S O))))))))))
                                                in
                                                run_ops fuel' { s_info =
                                                  st.s_info; s_file = img;
                                                  s_w = st.s_w; s_mode =
                                                  MNone; s_pre = img }
                                                  (((Npos (XO (XI (XO (XO (XI
                                                  (XO XH))))))) :: []) :: r1)
                                                  acc
                                              | None ->
                                                rev_append (s_bad :: acc) []))
                                     else if chr (Npos (XI (XI (XI (XI (XO
                                               (XO XH))))))) op
                                          then (match r with
                                                | [] ->
                                                  rev_append (s_bad :: acc) []
                                                | mn :: l ->
                                                  (match l with
                                                   | [] ->
                                                     rev_append
                                                       (s_bad :: acc) []
                                                   | mx :: r1 ->
                                                     (match hex_to_N mn with
                                                      | Some mn0 ->
                                                        (match hex_to_N mx with
                                                         | Some mx0 ->
                                                           let info =
                                                             { si_id =
                                                             st.s_info.si_id;
                                                             si_base =
                                                             st.s_info.si_base;
                                                             si_min = mn0;
                                                             si_max = mx0;
                                                             si_codec =
                                                             st.s_info.si_codec;
                                                             si_index_start =
                                                             st.s_w.w_index_start;
                                                             si_sealed =
                                                             true;
                                                             si_size_limit =
                                                             st.s_info.si_size_limit }
                                                           in
                                                           if open_sealed
                                                                info st.s_file
                                                           then run_ops fuel'
                                                                  { s_info =
                                                                  st.s_info;
                                                                  s_file =
                                                                  st.s_file;
                                                                  s_w =
                                                                  st.s_w;
                                                                  s_mode =
                                                                  (MSealed
                                                                  info);
                                                                  s_pre =
                                                                  st.s_pre }
                                                                  r1
                                                                  (s_ok :: acc)
                                                           else run_ops fuel'
                                                                  { s_info =
                                                                  st.s_info;
                                                                  s_file =
                                                                  st.s_file;
                                                                  s_w =
                                                                  st.s_w;
                                                                  s_mode =
                                                                  MNone;
                                                                  s_pre =
                                                                  st.s_pre }
                                                                  r1
                                                                  (s_corrupt :: acc)
                                                         | None ->
                                                           rev_append
                                                             (s_bad :: acc) [])
                                                      | None ->
                                                        rev_append
                                                          (s_bad :: acc) [])))
                                          else if chr (Npos (XO (XO (XO (XI
                                                    (XI (XO XH))))))) op
                                               then (match r with
                                                     | [] ->
                                                       rev_append
                                                         (s_bad :: acc) []
                                                     | o :: l ->
                                                       (match l with
                                                        | [] ->
                                                          rev_append
                                                            (s_bad :: acc) []
                                                        | h :: r1 ->
                                                          (match hex_to_N o with
                                                           | Some o0 ->
                                                             (match hex_to_bytes
                                                                    h with
                                                              | Some h0 ->
                                                                run_ops fuel'
                                                                  { s_info =
                                                                  st.s_info;
                                                                  s_file =
                                                                  (overwrite
                                                                    st.s_file
                                                                    (N.to_nat
                                                                    o0) h0);
                                                                  s_w =
                                                                  st.s_w;
                                                                  s_mode =
                                                                  st.s_mode;
                                                                  s_pre =
                                                                  st.s_pre }
                                                                  r1 acc
                                                              | None ->
                                                                rev_append
                                                                  (s_bad :: acc)
                                                                  [])
                                                           | None ->
                                                             rev_append
                                                               (s_bad :: acc)
                                                               [])))
                                               else if chr (Npos (XO (XO (XI
                                                         (XO (XI (XO
                                                         XH))))))) op
                                                    then (match r with
                                                          | [] ->
                                                            rev_append
                                                              (s_bad :: acc)
                                                              []
                                                          | n0 :: r1 ->
                                                            (match hex_to_N n0 with
                                                             | Some n1 ->
                                                               run_ops fuel'
                                                                 { s_info =
                                                                 st.s_info;
                                                                 s_file =
                                                                 (firstn
                                                                   (N.to_nat
                                                                    n1)
                                                                   st.s_file);
                                                                 s_w =
                                                                 st.s_w;
                                                                 s_mode =
                                                                 st.s_mode;
                                                                 s_pre =
                                                                 st.s_pre }
                                                                 r1 acc
                                                             | None ->
                                                               rev_append
                                                                 (s_bad :: acc)
                                                                 []))
                                                    else if chr (Npos (XO (XI
                                                              (XI (XO (XO (XO
                                                              XH))))))) op
                                                         then run_ops fuel'
                                                                st r
                                                                ((bytes_to_hex
                                                                   (strip_trailing_zeros
                                                                    st.s_file)) :: acc)
                                                         else if chr (Npos
                                                                   (XO (XO
                                                                   (XI (XO
                                                                   (XO (XO
                                                                   XH)))))))
                                                                   op
                                                              then (match r with
                                                                    | [] ->
                                                                    rev_append
                                                                    (s_bad :: acc)
                                                                    []
                                                                    | a :: l ->
                                                                    (match l with
                                                                    | [] ->
                                                                    rev_append
                                                                    (s_bad :: acc)
                                                                    []
                                                                    | b :: r1 ->
                                                                    (match 
                                                                    hex_to_N a with
                                                                    | Some a0 ->
                                                                    (match 
                                                                    hex_to_N b with
                                                                    | Some b0 ->
                                                                    run_ops
                                                                    fuel' st
                                                                    r1
                                                                    ((show_dump
                                                                    (dump_segment
                                                                    st.s_file
                                                                    st.s_info.si_base
                                                                    a0 b0)) :: acc)
                                                                    | None ->
                                                                    rev_append
                                                                    (s_bad :: acc)
                                                                    [])
                                                                    | None ->
                                                                    rev_append
                                                                    (s_bad :: acc)
                                                                    [])))
                                                              else rev_append
                                                                    (s_bad :: acc)
                                                                    [])

(** val run_seg : str list -> str **)

let run_seg = function
| [] -> s_bad
| b :: l0 ->
  (match l0 with
   | [] -> s_bad
   | i :: l1 ->
     (match l1 with
      | [] -> s_bad
      | c :: l2 ->
        (match l2 with
         | [] -> s_bad
         | l :: l3 ->
           (match l3 with
            | [] -> s_bad
            | fsz :: ops ->
              (match hex_to_N b with
               | Some b0 ->
                 (match hex_to_N i with
                  | Some i0 ->
                    (match hex_to_N c with
                     | Some c0 ->
                       (match hex_to_N l with
                        | Some l4 ->
                          (match hex_to_N fsz with
                           | Some fsz0 ->
                             let info = { si_id = i0; si_base = b0; si_min =
                               b0; si_max = N0; si_codec = c0;
                               si_index_start = N0; si_sealed = false;
                               si_size_limit = l4 }
                             in
                             let f0 = zeros (N.to_nat fsz0) in
                             join
                               (run_ops (S (length ops)) { s_info = info;
                                 s_file = f0; s_w = (init_empty info);
                                 s_mode = MTail; s_pre = f0 } ops [])
                           | None -> s_bad)
                        | None -> s_bad)
                     | None -> s_bad)
                  | None -> s_bad)
               | None -> s_bad)))))

(** val llen : 'a1 list -> n **)

let llen l =
  N.of_nat (length l)

(** val sub64 : n -> n -> n **)

let sub64 a b =
  N.modulo (N.sub (N.add a two64) (N.modulo b two64)) two64

type pstate = { ps_next_id : n; ps_segs : seginfo list }

type fname = n * n

(** val name_of : seginfo -> fname **)

let name_of si =
  (si.si_base, si.si_id)

(** val fname_eqb : fname -> fname -> bool **)

let fname_eqb a b =
  (&&) (N.eqb (fst a) (fst b)) (N.eqb (snd a) (snd b))

type pbatch = { pb_ents : log list; pb_end : n; pb_seal : n }

type dfile = { df_ents : log list; df_end : n; df_seal : n;
               df_pend : pbatch option; df_dir : bool; df_size : n }

type kv = bytes * bytes

type disk = { dk_files : (fname * dfile) list; dk_meta : pstate option;
              dk_stable : kv list; dk_inited : bool }

(** val empty_disk : disk **)

let empty_disk =
  { dk_files = []; dk_meta = None; dk_stable = []; dk_inited = false }

(** val lookup : fname -> (fname * dfile) list -> dfile option **)

let rec lookup n0 = function
| [] -> None
| p :: r -> let (m, f) = p in if fname_eqb n0 m then Some f else lookup n0 r

(** val update :
    fname -> dfile -> (fname * dfile) list -> (fname * dfile) list **)

let rec update n0 f = function
| [] -> (n0, f) :: []
| p :: r ->
  let (m, g) = p in
  if fname_eqb n0 m then (n0, f) :: r else (m, g) :: (update n0 f r)

(** val remove : fname -> (fname * dfile) list -> (fname * dfile) list **)

let rec remove n0 = function
| [] -> []
| p :: r ->
  let (m, g) = p in if fname_eqb n0 m then r else (m, g) :: (remove n0 r)

type act =
| ACreate of fname * n
| AWrite of fname * n * n * pbatch
| ASync of fname
| ADelete of fname
| ACommit of pstate
| ASetStable of bytes * bytes
| AInitMeta
| AFail of act

(** val bytes_eqb : bytes -> bytes -> bool **)

let bytes_eqb =
  beq_bytes

(** val kv_set : bytes -> bytes -> kv list -> kv list **)

let rec kv_set k v = function
| [] -> (match v with
         | [] -> []
         | _ :: _ -> (k, v) :: [])
| k0 :: r ->
  let (k', v') = k0 in
  if bytes_eqb k k'
  then (match v with
        | [] -> r
        | _ :: _ -> (k, v) :: r)
  else (k', v') :: (kv_set k v r)

(** val kv_get : bytes -> kv list -> bytes **)

let rec kv_get k = function
| [] -> []
| k0 :: r -> let (k', v') = k0 in if bytes_eqb k k' then v' else kv_get k r

(** val apply_act : disk -> act -> disk **)

let apply_act d = function
| ACreate (n0, size) ->
  { dk_files =
    (update n0 { df_ents = []; df_end = N0; df_seal = N0; df_pend = None;
      df_dir = false; df_size = size } d.dk_files); dk_meta = d.dk_meta;
    dk_stable = d.dk_stable; dk_inited = d.dk_inited }
| AWrite (n0, off, _, b) ->
  (match lookup n0 d.dk_files with
   | Some f ->
     let b' =
       match f.df_pend with
       | Some p ->
         if N.eqb off p.pb_end
         then { pb_ents = (app p.pb_ents b.pb_ents); pb_end = b.pb_end;
                pb_seal = b.pb_seal }
         else b
       | None -> b
     in
     { dk_files =
     (update n0 { df_ents = f.df_ents; df_end = f.df_end; df_seal =
       f.df_seal; df_pend = (Some b'); df_dir = f.df_dir; df_size =
       f.df_size } d.dk_files); dk_meta = d.dk_meta; dk_stable = d.dk_stable;
     dk_inited = d.dk_inited }
   | None -> d)
| ASync n0 ->
  (match lookup n0 d.dk_files with
   | Some f ->
     let f' =
       match f.df_pend with
       | Some b ->
         { df_ents = (app f.df_ents b.pb_ents); df_end = b.pb_end; df_seal =
           b.pb_seal; df_pend = None; df_dir = true; df_size = f.df_size }
       | None ->
         { df_ents = f.df_ents; df_end = f.df_end; df_seal = f.df_seal;
           df_pend = None; df_dir = true; df_size = f.df_size }
     in
     { dk_files = (update n0 f' d.dk_files); dk_meta = d.dk_meta; dk_stable =
     d.dk_stable; dk_inited = d.dk_inited }
   | None -> d)
| ADelete n0 ->
  { dk_files = (remove n0 d.dk_files); dk_meta = d.dk_meta; dk_stable =
    d.dk_stable; dk_inited = d.dk_inited }
| ACommit ps ->
  { dk_files = d.dk_files; dk_meta = (Some ps); dk_stable = d.dk_stable;
    dk_inited = true }
| ASetStable (k, v) ->
  { dk_files = d.dk_files; dk_meta = d.dk_meta; dk_stable =
    (kv_set k v d.dk_stable); dk_inited = true }
| AInitMeta ->
  { dk_files = d.dk_files; dk_meta = d.dk_meta; dk_stable = d.dk_stable;
    dk_inited = true }
| AFail _ -> d

(** val cur_ents : dfile -> log list **)

let cur_ents f =
  match f.df_pend with
  | Some b -> app f.df_ents b.pb_ents
  | None -> f.df_ents

(** val cur_end : dfile -> n **)

let cur_end f =
  match f.df_pend with
  | Some b -> b.pb_end
  | None -> f.df_end

(** val cur_seal : dfile -> n **)

let cur_seal f =
  match f.df_pend with
  | Some b -> b.pb_seal
  | None -> f.df_seal

type crash_choice = { cc_keep_file : fname list; cc_keep_batch : fname list }

(** val mem_name : fname -> fname list -> bool **)

let mem_name n0 l =
  existsb (fname_eqb n0) l

(** val crash_file :
    crash_choice -> (fname * dfile) -> (fname * dfile) list **)

let crash_file c = function
| (n0, f) ->
  if (&&) (negb f.df_dir) (negb (mem_name n0 c.cc_keep_file))
  then []
  else let keep = mem_name n0 c.cc_keep_batch in
       (n0,
       (match f.df_pend with
        | Some b ->
          if keep
          then { df_ents = (app f.df_ents b.pb_ents); df_end = b.pb_end;
                 df_seal = b.pb_seal; df_pend = None; df_dir = true;
                 df_size = f.df_size }
          else { df_ents = f.df_ents; df_end = f.df_end; df_seal = f.df_seal;
                 df_pend = None; df_dir = true; df_size = f.df_size }
        | None ->
          { df_ents = f.df_ents; df_end = f.df_end; df_seal = f.df_seal;
            df_pend = None; df_dir = true; df_size = f.df_size })) :: []

(** val crash_disk : crash_choice -> disk -> disk **)

let crash_disk c d =
  { dk_files = (flat_map (crash_file c) d.dk_files); dk_meta = d.dk_meta;
    dk_stable = d.dk_stable; dk_inited = d.dk_inited }

type wseg = { ws_name : fname; ws_base : n; ws_min : n; ws_limit : n;
              ws_n : n; ws_off : n; ws_hdr : bool; ws_index_start : n;
              ws_commit_idx : n }

type metrics = { m_bytes_written : n; m_entries_written : n; m_appends : 
                 n; m_bytes_read : n; m_entries_read : n; m_rotations : 
                 n; m_head_trunc : n; m_tail_trunc : n; m_stable_gets : 
                 n; m_stable_sets : n }

(** val zero_metrics : metrics **)

let zero_metrics =
  { m_bytes_written = N0; m_entries_written = N0; m_appends = N0;
    m_bytes_read = N0; m_entries_read = N0; m_rotations = N0; m_head_trunc =
    N0; m_tail_trunc = N0; m_stable_gets = N0; m_stable_sets = N0 }

type cfg = { c_seg_size : n; c_codec : n }

type wal = { st_next_id : n; st_segs : seginfo list; st_tail : wseg option;
             st_rotate : n option; st_failed : bool; st_closed : bool }

type result =
| ROk0
| RErrClosed
| RErrNotFound
| RErrNonMono
| RErrMiddle
| RErrSealed
| RErrTooBig
| RErrCorrupt
| RErrIO
| RErrFailed
| RErrOther
| RVal of n
| RLog of log
| RBytes of bytes

type env = { e_acts : act list; e_disk : disk; e_fault : nat option;
             e_m : metrics }

(** val is_delete : act -> bool **)

let is_delete = function
| ADelete _ -> true
| _ -> false

(** val io : act -> env -> bool * env **)

let io a e =
  if is_delete a
  then (true, { e_acts = (a :: e.e_acts); e_disk = (apply_act e.e_disk a);
         e_fault = e.e_fault; e_m = e.e_m })
  else (match e.e_fault with
        | Some n0 ->
          (match n0 with
           | O ->
             (false, { e_acts = ((AFail a) :: e.e_acts); e_disk = e.e_disk;
               e_fault = None; e_m = e.e_m })
           | S n1 ->
             (true, { e_acts = (a :: e.e_acts); e_disk =
               (apply_act e.e_disk a); e_fault = (Some n1); e_m = e.e_m }))
        | None ->
          (true, { e_acts = (a :: e.e_acts); e_disk = (apply_act e.e_disk a);
            e_fault = None; e_m = e.e_m }))

(** val with_m : env -> metrics -> env **)

let with_m e m =
  { e_acts = e.e_acts; e_disk = e.e_disk; e_fault = e.e_fault; e_m = m }

(** val seg_set : seginfo -> seginfo list -> seginfo list **)

let rec seg_set si l = match l with
| [] -> si :: []
| x :: r ->
  if N.ltb si.si_base x.si_base
  then si :: l
  else if N.eqb si.si_base x.si_base then si :: r else x :: (seg_set si r)

(** val seg_del : n -> seginfo list -> seginfo list **)

let rec seg_del base = function
| [] -> []
| x :: r -> if N.eqb x.si_base base then r else x :: (seg_del base r)

(** val tail_info : seginfo list -> seginfo option **)

let tail_info l =
  last (map (fun x -> Some x) l) None

(** val tail_last : wseg option -> n **)

let tail_last = function
| Some w -> w.ws_commit_idx
| None -> N0

(** val first_index : seginfo list -> wseg option -> n **)

let first_index segs t =
  match segs with
  | [] -> N0
  | s :: _ ->
    if (&&) (negb s.si_sealed) (N.eqb (tail_last t) N0) then N0 else s.si_min

(** val last_index : seginfo list -> wseg option -> n **)

let last_index segs t =
  if N.ltb N0 (tail_last t)
  then tail_last t
  else (match rev segs with
        | [] -> N0
        | tl :: l ->
          (match l with
           | [] -> N0
           | _ :: _ ->
             if N.eqb tl.si_base N0 then N0 else N.sub tl.si_base (Npos XH)))

(** val seek_split :
    n -> seginfo list -> seginfo list -> seginfo list * seginfo list **)

let rec seek_split idx before l = match l with
| [] -> (before, [])
| x :: r ->
  if N.leb idx x.si_base then (before, l) else seek_split idx (x :: before) r

(** val find_segment : seginfo list -> n -> seginfo option **)

let find_segment segs idx =
  let (before, l) = seek_split idx [] segs in
  (match l with
   | [] -> None
   | x :: _ ->
     let cand =
       if N.ltb idx x.si_base
       then (match before with
             | [] -> None
             | p :: _ -> Some p)
       else Some x
     in
     (match cand with
      | Some s ->
        if (&&) (N.leb s.si_min idx)
             ((||) (N.eqb s.si_max N0) (N.leb idx s.si_max))
        then Some s
        else None
      | None -> None))

(** val enc_len : log -> n **)

let enc_len l =
  match encode_log l with
  | Some b -> len b
  | None -> N0

(** val frames_size : log list -> n **)

let frames_size ls =
  fold_left (fun a l -> N.add a (enc_frame_size (enc_len l))) ls N0

(** val new_wseg : seginfo -> wseg **)

let new_wseg si =
  { ws_name = (name_of si); ws_base = si.si_base; ws_min = si.si_min;
    ws_limit = si.si_size_limit; ws_n = N0; ws_off = N0; ws_hdr = true;
    ws_index_start = N0; ws_commit_idx = N0 }

(** val seg_create : seginfo -> env -> wseg option * env **)

let seg_create si e =
  if N.eqb si.si_base N0
  then (None, e)
  else (match lookup (name_of si) e.e_disk.dk_files with
        | Some _ ->
          let (_, e') =
            io (AFail (ACreate ((name_of si), si.si_size_limit))) e
          in
          (None, e')
        | None ->
          let (ok, e') = io (ACreate ((name_of si), si.si_size_limit)) e in
          if ok then ((Some (new_wseg si)), e') else (None, e'))

(** val seg_append : wseg -> log list -> env -> (result * wseg) * env **)

let seg_append w ls e =
  match ls with
  | [] -> ((ROk0, w), e)
  | l0 :: _ ->
    if N.ltb N0 w.ws_index_start
    then ((RErrSealed, w), e)
    else if existsb (fun l -> N.ltb maxEntrySize (enc_len l)) ls
         then ((RErrTooBig, w), e)
         else if negb (N.eqb l0.l_index (N.add w.ws_base w.ws_n))
              then ((RErrNonMono, w), e)
              else let n' = N.add w.ws_n (llen ls) in
                   let buf =
                     N.add
                       (if w.ws_hdr
                        then Npos (XO (XO (XO (XO (XO XH)))))
                        else N0) (frames_size ls)
                   in
                   let seal =
                     N.ltb w.ws_limit
                       (N.modulo
                         (N.add w.ws_off
                           (N.modulo (N.add buf (index_frame_size n')) two32))
                         two32)
                   in
                   let buf2 =
                     if seal then N.add buf (index_frame_size n') else buf
                   in
                   let istart =
                     if seal
                     then N.add (N.add w.ws_off buf) (Npos (XO (XO (XO XH))))
                     else N0
                   in
                   let total = N.add buf2 (Npos (XO (XO (XO XH)))) in
                   let last0 = N.sub (N.add w.ws_base n') (Npos XH) in
                   let b = { pb_ents = ls; pb_end =
                     (N.modulo (N.add w.ws_off total) two32); pb_seal =
                     istart }
                   in
                   let (ok1, e1) =
                     io (AWrite (w.ws_name, w.ws_off, total, b)) e
                   in
                   if negb ok1
                   then ((RErrIO, w), e1)
                   else let (ok2, e2) = io (ASync w.ws_name) e1 in
                        if negb ok2
                        then ((RErrIO, w), e2)
                        else ((ROk0, { ws_name = w.ws_name; ws_base =
                               w.ws_base; ws_min = w.ws_min; ws_limit =
                               w.ws_limit; ws_n = n'; ws_off =
                               (N.modulo (N.add w.ws_off total) two32);
                               ws_hdr = false; ws_index_start = istart;
                               ws_commit_idx = last0 }), e2)

(** val seg_force_seal : wseg -> env -> (result * wseg) * env **)

let seg_force_seal w e =
  if N.ltb N0 w.ws_index_start
  then ((ROk0, w), e)
  else if N.eqb w.ws_n N0
       then ((RErrOther, w), e)
       else let buf =
              N.add
                (if w.ws_hdr then Npos (XO (XO (XO (XO (XO XH))))) else N0)
                (index_frame_size w.ws_n)
            in
            let istart =
              N.add
                (N.add w.ws_off
                  (if w.ws_hdr then Npos (XO (XO (XO (XO (XO XH))))) else N0))
                (Npos (XO (XO (XO XH))))
            in
            let total = N.add buf (Npos (XO (XO (XO XH)))) in
            let b = { pb_ents = []; pb_end =
              (N.modulo (N.add w.ws_off total) two32); pb_seal = istart }
            in
            let (ok1, e1) = io (AWrite (w.ws_name, w.ws_off, total, b)) e in
            if negb ok1
            then ((RErrIO, w), e1)
            else let (ok2, e2) = io (ASync w.ws_name) e1 in
                 if negb ok2
                 then ((RErrIO, w), e2)
                 else ((ROk0, { ws_name = w.ws_name; ws_base = w.ws_base;
                        ws_min = w.ws_min; ws_limit = w.ws_limit; ws_n =
                        w.ws_n; ws_off =
                        (N.modulo (N.add w.ws_off total) two32); ws_hdr =
                        false; ws_index_start = istart; ws_commit_idx =
                        (N.sub (N.add w.ws_base w.ws_n) (Npos XH)) }), e2)

(** val seg_recover : seginfo -> env -> wseg option option **)

let seg_recover si e =
  match lookup (name_of si) e.e_disk.dk_files with
  | Some f ->
    let ents = cur_ents f in
    let n0 = llen ents in
    Some (Some { ws_name = (name_of si); ws_base = si.si_base; ws_min =
    si.si_min; ws_limit = si.si_size_limit; ws_n = n0; ws_off = (cur_end f);
    ws_hdr = (N.eqb (cur_end f) N0); ws_index_start = (cur_seal f);
    ws_commit_idx =
    (if N.eqb n0 N0 then N0 else N.sub (N.add si.si_base n0) (Npos XH)) })
  | None -> None

(** val seg_read : fname -> n -> n -> disk -> log option **)

let seg_read n0 base idx d =
  match lookup n0 d.dk_files with
  | Some f -> nth_error (cur_ents f) (N.to_nat (N.sub idx base))
  | None -> None

(** val new_segment : cfg -> n -> n -> seginfo **)

let new_segment c id base =
  { si_id = id; si_base = base; si_min = base; si_max = N0; si_codec =
    c.c_codec; si_index_start = N0; si_sealed = false; si_size_limit =
    (N.modulo c.c_seg_size two32) }

(** val delete_files : fname list -> env -> env **)

let delete_files ns e =
  fold_left (fun e0 n0 -> snd (io (ADelete n0) e0)) ns e

type txn = { tx_next_id : n; tx_segs : seginfo list; tx_delete : fname list;
             tx_create : seginfo option; tx_tail : wseg option }

(** val create_next :
    cfg -> n -> seginfo list -> n -> (n * seginfo list) * seginfo **)

let create_next c next_id segs next_base =
  let base =
    match tail_info segs with
    | Some t -> N.add t.si_max (Npos XH)
    | None -> if N.ltb N0 next_base then next_base else Npos XH
  in
  let si = new_segment c next_id (N.modulo base two64) in
  (((N.modulo (N.add next_id (Npos XH)) two64), (seg_set si segs)), si)

(** val mutate_gen :
    bool -> wal -> txn -> env -> ((result * wal) * env) * fname list **)

let mutate_gen defer w t e =
  let ps = { ps_next_id = t.tx_next_id; ps_segs = t.tx_segs } in
  let (ok, e1) = io (ACommit ps) e in
  if negb ok
  then (((RErrIO, w), e1), [])
  else (match t.tx_create with
        | Some si ->
          let (sw, e2) = seg_create si e1 in
          (match sw with
           | Some sw0 ->
             let e3 = if defer then e2 else delete_files t.tx_delete e2 in
             (((ROk0, { st_next_id = t.tx_next_id; st_segs = t.tx_segs;
             st_tail = (Some sw0); st_rotate = w.st_rotate; st_failed =
             w.st_failed; st_closed = w.st_closed }), e3),
             (if defer then t.tx_delete else []))
           | None ->
             (((RErrIO, { st_next_id = w.st_next_id; st_segs = w.st_segs;
               st_tail = w.st_tail; st_rotate = w.st_rotate; st_failed =
               true; st_closed = w.st_closed }), e2), []))
        | None ->
          let e2 = if defer then e1 else delete_files t.tx_delete e1 in
          (((ROk0, { st_next_id = t.tx_next_id; st_segs = t.tx_segs;
          st_tail = t.tx_tail; st_rotate = w.st_rotate; st_failed =
          w.st_failed; st_closed = w.st_closed }), e2),
          (if defer then t.tx_delete else [])))

(** val mutate : wal -> txn -> env -> (result * wal) * env **)

let mutate w t e =
  let (p, _) = mutate_gen false w t e in p

(** val add_m : env -> (metrics -> metrics) -> env **)

let add_m e f =
  with_m e (f e.e_m)

(** val rotate : cfg -> wal -> env -> wal * env **)

let rotate c w e =
  match w.st_rotate with
  | Some istart ->
    let w0 = { st_next_id = w.st_next_id; st_segs = w.st_segs; st_tail =
      w.st_tail; st_rotate = None; st_failed = w.st_failed; st_closed =
      w.st_closed }
    in
    if w.st_closed
    then (w0, e)
    else let e0 =
           add_m e (fun m -> { m_bytes_written = m.m_bytes_written;
             m_entries_written = m.m_entries_written; m_appends =
             m.m_appends; m_bytes_read = m.m_bytes_read; m_entries_read =
             m.m_entries_read; m_rotations = (N.add m.m_rotations (Npos XH));
             m_head_trunc = m.m_head_trunc; m_tail_trunc = m.m_tail_trunc;
             m_stable_gets = m.m_stable_gets; m_stable_sets =
             m.m_stable_sets })
         in
         (match tail_info w.st_segs with
          | Some t ->
            let t' = { si_id = t.si_id; si_base = t.si_base; si_min =
              t.si_min; si_max = (tail_last w.st_tail); si_codec =
              t.si_codec; si_index_start = istart; si_sealed = true;
              si_size_limit = t.si_size_limit }
            in
            let segs1 = seg_set t' w.st_segs in
            let (p, si) = create_next c w.st_next_id segs1 N0 in
            let (nid, segs2) = p in
            let (p0, e') =
              mutate w0 { tx_next_id = nid; tx_segs = segs2; tx_delete = [];
                tx_create = (Some si); tx_tail = None } e0
            in
            let (_, w') = p0 in (w', e')
          | None -> (w0, e0))
  | None -> (w, e)

(** val reset_first :
    cfg -> wal -> n -> env -> ((result * wal) * env) * fname list **)

let reset_first c w new_base e =
  if N.ltb N0 (last_index w.st_segs w.st_tail)
  then (((RErrOther, w), e), [])
  else (match tail_info w.st_segs with
        | Some t ->
          if N.eqb t.si_base new_base
          then mutate_gen true w { tx_next_id = w.st_next_id; tx_segs =
                 w.st_segs; tx_delete = []; tx_create = None; tx_tail =
                 w.st_tail } e
          else let segs1 = seg_del t.si_base w.st_segs in
               let (p, si) = create_next c w.st_next_id segs1 new_base in
               let (nid, segs2) = p in
               mutate_gen true w { tx_next_id = nid; tx_segs = segs2;
                 tx_delete = ((name_of t) :: []); tx_create = (Some si);
                 tx_tail = None } e
        | None ->
          let (p, si) = create_next c w.st_next_id w.st_segs new_base in
          let (nid, segs2) = p in
          mutate_gen true w { tx_next_id = nid; tx_segs = segs2; tx_delete =
            []; tx_create = (Some si); tx_tail = None } e)

(** val check_logs : n -> log list -> result * n **)

let rec check_logs last0 = function
| [] -> (ROk0, N0)
| l :: r ->
  if (&&) (N.ltb N0 last0)
       (negb (N.eqb l.l_index (N.modulo (N.add last0 (Npos XH)) two64)))
  then (RErrNonMono, N0)
  else (match encode_log l with
        | Some b ->
          let (res, n0) = check_logs l.l_index r in
          (res, (N.modulo (N.add (len b) n0) two64))
        | None -> (RErrOther, N0))

(** val store_logs : cfg -> wal -> log list -> env -> (result * wal) * env **)

let store_logs c w ls e =
  if w.st_closed
  then ((RErrClosed, w), e)
  else (match ls with
        | [] -> ((ROk0, w), e)
        | l0 :: _ ->
          if w.st_failed
          then ((RErrFailed, w), e)
          else let last0 = last_index w.st_segs w.st_tail in
               let go = fun w0 e0 ->
                 let (res, nbytes) = check_logs last0 ls in
                 (match res with
                  | ROk0 ->
                    (match w0.st_tail with
                     | Some tw ->
                       let (p, e1) = seg_append tw ls e0 in
                       let (r, tw') = p in
                       (match r with
                        | ROk0 ->
                          let e2 =
                            add_m e1 (fun m -> { m_bytes_written =
                              (N.modulo (N.add m.m_bytes_written nbytes)
                                two64); m_entries_written =
                              (N.add m.m_entries_written (llen ls));
                              m_appends = (N.add m.m_appends (Npos XH));
                              m_bytes_read = m.m_bytes_read; m_entries_read =
                              m.m_entries_read; m_rotations = m.m_rotations;
                              m_head_trunc = m.m_head_trunc; m_tail_trunc =
                              m.m_tail_trunc; m_stable_gets =
                              m.m_stable_gets; m_stable_sets =
                              m.m_stable_sets })
                          in
                          ((ROk0, { st_next_id = w0.st_next_id; st_segs =
                          w0.st_segs; st_tail = (Some tw'); st_rotate =
                          (if N.ltb N0 tw'.ws_index_start
                           then Some tw'.ws_index_start
                           else None); st_failed = w0.st_failed; st_closed =
                          w0.st_closed }), e2)
                        | _ -> ((r, w0), e1))
                     | None -> ((RErrOther, w0), e0))
                  | _ -> ((res, w0), e0))
               in
               (match tail_info w.st_segs with
                | Some ti ->
                  if (&&) (N.eqb last0 N0)
                       (negb (N.eqb l0.l_index ti.si_base))
                  then let (p, dels) = reset_first c w l0.l_index e in
                       let (p0, e1) = p in
                       let (r, w1) = p0 in
                       (match r with
                        | ROk0 ->
                          let (p1, e2) = go w1 e1 in
                          (p1, (delete_files dels e2))
                        | _ -> ((r, w1), e1))
                  else go w e
                | None -> ((RErrOther, w), e)))

(** val head_scan :
    n -> n -> seginfo list -> fname list -> n -> ((seginfo list * fname
    list) * n) * seginfo option **)

let rec head_scan new_min tl segs del ntr =
  match segs with
  | [] -> ((([], del), ntr), None)
  | s :: r ->
    let max_idx = if s.si_sealed then s.si_max else tl in
    if N.leb new_min max_idx
    then (((segs, del), ntr), (Some s))
    else head_scan new_min tl r (app del ((name_of s) :: []))
           (if N.leb s.si_min max_idx
            then N.modulo
                   (N.add ntr (N.add (N.sub max_idx s.si_min) (Npos XH)))
                   two64
            else ntr)

(** val truncate_head : cfg -> wal -> n -> env -> (result * wal) * env **)

let truncate_head c w new_min e =
  let old_last = last_index w.st_segs w.st_tail in
  let (p, head) = head_scan new_min (tail_last w.st_tail) w.st_segs [] N0 in
  let (p0, ntr) = p in
  let (rest, del) = p0 in
  (match head with
   | Some h ->
     let ntr' = N.modulo (N.add ntr (sub64 new_min h.si_min)) two64 in
     let h' = { si_id = h.si_id; si_base = h.si_base; si_min = new_min;
       si_max = h.si_max; si_codec = h.si_codec; si_index_start =
       h.si_index_start; si_sealed = h.si_sealed; si_size_limit =
       h.si_size_limit }
     in
     let e0 =
       add_m e (fun m -> { m_bytes_written = m.m_bytes_written;
         m_entries_written = m.m_entries_written; m_appends = m.m_appends;
         m_bytes_read = m.m_bytes_read; m_entries_read = m.m_entries_read;
         m_rotations = m.m_rotations; m_head_trunc =
         (N.modulo (N.add m.m_head_trunc ntr') two64); m_tail_trunc =
         m.m_tail_trunc; m_stable_gets = m.m_stable_gets; m_stable_sets =
         m.m_stable_sets })
     in
     mutate w { tx_next_id = w.st_next_id; tx_segs = (seg_set h' rest);
       tx_delete = del; tx_create = None; tx_tail = w.st_tail } e0
   | None ->
     let (p1, si) =
       create_next c w.st_next_id []
         (N.modulo (N.add old_last (Npos XH)) two64)
     in
     let (nid, segs2) = p1 in
     let e0 =
       add_m e (fun m -> { m_bytes_written = m.m_bytes_written;
         m_entries_written = m.m_entries_written; m_appends = m.m_appends;
         m_bytes_read = m.m_bytes_read; m_entries_read = m.m_entries_read;
         m_rotations = m.m_rotations; m_head_trunc =
         (N.modulo (N.add m.m_head_trunc ntr) two64); m_tail_trunc =
         m.m_tail_trunc; m_stable_gets = m.m_stable_gets; m_stable_sets =
         m.m_stable_sets })
     in
     mutate w { tx_next_id = nid; tx_segs = segs2; tx_delete = del;
       tx_create = (Some si); tx_tail = None } e0)

(** val tail_scan :
    n -> n -> seginfo list -> fname list -> n -> (seginfo list * fname
    list) * n **)

let rec tail_scan new_max lastidx rsegs del ntr =
  match rsegs with
  | [] -> (([], del), ntr)
  | s :: r ->
    if N.leb s.si_base new_max
    then ((rsegs, del), ntr)
    else let max_idx = if s.si_sealed then s.si_max else lastidx in
         tail_scan new_max lastidx r (app del ((name_of s) :: []))
           (N.modulo (N.add (N.add ntr (sub64 max_idx s.si_min)) (Npos XH))
             two64)

(** val truncate_tail : cfg -> wal -> n -> env -> (result * wal) * env **)

let truncate_tail c w new_max e =
  let lastidx = last_index w.st_segs w.st_tail in
  let (p, ntr) = tail_scan new_max lastidx (rev w.st_segs) [] N0 in
  let (rrest, del) = p in
  let finish = fun t' ntr' rest tw e0 ->
    let segs1 = seg_set t' rest in
    let (p0, si) = create_next c w.st_next_id segs1 N0 in
    let (nid, segs2) = p0 in
    let e1 =
      add_m e0 (fun m -> { m_bytes_written = m.m_bytes_written;
        m_entries_written = m.m_entries_written; m_appends = m.m_appends;
        m_bytes_read = m.m_bytes_read; m_entries_read = m.m_entries_read;
        m_rotations = m.m_rotations; m_head_trunc = m.m_head_trunc;
        m_tail_trunc = (N.modulo (N.add m.m_tail_trunc ntr') two64);
        m_stable_gets = m.m_stable_gets; m_stable_sets = m.m_stable_sets })
    in
    mutate { st_next_id = w.st_next_id; st_segs = w.st_segs; st_tail = tw;
      st_rotate = w.st_rotate; st_failed = w.st_failed; st_closed =
      w.st_closed } { tx_next_id = nid; tx_segs = segs2; tx_delete = del;
      tx_create = (Some si); tx_tail = None } e1
  in
  (match rrest with
   | [] ->
     let (p0, si) = create_next c w.st_next_id [] N0 in
     let (nid, segs2) = p0 in
     mutate w { tx_next_id = nid; tx_segs = segs2; tx_delete = del;
       tx_create = (Some si); tx_tail = None } e
   | t :: _ ->
     let rest = rev rrest in
     if t.si_sealed
     then let t' = { si_id = t.si_id; si_base = t.si_base; si_min = t.si_min;
            si_max = new_max; si_codec = t.si_codec; si_index_start =
            t.si_index_start; si_sealed = true; si_size_limit =
            t.si_size_limit }
          in
          finish t' (N.modulo (N.add ntr (sub64 t.si_max new_max)) two64)
            rest w.st_tail e
     else (match w.st_tail with
           | Some tw ->
             let (p0, e1) = seg_force_seal tw e in
             let (r, tw') = p0 in
             (match r with
              | ROk0 ->
                let t' = { si_id = t.si_id; si_base = t.si_base; si_min =
                  t.si_min; si_max = new_max; si_codec = t.si_codec;
                  si_index_start = tw'.ws_index_start; si_sealed = true;
                  si_size_limit = t.si_size_limit }
                in
                finish t'
                  (N.modulo (N.add ntr (sub64 lastidx new_max)) two64) rest
                  (Some tw') e1
              | _ ->
                ((r, { st_next_id = w.st_next_id; st_segs = w.st_segs;
                  st_tail = (Some tw'); st_rotate = w.st_rotate; st_failed =
                  w.st_failed; st_closed = w.st_closed }), e1))
           | None -> ((RErrOther, w), e)))

(** val delete_range : cfg -> wal -> n -> n -> env -> (result * wal) * env **)

let delete_range c w mn mx e =
  if w.st_closed
  then ((RErrClosed, w), e)
  else if N.ltb mx mn
       then ((ROk0, w), e)
       else if w.st_failed
            then ((RErrFailed, w), e)
            else let first = first_index w.st_segs w.st_tail in
                 let last0 = last_index w.st_segs w.st_tail in
                 if (||) (N.ltb mx first) (N.ltb last0 mn)
                 then ((ROk0, w), e)
                 else if N.leb mn first
                      then truncate_head c w
                             (N.modulo (N.add mx (Npos XH)) two64) e
                      else if N.leb last0 mx
                           then truncate_tail c w (N.sub mn (Npos XH)) e
                           else ((RErrMiddle, w), e)

(** val codec_view : log -> log **)

let codec_view l =
  match encode_log l with
  | Some b -> (match decode_log b with
               | Some l' -> l'
               | None -> l)
  | None -> l

(** val inc_read : env -> n -> bool -> env **)

let inc_read e nbytes found =
  add_m e (fun m -> { m_bytes_written = m.m_bytes_written;
    m_entries_written = m.m_entries_written; m_appends = m.m_appends;
    m_bytes_read =
    (if found
     then N.modulo (N.add m.m_bytes_read nbytes) two64
     else m.m_bytes_read); m_entries_read =
    (N.add m.m_entries_read (Npos XH)); m_rotations = m.m_rotations;
    m_head_trunc = m.m_head_trunc; m_tail_trunc = m.m_tail_trunc;
    m_stable_gets = m.m_stable_gets; m_stable_sets = m.m_stable_sets })

(** val tail_lookup : wseg -> n -> disk -> log option **)

let tail_lookup t idx d =
  if (||) ((||) (N.ltb idx t.ws_base) (N.ltb idx t.ws_min))
       (N.ltb t.ws_commit_idx idx)
  then None
  else seg_read t.ws_name t.ws_base idx d

(** val get_log : wal -> n -> env -> result * env **)

let get_log w idx e =
  if w.st_closed
  then (RErrClosed, e)
  else let from_tail =
         match w.st_tail with
         | Some t ->
           (match tail_info w.st_segs with
            | Some ti ->
              if N.leb ti.si_min idx then tail_lookup t idx e.e_disk else None
            | None -> tail_lookup t idx e.e_disk)
         | None -> None
       in
       (match from_tail with
        | Some l -> ((RLog (codec_view l)), (inc_read e (enc_len l) true))
        | None ->
          (match find_segment w.st_segs idx with
           | Some s ->
             let is_tail =
               match w.st_tail with
               | Some t -> fname_eqb t.ws_name (name_of s)
               | None -> false
             in
             let r =
               if is_tail
               then (match w.st_tail with
                     | Some t -> tail_lookup t idx e.e_disk
                     | None -> None)
               else seg_read (name_of s) s.si_base idx e.e_disk
             in
             (match r with
              | Some l ->
                ((RLog (codec_view l)), (inc_read e (enc_len l) true))
              | None -> (RErrNotFound, (inc_read e N0 false)))
           | None -> (RErrNotFound, (inc_read e N0 false))))

(** val first_index_op : wal -> result **)

let first_index_op w =
  if w.st_closed then RErrClosed else RVal (first_index w.st_segs w.st_tail)

(** val last_index_op : wal -> result **)

let last_index_op w =
  if w.st_closed then RErrClosed else RVal (last_index w.st_segs w.st_tail)

(** val inc_stable : env -> bool -> env **)

let inc_stable e is_set =
  add_m e (fun m -> { m_bytes_written = m.m_bytes_written;
    m_entries_written = m.m_entries_written; m_appends = m.m_appends;
    m_bytes_read = m.m_bytes_read; m_entries_read = m.m_entries_read;
    m_rotations = m.m_rotations; m_head_trunc = m.m_head_trunc;
    m_tail_trunc = m.m_tail_trunc; m_stable_gets =
    (if is_set then m.m_stable_gets else N.add m.m_stable_gets (Npos XH));
    m_stable_sets =
    (if is_set then N.add m.m_stable_sets (Npos XH) else m.m_stable_sets) })

(** val key_ok : bytes -> bool **)

let key_ok k =
  (&&) (N.ltb N0 (len k))
    (N.leb (len k) (Npos (XO (XO (XO (XO (XO (XO (XO (XO (XO (XO (XO (XO (XO
      (XO (XO XH)))))))))))))))))

(** val set_stable : wal -> bytes -> bytes -> bool -> env -> result * env **)

let set_stable w k v is_nil e =
  if w.st_closed
  then (RErrClosed, e)
  else let e0 = inc_stable e true in
       if negb (key_ok k)
       then ((if is_nil then ROk0 else RErrOther), e0)
       else let (ok, e1) = io (ASetStable (k, v)) e0 in
            if ok then (ROk0, e1) else (RErrIO, e1)

(** val get_stable : wal -> bytes -> env -> result * env **)

let get_stable w k e =
  if w.st_closed
  then (RErrClosed, e)
  else ((RBytes (kv_get k e.e_disk.dk_stable)), (inc_stable e false))

(** val set_uint64 : wal -> bytes -> n -> env -> result * env **)

let set_uint64 w k v e =
  set_stable w k (le64 v) false e

(** val get_uint64 : wal -> bytes -> env -> result * env **)

let get_uint64 w k e =
  let (r, e') = get_stable w k e in
  (match r with
   | RBytes b ->
     if N.eqb (len b) N0
     then ((RVal N0), e')
     else if negb (N.eqb (len b) (Npos (XO (XO (XO XH)))))
          then (RErrOther, e')
          else ((RVal (rd64 b)), e')
   | _ -> (r, e'))

(** val close : wal -> wal **)

let close w =
  { st_next_id = w.st_next_id; st_segs = w.st_segs; st_tail = w.st_tail;
    st_rotate = None; st_failed = w.st_failed; st_closed = true }

type open_res =
| OOk of wal
| OErr of result

(** val open_segs :
    cfg -> seginfo list -> seginfo list -> env -> ((result * seginfo
    list) * wseg option) * env **)

let rec open_segs c segs acc e =
  match segs with
  | [] -> (((ROk0, (rev_append acc [])), None), e)
  | si :: r ->
    if negb (N.eqb si.si_codec c.c_codec)
    then (((RErrOther, (rev_append acc [])), None), e)
    else if negb si.si_sealed
         then (match r with
               | [] ->
                 let rec0 = seg_recover si e in
                 let (sw, e1) =
                   match rec0 with
                   | Some x -> (x, e)
                   | None -> seg_create si e
                 in
                 (match sw with
                  | Some sw0 ->
                    if N.ltb N0 sw0.ws_index_start
                    then let si' = { si_id = si.si_id; si_base = si.si_base;
                           si_min = si.si_min; si_max = sw0.ws_commit_idx;
                           si_codec = si.si_codec; si_index_start =
                           sw0.ws_index_start; si_sealed = true;
                           si_size_limit = si.si_size_limit }
                         in
                         (((ROk0, (rev_append acc (si' :: []))), None), e1)
                    else (((ROk0, (rev_append acc (si :: []))), (Some sw0)),
                           e1)
                  | None -> (((RErrIO, (rev_append acc [])), None), e1))
               | _ :: _ -> (((RErrOther, (rev_append acc [])), None), e))
         else (match lookup (name_of si) e.e_disk.dk_files with
               | Some f ->
                 if N.eqb (cur_end f) N0
                 then (((RErrCorrupt, (rev_append acc [])), None), e)
                 else open_segs c r (si :: acc) e
               | None -> (((RErrIO, (rev_append acc [])), None), e))

(** val listed : seginfo list -> fname -> bool **)

let listed segs n0 =
  existsb (fun s -> fname_eqb (name_of s) n0) segs

(** val open_wal : cfg -> env -> open_res * env **)

let open_wal c e =
  if (&&) (negb (N.leb firstExternalCodecID c.c_codec))
       (negb (N.eqb c.c_codec binaryCodecID))
  then ((OErr RErrOther), e)
  else let (ok0, e0) =
         if e.e_disk.dk_inited then (true, e) else io AInitMeta e
       in
       if negb ok0
       then ((OErr RErrIO), e0)
       else let ps =
              match e0.e_disk.dk_meta with
              | Some ps -> ps
              | None -> { ps_next_id = N0; ps_segs = [] }
            in
            let on_disk = map fst e0.e_disk.dk_files in
            let (p, e1) = open_segs c ps.ps_segs [] e0 in
            let (p0, tail) = p in
            let (r, segs) = p0 in
            (match r with
             | ROk0 ->
               let garbage =
                 filter (fun n0 -> negb (listed ps.ps_segs n0)) on_disk
               in
               (match tail with
                | Some tw ->
                  let e2 = delete_files garbage e1 in
                  ((OOk { st_next_id = ps.ps_next_id; st_segs = segs;
                  st_tail = (Some tw); st_rotate = None; st_failed = false;
                  st_closed = false }), e2)
                | None ->
                  let base =
                    match tail_info segs with
                    | Some t -> N.modulo (N.add t.si_max (Npos XH)) two64
                    | None -> Npos XH
                  in
                  let si = new_segment c ps.ps_next_id base in
                  let nid = N.modulo (N.add ps.ps_next_id (Npos XH)) two64 in
                  let segs' = seg_set si segs in
                  let (ok1, e2) =
                    io (ACommit { ps_next_id = nid; ps_segs = segs' }) e1
                  in
                  if negb ok1
                  then ((OErr RErrIO), e2)
                  else let (sw, e3) = seg_create si e2 in
                       (match sw with
                        | Some sw0 ->
                          let e4 = delete_files garbage e3 in
                          ((OOk { st_next_id = nid; st_segs = segs';
                          st_tail = (Some sw0); st_rotate = None; st_failed =
                          false; st_closed = false }), e4)
                        | None -> ((OErr RErrIO), e3)))
             | _ -> ((OErr r), e1))

type rst = { r_cfg : cfg; r_wal : wal option; r_env : env; r_mark : nat;
             r_base : disk; r_base_n : nat }

(** val s_closed : str **)

let s_closed =
  (Npos (XI (XI (XO (XO (XO (XI XH))))))) :: ((Npos (XO (XO (XI (XI (XO (XI
    XH))))))) :: ((Npos (XI (XI (XI (XI (XO (XI XH))))))) :: ((Npos (XI (XI
    (XO (XO (XI (XI XH))))))) :: ((Npos (XI (XO (XI (XO (XO (XI
    XH))))))) :: ((Npos (XO (XO (XI (XO (XO (XI XH))))))) :: [])))))

(** val s_nf0 : str **)

let s_nf0 =
  (Npos (XO (XI (XI (XI (XO (XI XH))))))) :: ((Npos (XO (XI (XI (XO (XO (XI
    XH))))))) :: [])

(** val s_nonmono0 : str **)

let s_nonmono0 =
  (Npos (XO (XI (XI (XI (XO (XI XH))))))) :: ((Npos (XI (XI (XI (XI (XO (XI
    XH))))))) :: ((Npos (XO (XI (XI (XI (XO (XI XH))))))) :: ((Npos (XI (XO
    (XI (XI (XO (XI XH))))))) :: ((Npos (XI (XI (XI (XI (XO (XI
    XH))))))) :: ((Npos (XO (XI (XI (XI (XO (XI XH))))))) :: ((Npos (XI (XI
    (XI (XI (XO (XI XH))))))) :: []))))))

(** val s_middle : str **)

let s_middle =
  (Npos (XI (XO (XI (XI (XO (XI XH))))))) :: ((Npos (XI (XO (XO (XI (XO (XI
    XH))))))) :: ((Npos (XO (XO (XI (XO (XO (XI XH))))))) :: ((Npos (XO (XO
    (XI (XO (XO (XI XH))))))) :: ((Npos (XO (XO (XI (XI (XO (XI
    XH))))))) :: ((Npos (XI (XO (XI (XO (XO (XI XH))))))) :: [])))))

(** val s_sealed : str **)

let s_sealed =
  (Npos (XI (XI (XO (XO (XI (XI XH))))))) :: ((Npos (XI (XO (XI (XO (XO (XI
    XH))))))) :: ((Npos (XI (XO (XO (XO (XO (XI XH))))))) :: ((Npos (XO (XO
    (XI (XI (XO (XI XH))))))) :: ((Npos (XI (XO (XI (XO (XO (XI
    XH))))))) :: ((Npos (XO (XO (XI (XO (XO (XI XH))))))) :: [])))))

(** val s_toobig0 : str **)

let s_toobig0 =
  (Npos (XO (XO (XI (XO (XI (XI XH))))))) :: ((Npos (XI (XI (XI (XI (XO (XI
    XH))))))) :: ((Npos (XI (XI (XI (XI (XO (XI XH))))))) :: ((Npos (XO (XI
    (XO (XO (XO (XI XH))))))) :: ((Npos (XI (XO (XO (XI (XO (XI
    XH))))))) :: ((Npos (XI (XI (XI (XO (XO (XI XH))))))) :: [])))))

(** val s_failed : str **)

let s_failed =
  (Npos (XO (XI (XI (XO (XO (XI XH))))))) :: ((Npos (XI (XO (XO (XO (XO (XI
    XH))))))) :: ((Npos (XI (XO (XO (XI (XO (XI XH))))))) :: ((Npos (XO (XO
    (XI (XI (XO (XI XH))))))) :: ((Npos (XI (XO (XI (XO (XO (XI
    XH))))))) :: ((Npos (XO (XO (XI (XO (XO (XI XH))))))) :: [])))))

(** val s_noop : str **)

let s_noop =
  (Npos (XO (XI (XI (XI (XO (XI XH))))))) :: ((Npos (XI (XI (XI (XI (XO (XI
    XH))))))) :: ((Npos (XI (XI (XI (XO (XI (XI XH))))))) :: ((Npos (XI (XO
    (XO (XO (XO (XI XH))))))) :: ((Npos (XO (XO (XI (XI (XO (XI
    XH))))))) :: []))))

(** val colon0 : n **)

let colon0 =
  Npos (XO (XI (XO (XI (XI XH)))))

(** val dot : n **)

let dot =
  Npos (XO (XI (XI (XI (XO XH)))))

(** val bang : n **)

let bang =
  Npos (XI (XO (XO (XO (XO XH)))))

(** val comma : n **)

let comma =
  Npos (XO (XO (XI (XI (XO XH)))))

(** val show_result : result -> str **)

let show_result = function
| ROk0 -> s_ok
| RErrClosed -> s_closed
| RErrNotFound -> s_nf0
| RErrNonMono -> s_nonmono0
| RErrMiddle -> s_middle
| RErrSealed -> s_sealed
| RErrTooBig -> s_toobig0
| RErrFailed -> s_failed
| RVal v -> n_to_hex v
| RLog l ->
  app s_ok
    (colon0 :: (flat_map (fun c ->
                 if N.eqb c sp then comma :: [] else c :: [])
                 (show_log true l)))
| RBytes b -> bytes_to_hex b
| _ -> s_err

(** val show_name : fname -> str **)

let show_name n0 =
  app (n_to_hex (fst n0)) (dot :: (n_to_hex (snd n0)))

(** val show_act : act -> str **)

let rec show_act = function
| ACreate (n0, size) ->
  (Npos (XI (XI (XO (XO (XO (XO
    XH))))))) :: (app (show_name n0) (dot :: (n_to_hex size)))
| AWrite (n0, off, l, _) ->
  (Npos (XI (XI (XI (XO (XI (XO
    XH))))))) :: (app (show_name n0)
                   (dot :: (app (n_to_hex off) (dot :: (n_to_hex l)))))
| ASync n0 -> (Npos (XI (XI (XO (XO (XI (XO XH))))))) :: (show_name n0)
| ADelete n0 -> (Npos (XO (XO (XI (XO (XO (XO XH))))))) :: (show_name n0)
| ACommit _ -> (Npos (XI (XO (XI (XI (XO (XO XH))))))) :: []
| ASetStable (_, _) -> (Npos (XI (XI (XO (XI (XO (XO XH))))))) :: []
| AInitMeta -> (Npos (XI (XO (XO (XI (XO (XO XH))))))) :: []
| AFail a' -> bang :: (show_act a')

(** val str_leb : str -> str -> bool **)

let rec str_leb a b =
  match a with
  | [] -> true
  | x :: a' ->
    (match b with
     | [] -> false
     | y :: b' ->
       if N.ltb x y then true else if N.ltb y x then false else str_leb a' b')

(** val insert_str : str -> str list -> str list **)

let rec insert_str s l = match l with
| [] -> s :: []
| x :: r -> if str_leb s x then s :: l else x :: (insert_str s r)

(** val sort_strs : str list -> str list **)

let sort_strs l =
  fold_right insert_str [] l

(** val is_delete0 : str -> bool **)

let is_delete0 = function
| [] -> false
| n0 :: _ ->
  (match n0 with
   | N0 -> false
   | Npos p ->
     (match p with
      | XO p0 ->
        (match p0 with
         | XO p1 ->
           (match p1 with
            | XI p2 ->
              (match p2 with
               | XO p3 ->
                 (match p3 with
                  | XO p4 ->
                    (match p4 with
                     | XO p5 -> (match p5 with
                                 | XH -> true
                                 | _ -> false)
                     | _ -> false)
                  | _ -> false)
               | _ -> false)
            | _ -> false)
         | _ -> false)
      | _ -> false))

(** val canon_acts : str list -> str list -> str list **)

let rec canon_acts l run =
  match l with
  | [] -> sort_strs run
  | x :: r ->
    if is_delete0 x
    then canon_acts r (x :: run)
    else app (sort_strs run) (x :: (canon_acts r []))

(** val show_trace : act list -> str **)

let show_trace acts_oldest_first = match acts_oldest_first with
| [] -> (Npos (XI (XO (XI (XI (XO XH)))))) :: []
| _ :: _ ->
  fold_right (fun s acc ->
    match acc with
    | [] -> s
    | _ :: _ -> app s (comma :: acc)) []
    (canon_acts (map show_act acts_oldest_first) [])

(** val show_seg : seginfo -> str **)

let show_seg s =
  app (n_to_hex s.si_id)
    (dot :: (app (n_to_hex s.si_base)
              (dot :: (app (n_to_hex s.si_min)
                        (dot :: (app (n_to_hex s.si_max)
                                  (dot :: (app (n_to_hex s.si_index_start)
                                            (dot :: (app
                                                      (if s.si_sealed
                                                       then (Npos (XI (XO (XO
                                                              (XO (XI
                                                              XH)))))) :: []
                                                       else (Npos (XO (XO (XO
                                                              (XO (XI
                                                              XH)))))) :: [])
                                                      (dot :: (n_to_hex
                                                                s.si_codec))))))))))))

(** val show_pstate : pstate option -> str **)

let show_pstate = function
| Some ps ->
  app (n_to_hex ps.ps_next_id)
    (flat_map (fun s -> comma :: (show_seg s)) ps.ps_segs)
| None -> (Npos (XI (XO (XI (XI (XO XH)))))) :: []

(** val show_metrics : metrics -> str **)

let show_metrics m =
  fold_right (fun s acc ->
    match acc with
    | [] -> s
    | _ :: _ -> app s (comma :: acc)) []
    (map n_to_hex
      (m.m_bytes_written :: (m.m_entries_written :: (m.m_appends :: (m.m_bytes_read :: (m.m_entries_read :: (m.m_rotations :: (m.m_head_trunc :: (m.m_tail_trunc :: (m.m_stable_gets :: (m.m_stable_sets :: [])))))))))))

(** val name_leb : fname -> fname -> bool **)

let name_leb a b =
  if N.ltb (fst a) (fst b)
  then true
  else if N.ltb (fst b) (fst a) then false else N.leb (snd a) (snd b)

(** val insert_name : fname -> fname list -> fname list **)

let rec insert_name n0 l = match l with
| [] -> n0 :: []
| x :: r -> if name_leb n0 x then n0 :: l else x :: (insert_name n0 r)

(** val show_dir : disk -> str **)

let show_dir d =
  match d.dk_files with
  | [] -> (Npos (XI (XO (XI (XI (XO XH)))))) :: []
  | p :: l ->
    fold_right (fun s acc ->
      match acc with
      | [] -> s
      | _ :: _ -> app s (comma :: acc)) []
      (map show_name (fold_right insert_name [] (map fst (p :: l))))

(** val parse_logs : nat -> str list -> (log list * str list) option **)

let rec parse_logs k ts =
  match k with
  | O -> Some ([], ts)
  | S k' ->
    (match ts with
     | [] -> None
     | a :: l ->
       (match l with
        | [] -> None
        | b :: l0 ->
          (match l0 with
           | [] -> None
           | c :: l1 ->
             (match l1 with
              | [] -> None
              | d :: l2 ->
                (match l2 with
                 | [] -> None
                 | e :: l3 ->
                   (match l3 with
                    | [] -> None
                    | f :: l4 ->
                      (match l4 with
                       | [] -> None
                       | g :: l5 ->
                         (match l5 with
                          | [] -> None
                          | h :: r ->
                            (match parse_log
                                     (a :: (b :: (c :: (d :: (e :: (f :: (g :: (h :: [])))))))) with
                             | Some l6 ->
                               (match parse_logs k' r with
                                | Some p ->
                                  let (ls, rest) = p in
                                  Some ((l6 :: ls), rest)
                                | None -> None)
                             | None -> None)))))))))

(** val parse_names : nat -> str list -> (fname list * str list) option **)

let rec parse_names k ts =
  match k with
  | O -> Some ([], ts)
  | S k' ->
    (match ts with
     | [] -> None
     | a :: l ->
       (match l with
        | [] -> None
        | b :: r ->
          (match hex_to_N a with
           | Some a0 ->
             (match hex_to_N b with
              | Some b0 ->
                (match parse_names k' r with
                 | Some p ->
                   let (ns, rest) = p in Some (((a0, b0) :: ns), rest)
                 | None -> None)
              | None -> None)
           | None -> None)))

(** val chr0 : n -> str -> bool **)

let chr0 c s =
  str_eqb s (c :: [])

(** val settle : rst -> rst **)

let settle st =
  match st.r_wal with
  | Some w ->
    (match w.st_rotate with
     | Some _ ->
       let (w', e') = rotate st.r_cfg w st.r_env in
       { r_cfg = st.r_cfg; r_wal = (Some w'); r_env = e'; r_mark = st.r_mark;
       r_base = st.r_base; r_base_n = st.r_base_n }
     | None -> st)
  | None -> st

(** val set_we : rst -> wal -> env -> rst **)

let set_we st w e =
  { r_cfg = st.r_cfg; r_wal = (Some w); r_env = e; r_mark = st.r_mark;
    r_base = st.r_base; r_base_n = st.r_base_n }

(** val set_e : rst -> env -> rst **)

let set_e st e =
  { r_cfg = st.r_cfg; r_wal = st.r_wal; r_env = e; r_mark = st.r_mark;
    r_base = st.r_base; r_base_n = st.r_base_n }

(** val audit : nat -> wal -> env -> n -> n -> str list -> str list **)

let rec audit fuel w e i last0 acc =
  match fuel with
  | O -> rev_append acc []
  | S f ->
    if N.ltb last0 i
    then rev_append acc []
    else let (r, _) = get_log w i e in
         audit f w e (N.add i (Npos XH)) last0 ((show_result r) :: acc)

(** val run_ops0 : nat -> rst -> str list -> str list -> str list **)

let rec run_ops0 fuel st ts acc =
  match fuel with
  | O -> rev_append acc []
  | S fuel' ->
    (match ts with
     | [] -> rev_append acc []
     | op :: r ->
       let bad = rev_append (s_bad :: acc) [] in
       if chr0 (Npos (XI (XI (XI (XI (XO (XO XH))))))) op
       then let (res, e') = open_wal st.r_cfg (with_m st.r_env zero_metrics)
            in
            (match res with
             | OOk w -> run_ops0 fuel' (set_we st w e') r (s_ok :: acc)
             | OErr _ ->
               run_ops0 fuel' { r_cfg = st.r_cfg; r_wal = None; r_env = e';
                 r_mark = st.r_mark; r_base = st.r_base; r_base_n =
                 st.r_base_n } r (s_err :: acc))
       else if chr0 (Npos (XI (XI (XO (XO (XI (XO XH))))))) op
            then (match r with
                  | [] -> bad
                  | k :: r1 ->
                    (match hex_to_N k with
                     | Some k0 ->
                       (match parse_logs (N.to_nat k0) r1 with
                        | Some p ->
                          let (ls, r2) = p in
                          let st1 = settle st in
                          (match st1.r_wal with
                           | Some w ->
                             let (p0, e') =
                               store_logs st1.r_cfg w ls st1.r_env
                             in
                             let (res, w') = p0 in
                             run_ops0 fuel' (set_we st1 w' e') r2
                               ((show_result res) :: acc)
                           | None -> run_ops0 fuel' st1 r2 (s_noop :: acc))
                        | None -> bad)
                     | None -> bad))
            else if chr0 (Npos (XO (XO (XI (XO (XO (XO XH))))))) op
                 then (match r with
                       | [] -> bad
                       | a :: l ->
                         (match l with
                          | [] -> bad
                          | b :: r1 ->
                            (match hex_to_N a with
                             | Some a0 ->
                               (match hex_to_N b with
                                | Some b0 ->
                                  let st1 = settle st in
                                  (match st1.r_wal with
                                   | Some w ->
                                     let (p, e') =
                                       delete_range st1.r_cfg w a0 b0
                                         st1.r_env
                                     in
                                     let (res, w') = p in
                                     run_ops0 fuel' (set_we st1 w' e') r1
                                       ((show_result res) :: acc)
                                   | None ->
                                     run_ops0 fuel' st1 r1 (s_noop :: acc))
                                | None -> bad)
                             | None -> bad)))
                 else if chr0 (Npos (XI (XI (XI (XO (XO (XO XH))))))) op
                      then (match r with
                            | [] -> bad
                            | a :: r1 ->
                              (match hex_to_N a with
                               | Some a0 ->
                                 (match st.r_wal with
                                  | Some w ->
                                    let (res, e') = get_log w a0 st.r_env in
                                    run_ops0 fuel' (set_e st e') r1
                                      ((show_result res) :: acc)
                                  | None ->
                                    run_ops0 fuel' st r1 (s_noop :: acc))
                               | None -> bad))
                      else if chr0 (Npos (XO (XI (XI (XO (XO (XO XH))))))) op
                           then (match st.r_wal with
                                 | Some w ->
                                   run_ops0 fuel' st r
                                     ((show_result (first_index_op w)) :: acc)
                                 | None -> run_ops0 fuel' st r (s_noop :: acc))
                           else if chr0 (Npos (XO (XO (XI (XI (XO (XO
                                     XH))))))) op
                                then (match st.r_wal with
                                      | Some w ->
                                        run_ops0 fuel' st r
                                          ((show_result (last_index_op w)) :: acc)
                                      | None ->
                                        run_ops0 fuel' st r (s_noop :: acc))
                                else if chr0 (Npos (XI (XO (XO (XO (XO (XO
                                          XH))))))) op
                                     then (match st.r_wal with
                                           | Some w ->
                                             if w.st_closed
                                             then run_ops0 fuel' st r
                                                    (s_closed :: acc)
                                             else let f =
                                                    first_index w.st_segs
                                                      w.st_tail
                                                  in
                                                  let l =
                                                    last_index w.st_segs
                                                      w.st_tail
                                                  in
                                                  let es =
                                                    if N.eqb f N0
                                                    then []
                                                    else audit (S
                                                           (N.to_nat
                                                             (N.sub l f))) w
                                                           st.r_env f l []
                                                  in
                                                  run_ops0 fuel' st r
                                                    ((app (n_to_hex f)
                                                       (dot :: (app
                                                                 (n_to_hex l)
                                                                 (flat_map
                                                                   (fun s ->
                                                                   comma :: s)
                                                                   es)))) :: acc)
                                           | None ->
                                             run_ops0 fuel' st r
                                               (s_noop :: acc))
                                     else if chr0 (Npos (XI (XI (XO (XI (XO
                                               (XO XH))))))) op
                                          then (match r with
                                                | [] -> bad
                                                | k :: l ->
                                                  (match l with
                                                   | [] -> bad
                                                   | v :: r1 ->
                                                     let is_nil =
                                                       str_eqb v ((Npos (XO
                                                         (XI (XI (XI (XO (XI
                                                         XH))))))) :: ((Npos
                                                         (XI (XO (XO (XI (XO
                                                         (XI
                                                         XH))))))) :: ((Npos
                                                         (XO (XO (XI (XI (XO
                                                         (XI
                                                         XH))))))) :: [])))
                                                     in
                                                     (match hex_to_bytes k with
                                                      | Some k0 ->
                                                        (match if is_nil
                                                               then Some []
                                                               else hex_to_bytes
                                                                    v with
                                                         | Some v0 ->
                                                           (match st.r_wal with
                                                            | Some w ->
                                                              let (res, e') =
                                                                set_stable w
                                                                  k0 v0
                                                                  is_nil
                                                                  st.r_env
                                                              in
                                                              run_ops0 fuel'
                                                                (set_e st e')
                                                                r1
                                                                ((show_result
                                                                   res) :: acc)
                                                            | None ->
                                                              run_ops0 fuel'
                                                                st r1
                                                                (s_noop :: acc))
                                                         | None -> bad)
                                                      | None -> bad)))
                                          else if chr0 (Npos (XI (XI (XO (XI
                                                    (XO (XI XH))))))) op
                                               then (match r with
                                                     | [] -> bad
                                                     | k :: r1 ->
                                                       (match hex_to_bytes k with
                                                        | Some k0 ->
                                                          (match st.r_wal with
                                                           | Some w ->
                                                             let (res, e') =
                                                               get_stable w
                                                                 k0 st.r_env
                                                             in
                                                             run_ops0 fuel'
                                                               (set_e st e')
                                                               r1
                                                               ((show_result
                                                                  res) :: acc)
                                                           | None ->
                                                             run_ops0 fuel'
                                                               st r1
                                                               (s_noop :: acc))
                                                        | None -> bad))
                                               else if chr0 (Npos (XI (XO (XI
                                                         (XO (XI (XO
                                                         XH))))))) op
                                                    then (match r with
                                                          | [] -> bad
                                                          | k :: l ->
                                                            (match l with
                                                             | [] -> bad
                                                             | v :: r1 ->
                                                               (match 
                                                                hex_to_bytes k with
                                                                | Some k0 ->
                                                                  (match 
                                                                   hex_to_N v with
                                                                   | Some v0 ->
                                                                    (match st.r_wal with
                                                                    | Some w ->
                                                                    let (
                                                                    res, e') =
                                                                    set_uint64
                                                                    w k0 v0
                                                                    st.r_env
                                                                    in
                                                                    run_ops0
                                                                    fuel'
                                                                    (set_e st
                                                                    e') r1
                                                                    ((show_result
                                                                    res) :: acc)
                                                                    | None ->
                                                                    run_ops0
                                                                    fuel' st
                                                                    r1
                                                                    (s_noop :: acc))
                                                                   | None ->
                                                                    bad)
                                                                | None -> bad)))
                                                    else if chr0 (Npos (XI
                                                              (XO (XI (XO (XI
                                                              (XI XH))))))) op
                                                         then (match r with
                                                               | [] -> bad
                                                               | k :: r1 ->
                                                                 (match 
                                                                  hex_to_bytes
                                                                    k with
                                                                  | Some k0 ->
                                                                    (match st.r_wal with
                                                                    | Some w ->
                                                                    let (
                                                                    res, e') =
                                                                    get_uint64
                                                                    w k0
                                                                    st.r_env
                                                                    in
                                                                    run_ops0
                                                                    fuel'
                                                                    (set_e st
                                                                    e') r1
                                                                    ((show_result
                                                                    res) :: acc)
                                                                    | None ->
                                                                    run_ops0
                                                                    fuel' st
                                                                    r1
                                                                    (s_noop :: acc))
                                                                  | None ->
                                                                    bad))
                                                         else if chr0 (Npos
                                                                   (XO (XO
                                                                   (XO (XI
                                                                   (XI (XO
                                                                   XH)))))))
                                                                   op
                                                              then (match st.r_wal with
                                                                    | Some w ->
                                                                    run_ops0
                                                                    fuel'
                                                                    (set_we
                                                                    st
                                                                    (close w)
                                                                    st.r_env)
                                                                    r
                                                                    (s_ok :: acc)
                                                                    | None ->
                                                                    run_ops0
                                                                    fuel' st
                                                                    r
                                                                    (s_noop :: acc))
                                                              else if 
                                                                    chr0
                                                                    (Npos (XI
                                                                    (XI (XI
                                                                    (XO (XI
                                                                    (XO
                                                                    XH)))))))
                                                                    op
                                                                   then 
                                                                    run_ops0
                                                                    fuel'
                                                                    (settle
                                                                    st) r acc
                                                                   else 
                                                                    if 
                                                                    chr0
                                                                    (Npos (XI
                                                                    (XO (XI
                                                                    (XI (XO
                                                                    (XO
                                                                    XH)))))))
                                                                    op
                                                                    then 
                                                                    run_ops0
                                                                    fuel' st
                                                                    r
                                                                    ((show_metrics
                                                                    st.r_env.e_m) :: acc)
                                                                    else 
                                                                    if 
                                                                    chr0
                                                                    (Npos (XO
                                                                    (XO (XO
                                                                    (XO (XI
                                                                    (XO
                                                                    XH)))))))
                                                                    op
                                                                    then 
                                                                    run_ops0
                                                                    fuel' st
                                                                    r
                                                                    ((show_pstate
                                                                    st.r_env.e_disk.dk_meta) :: acc)
                                                                    else 
                                                                    if 
                                                                    chr0
                                                                    (Npos (XI
                                                                    (XO (XO
                                                                    (XI (XI
                                                                    (XO
                                                                    XH)))))))
                                                                    op
                                                                    then 
                                                                    run_ops0
                                                                    fuel' st
                                                                    r
                                                                    ((show_dir
                                                                    st.r_env.e_disk) :: acc)
                                                                    else 
                                                                    if 
                                                                    chr0
                                                                    (Npos (XO
                                                                    (XO (XI
                                                                    (XO (XI
                                                                    (XO
                                                                    XH)))))))
                                                                    op
                                                                    then 
                                                                    let all =
                                                                    rev_append
                                                                    st.r_env.e_acts
                                                                    []
                                                                    in
                                                                    run_ops0
                                                                    fuel'
                                                                    { r_cfg =
                                                                    st.r_cfg;
                                                                    r_wal =
                                                                    st.r_wal;
                                                                    r_env =
                                                                    st.r_env;
                                                                    r_mark =
                                                                    (length
                                                                    all);
                                                                    r_base =
                                                                    st.r_base;
                                                                    r_base_n =
                                                                    st.r_base_n }
                                                                    r
                                                                    ((show_trace
                                                                    (skipn
                                                                    st.r_mark
                                                                    all)) :: acc)
                                                                    else 
                                                                    if 
                                                                    chr0
                                                                    (Npos (XI
                                                                    (XO (XO
                                                                    (XO (XO
                                                                    XH))))))
                                                                    op
                                                                    then 
                                                                    (match r with
                                                                    | [] ->
                                                                    bad
                                                                    | k :: r1 ->
                                                                    (match 
                                                                    hex_to_N k with
                                                                    | Some k0 ->
                                                                    let e =
                                                                    st.r_env
                                                                    in
                                                                    run_ops0
                                                                    fuel'
                                                                    (set_e st
                                                                    { e_acts =
                                                                    e.e_acts;
                                                                    e_disk =
                                                                    e.e_disk;
                                                                    e_fault =
                                                                    (Some
                                                                    (N.to_nat
                                                                    k0));
                                                                    e_m =
                                                                    e.e_m })
                                                                    r1 acc
                                                                    | None ->
                                                                    bad))
                                                                    else 
                                                                    if 
                                                                    chr0
                                                                    (Npos (XI
                                                                    (XI (XO
                                                                    (XO (XO
                                                                    (XO
                                                                    XH)))))))
                                                                    op
                                                                    then 
                                                                    (match r with
                                                                    | [] ->
                                                                    bad
                                                                    | k :: l ->
                                                                    (match l with
                                                                    | [] ->
                                                                    bad
                                                                    | nf :: r1 ->
                                                                    (match 
                                                                    hex_to_N k with
                                                                    | Some k0 ->
                                                                    (match 
                                                                    hex_to_N
                                                                    nf with
                                                                    | Some nf0 ->
                                                                    (match 
                                                                    parse_names
                                                                    (N.to_nat
                                                                    nf0) r1 with
                                                                    | Some p ->
                                                                    let (
                                                                    kf, l0) =
                                                                    p
                                                                    in
                                                                    (
                                                                    match l0 with
                                                                    | [] ->
                                                                    bad
                                                                    | nb :: r2 ->
                                                                    (match 
                                                                    hex_to_N
                                                                    nb with
                                                                    | Some nb0 ->
                                                                    (match 
                                                                    parse_names
                                                                    (N.to_nat
                                                                    nb0) r2 with
                                                                    | Some p0 ->
                                                                    let (
                                                                    kb, r3) =
                                                                    p0
                                                                    in
                                                                    let all =
                                                                    rev_append
                                                                    st.r_env.e_acts
                                                                    []
                                                                    in
                                                                    let pre =
                                                                    firstn
                                                                    (N.to_nat
                                                                    k0) all
                                                                    in
                                                                    let since =
                                                                    skipn
                                                                    st.r_base_n
                                                                    pre
                                                                    in
                                                                    let d =
                                                                    crash_disk
                                                                    { cc_keep_file =
                                                                    kf;
                                                                    cc_keep_batch =
                                                                    kb }
                                                                    (fold_left
                                                                    apply_act
                                                                    since
                                                                    st.r_base)
                                                                    in
                                                                    run_ops0
                                                                    fuel'
                                                                    { r_cfg =
                                                                    st.r_cfg;
                                                                    r_wal =
                                                                    None;
                                                                    r_env =
                                                                    { e_acts =
                                                                    (rev_append
                                                                    pre []);
                                                                    e_disk =
                                                                    d;
                                                                    e_fault =
                                                                    None;
                                                                    e_m =
                                                                    zero_metrics };
                                                                    r_mark =
                                                                    (length
                                                                    pre);
                                                                    r_base =
                                                                    d;
                                                                    r_base_n =
                                                                    (length
                                                                    pre) } r3
                                                                    acc
                                                                    | None ->
                                                                    bad)
                                                                    | None ->
                                                                    bad))
                                                                    | None ->
                                                                    bad)
                                                                    | None ->
                                                                    bad)
                                                                    | None ->
                                                                    bad)))
                                                                    else 
                                                                    if 
                                                                    chr0
                                                                    (Npos (XO
                                                                    (XI (XO
                                                                    (XI (XI
                                                                    (XO
                                                                    XH)))))))
                                                                    op
                                                                    then 
                                                                    run_ops0
                                                                    fuel'
                                                                    { r_cfg =
                                                                    st.r_cfg;
                                                                    r_wal =
                                                                    None;
                                                                    r_env =
                                                                    { e_acts =
                                                                    st.r_env.e_acts;
                                                                    e_disk =
                                                                    st.r_env.e_disk;
                                                                    e_fault =
                                                                    st.r_env.e_fault;
                                                                    e_m =
                                                                    zero_metrics };
                                                                    r_mark =
                                                                    st.r_mark;
                                                                    r_base =
                                                                    st.r_base;
                                                                    r_base_n =
                                                                    st.r_base_n }
                                                                    r acc
                                                                    else 
                                                                    if 
                                                                    chr0
                                                                    (Npos (XO
                                                                    (XI (XI
                                                                    (XI (XO
                                                                    (XO
                                                                    XH)))))))
                                                                    op
                                                                    then 
                                                                    run_ops0
                                                                    fuel' st
                                                                    r
                                                                    ((n_to_hex
                                                                    (N.of_nat
                                                                    (length
                                                                    st.r_env.e_acts))) :: acc)
                                                                    else 
                                                                    if 
                                                                    chr0
                                                                    (Npos (XI
                                                                    (XO (XO
                                                                    (XO (XI
                                                                    (XO
                                                                    XH)))))))
                                                                    op
                                                                    then 
                                                                    (match r with
                                                                    | [] ->
                                                                    bad
                                                                    | c :: r1 ->
                                                                    (match 
                                                                    hex_to_N c with
                                                                    | Some c0 ->
                                                                    run_ops0
                                                                    fuel'
                                                                    { r_cfg =
                                                                    { c_seg_size =
                                                                    st.r_cfg.c_seg_size;
                                                                    c_codec =
                                                                    c0 };
                                                                    r_wal =
                                                                    st.r_wal;
                                                                    r_env =
                                                                    st.r_env;
                                                                    r_mark =
                                                                    st.r_mark;
                                                                    r_base =
                                                                    st.r_base;
                                                                    r_base_n =
                                                                    st.r_base_n }
                                                                    r1 acc
                                                                    | None ->
                                                                    bad))
                                                                    else bad)

(** val run_wal : str list -> str **)

let run_wal = function
| [] -> s_bad
| sz :: l ->
  (match l with
   | [] -> s_bad
   | cd :: l0 ->
     (match l0 with
      | [] -> s_bad
      | _ :: ops ->
        (match hex_to_N sz with
         | Some sz0 ->
           (match hex_to_N cd with
            | Some cd0 ->
              join
                (run_ops0 (S (length ops)) { r_cfg = { c_seg_size = sz0;
                  c_codec = cd0 }; r_wal = None; r_env = { e_acts = [];
                  e_disk = empty_disk; e_fault = None; e_m = zero_metrics };
                  r_mark = O; r_base = empty_disk; r_base_n = O } ops [])
            | None -> s_bad)
         | None -> s_bad)))

(** val k_enc : str **)

let k_enc =
  (Npos (XI (XO (XI (XO (XO (XI XH))))))) :: ((Npos (XO (XI (XI (XI (XO (XI
    XH))))))) :: ((Npos (XI (XI (XO (XO (XO (XI XH))))))) :: []))

(** val k_dec : str **)

let k_dec =
  (Npos (XO (XO (XI (XO (XO (XI XH))))))) :: ((Npos (XI (XO (XI (XO (XO (XI
    XH))))))) :: ((Npos (XI (XI (XO (XO (XO (XI XH))))))) :: []))

(** val k_seg : str **)

let k_seg =
  (Npos (XI (XI (XO (XO (XI (XI XH))))))) :: ((Npos (XI (XO (XI (XO (XO (XI
    XH))))))) :: ((Npos (XI (XI (XI (XO (XO (XI XH))))))) :: []))

(** val k_wal : str **)

let k_wal =
  (Npos (XI (XI (XI (XO (XI (XI XH))))))) :: ((Npos (XI (XO (XO (XO (XO (XI
    XH))))))) :: ((Npos (XO (XO (XI (XI (XO (XI XH))))))) :: []))

(** val run_line : str -> str **)

let run_line line =
  match tokens line with
  | [] -> s_bad
  | cmd :: args ->
    if str_eqb cmd k_enc
    then run_enc args
    else if str_eqb cmd k_dec
         then run_dec args
         else if str_eqb cmd k_seg
              then run_seg args
              else if str_eqb cmd k_wal then run_wal args else s_bad
