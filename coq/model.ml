
(** val negb : bool -> bool **)

let negb = function
| true -> false
| false -> true

type nat =
| O
| S of nat

(** val option_map : ('a1 -> 'a2) -> 'a1 option -> 'a2 option **)

let option_map f = function
| Some a -> Some (f a)
| None -> None

(** val fst : ('a1 * 'a2) -> 'a1 **)

let fst = function
| (x, _) -> x

(** val snd : ('a1 * 'a2) -> 'a2 **)

let snd = function
| (_, y) -> y

(** val length : 'a1 list -> nat **)

let rec length = function
| [] -> O
| _ :: l' -> S (length l')

(** val app : 'a1 list -> 'a1 list -> 'a1 list **)

let rec app l m =
  match l with
  | [] -> m
  | a :: l1 -> a :: (app l1 m)

type comparison =
| Eq
| Lt
| Gt

(** val compOpp : comparison -> comparison **)

let compOpp = function
| Eq -> Eq
| Lt -> Gt
| Gt -> Lt

module Coq__1 = struct
 (** val add : nat -> nat -> nat **)
 let rec add n0 m =
   match n0 with
   | O -> m
   | S p -> S (add p m)
end
include Coq__1

(** val sub : nat -> nat -> nat **)

let rec sub n0 m =
  match n0 with
  | O -> n0
  | S k -> (match m with
            | O -> n0
            | S l -> sub k l)

module Nat =
 struct
  (** val eqb : nat -> nat -> bool **)

  let rec eqb n0 m =
    match n0 with
    | O -> (match m with
            | O -> true
            | S _ -> false)
    | S n' -> (match m with
               | O -> false
               | S m' -> eqb n' m')

  (** val leb : nat -> nat -> bool **)

  let rec leb n0 m =
    match n0 with
    | O -> true
    | S n' -> (match m with
               | O -> false
               | S m' -> leb n' m')

  (** val ltb : nat -> nat -> bool **)

  let ltb n0 m =
    leb (S n0) m
 end

(** val nth : nat -> 'a1 list -> 'a1 -> 'a1 **)

let rec nth n0 l default =
  match n0 with
  | O -> (match l with
          | [] -> default
          | x :: _ -> x)
  | S m -> (match l with
            | [] -> default
            | _ :: t -> nth m t default)

(** val nth_error : 'a1 list -> nat -> 'a1 option **)

let rec nth_error l = function
| O -> (match l with
        | [] -> None
        | x :: _ -> Some x)
| S n1 -> (match l with
           | [] -> None
           | _ :: l0 -> nth_error l0 n1)

(** val rev : 'a1 list -> 'a1 list **)

let rec rev = function
| [] -> []
| x :: l' -> app (rev l') (x :: [])

(** val rev_append : 'a1 list -> 'a1 list -> 'a1 list **)

let rec rev_append l l' =
  match l with
  | [] -> l'
  | a :: l0 -> rev_append l0 (a :: l')

(** val map : ('a1 -> 'a2) -> 'a1 list -> 'a2 list **)

let rec map f = function
| [] -> []
| a :: t -> (f a) :: (map f t)

(** val fold_left : ('a1 -> 'a2 -> 'a1) -> 'a2 list -> 'a1 -> 'a1 **)

let rec fold_left f l a0 =
  match l with
  | [] -> a0
  | b :: t -> fold_left f t (f a0 b)

(** val filter : ('a1 -> bool) -> 'a1 list -> 'a1 list **)

let rec filter f = function
| [] -> []
| x :: l0 -> if f x then x :: (filter f l0) else filter f l0

(** val firstn : nat -> 'a1 list -> 'a1 list **)

let rec firstn n0 l =
  match n0 with
  | O -> []
  | S n1 -> (match l with
             | [] -> []
             | a :: l0 -> a :: (firstn n1 l0))

(** val skipn : nat -> 'a1 list -> 'a1 list **)

let rec skipn n0 l =
  match n0 with
  | O -> l
  | S n1 -> (match l with
             | [] -> []
             | _ :: l0 -> skipn n1 l0)

(** val repeat : 'a1 -> nat -> 'a1 list **)

let rec repeat x = function
| O -> []
| S k -> x :: (repeat x k)

type positive =
| XI of positive
| XO of positive
| XH

type n =
| N0
| Npos of positive

type z =
| Z0
| Zpos of positive
| Zneg of positive

module Pos =
 struct
  type mask =
  | IsNul
  | IsPos of positive
  | IsNeg
 end

module Coq_Pos =
 struct
  (** val succ : positive -> positive **)

  let rec succ = function
  | XI p -> XO (succ p)
  | XO p -> XI p
  | XH -> XO XH

  (** val add : positive -> positive -> positive **)

  let rec add x y =
    match x with
    | XI p ->
      (match y with
       | XI q -> XO (add_carry p q)
       | XO q -> XI (add p q)
       | XH -> XO (succ p))
    | XO p ->
      (match y with
       | XI q -> XI (add p q)
       | XO q -> XO (add p q)
       | XH -> XI p)
    | XH -> (match y with
             | XI q -> XO (succ q)
             | XO q -> XI q
             | XH -> XO XH)

  (** val add_carry : positive -> positive -> positive **)

  and add_carry x y =
    match x with
    | XI p ->
      (match y with
       | XI q -> XI (add_carry p q)
       | XO q -> XO (add_carry p q)
       | XH -> XI (succ p))
    | XO p ->
      (match y with
       | XI q -> XO (add_carry p q)
       | XO q -> XI (add p q)
       | XH -> XO (succ p))
    | XH ->
      (match y with
       | XI q -> XI (succ q)
       | XO q -> XO (succ q)
       | XH -> XI XH)

  (** val pred_double : positive -> positive **)

  let rec pred_double = function
  | XI p -> XI (XO p)
  | XO p -> XI (pred_double p)
  | XH -> XH

  type mask = Pos.mask =
  | IsNul
  | IsPos of positive
  | IsNeg

  (** val succ_double_mask : mask -> mask **)

  let succ_double_mask = function
  | IsNul -> IsPos XH
  | IsPos p -> IsPos (XI p)
  | IsNeg -> IsNeg

  (** val double_mask : mask -> mask **)

  let double_mask = function
  | IsPos p -> IsPos (XO p)
  | x0 -> x0

  (** val double_pred_mask : positive -> mask **)

  let double_pred_mask = function
  | XI p -> IsPos (XO (XO p))
  | XO p -> IsPos (XO (pred_double p))
  | XH -> IsNul

  (** val sub_mask : positive -> positive -> mask **)

  let rec sub_mask x y =
    match x with
    | XI p ->
      (match y with
       | XI q -> double_mask (sub_mask p q)
       | XO q -> succ_double_mask (sub_mask p q)
       | XH -> IsPos (XO p))
    | XO p ->
      (match y with
       | XI q -> succ_double_mask (sub_mask_carry p q)
       | XO q -> double_mask (sub_mask p q)
       | XH -> IsPos (pred_double p))
    | XH -> (match y with
             | XH -> IsNul
             | _ -> IsNeg)

  (** val sub_mask_carry : positive -> positive -> mask **)

  and sub_mask_carry x y =
    match x with
    | XI p ->
      (match y with
       | XI q -> succ_double_mask (sub_mask_carry p q)
       | XO q -> double_mask (sub_mask p q)
       | XH -> IsPos (pred_double p))
    | XO p ->
      (match y with
       | XI q -> double_mask (sub_mask_carry p q)
       | XO q -> succ_double_mask (sub_mask_carry p q)
       | XH -> double_pred_mask p)
    | XH -> IsNeg

  (** val mul : positive -> positive -> positive **)

  let rec mul x y =
    match x with
    | XI p -> add y (XO (mul p y))
    | XO p -> XO (mul p y)
    | XH -> y

  (** val iter : ('a1 -> 'a1) -> 'a1 -> positive -> 'a1 **)

  let rec iter f x = function
  | XI n' -> f (iter f (iter f x n') n')
  | XO n' -> iter f (iter f x n') n'
  | XH -> f x

  (** val pow : positive -> positive -> positive **)

  let pow x =
    iter (mul x) XH

  (** val compare_cont : comparison -> positive -> positive -> comparison **)

  let rec compare_cont r x y =
    match x with
    | XI p ->
      (match y with
       | XI q -> compare_cont r p q
       | XO q -> compare_cont Gt p q
       | XH -> Gt)
    | XO p ->
      (match y with
       | XI q -> compare_cont Lt p q
       | XO q -> compare_cont r p q
       | XH -> Gt)
    | XH -> (match y with
             | XH -> r
             | _ -> Lt)

  (** val compare : positive -> positive -> comparison **)

  let compare =
    compare_cont Eq

  (** val eqb : positive -> positive -> bool **)

  let rec eqb p q =
    match p with
    | XI p0 -> (match q with
                | XI q0 -> eqb p0 q0
                | _ -> false)
    | XO p0 -> (match q with
                | XO q0 -> eqb p0 q0
                | _ -> false)
    | XH -> (match q with
             | XH -> true
             | _ -> false)

  (** val coq_Nsucc_double : n -> n **)

  let coq_Nsucc_double = function
  | N0 -> Npos XH
  | Npos p -> Npos (XI p)

  (** val coq_Ndouble : n -> n **)

  let coq_Ndouble = function
  | N0 -> N0
  | Npos p -> Npos (XO p)

  (** val coq_land : positive -> positive -> n **)

  let rec coq_land p q =
    match p with
    | XI p0 ->
      (match q with
       | XI q0 -> coq_Nsucc_double (coq_land p0 q0)
       | XO q0 -> coq_Ndouble (coq_land p0 q0)
       | XH -> Npos XH)
    | XO p0 ->
      (match q with
       | XI q0 -> coq_Ndouble (coq_land p0 q0)
       | XO q0 -> coq_Ndouble (coq_land p0 q0)
       | XH -> N0)
    | XH -> (match q with
             | XO _ -> N0
             | _ -> Npos XH)

  (** val coq_lxor : positive -> positive -> n **)

  let rec coq_lxor p q =
    match p with
    | XI p0 ->
      (match q with
       | XI q0 -> coq_Ndouble (coq_lxor p0 q0)
       | XO q0 -> coq_Nsucc_double (coq_lxor p0 q0)
       | XH -> Npos (XO p0))
    | XO p0 ->
      (match q with
       | XI q0 -> coq_Nsucc_double (coq_lxor p0 q0)
       | XO q0 -> coq_Ndouble (coq_lxor p0 q0)
       | XH -> Npos (XI p0))
    | XH ->
      (match q with
       | XI q0 -> Npos (XO q0)
       | XO q0 -> Npos (XI q0)
       | XH -> N0)

  (** val iter_op : ('a1 -> 'a1 -> 'a1) -> positive -> 'a1 -> 'a1 **)

  let rec iter_op op p a =
    match p with
    | XI p0 -> op a (iter_op op p0 (op a a))
    | XO p0 -> iter_op op p0 (op a a)
    | XH -> a

  (** val to_nat : positive -> nat **)

  let to_nat x =
    iter_op Coq__1.add x (S O)

  (** val of_succ_nat : nat -> positive **)

  let rec of_succ_nat = function
  | O -> XH
  | S x -> succ (of_succ_nat x)
 end

module N =
 struct
  (** val succ_double : n -> n **)

  let succ_double = function
  | N0 -> Npos XH
  | Npos p -> Npos (XI p)

  (** val double : n -> n **)

  let double = function
  | N0 -> N0
  | Npos p -> Npos (XO p)

  (** val add : n -> n -> n **)

  let add n0 m =
    match n0 with
    | N0 -> m
    | Npos p -> (match m with
                 | N0 -> n0
                 | Npos q -> Npos (Coq_Pos.add p q))

  (** val sub : n -> n -> n **)

  let sub n0 m =
    match n0 with
    | N0 -> N0
    | Npos n' ->
      (match m with
       | N0 -> n0
       | Npos m' ->
         (match Coq_Pos.sub_mask n' m' with
          | Coq_Pos.IsPos p -> Npos p
          | _ -> N0))

  (** val mul : n -> n -> n **)

  let mul n0 m =
    match n0 with
    | N0 -> N0
    | Npos p -> (match m with
                 | N0 -> N0
                 | Npos q -> Npos (Coq_Pos.mul p q))

  (** val compare : n -> n -> comparison **)

  let compare n0 m =
    match n0 with
    | N0 -> (match m with
             | N0 -> Eq
             | Npos _ -> Lt)
    | Npos n' -> (match m with
                  | N0 -> Gt
                  | Npos m' -> Coq_Pos.compare n' m')

  (** val eqb : n -> n -> bool **)

  let eqb n0 m =
    match n0 with
    | N0 -> (match m with
             | N0 -> true
             | Npos _ -> false)
    | Npos p -> (match m with
                 | N0 -> false
                 | Npos q -> Coq_Pos.eqb p q)

  (** val leb : n -> n -> bool **)

  let leb x y =
    match compare x y with
    | Gt -> false
    | _ -> true

  (** val ltb : n -> n -> bool **)

  let ltb x y =
    match compare x y with
    | Lt -> true
    | _ -> false

  (** val pow : n -> n -> n **)

  let pow n0 = function
  | N0 -> Npos XH
  | Npos p0 -> (match n0 with
                | N0 -> N0
                | Npos q -> Npos (Coq_Pos.pow q p0))

  (** val pos_div_eucl : positive -> n -> n * n **)

  let rec pos_div_eucl a b =
    match a with
    | XI a' ->
      let (q, r) = pos_div_eucl a' b in
      let r' = succ_double r in
      if leb b r' then ((succ_double q), (sub r' b)) else ((double q), r')
    | XO a' ->
      let (q, r) = pos_div_eucl a' b in
      let r' = double r in
      if leb b r' then ((succ_double q), (sub r' b)) else ((double q), r')
    | XH ->
      (match b with
       | N0 -> (N0, (Npos XH))
       | Npos p -> (match p with
                    | XH -> ((Npos XH), N0)
                    | _ -> (N0, (Npos XH))))

  (** val div_eucl : n -> n -> n * n **)

  let div_eucl a b =
    match a with
    | N0 -> (N0, N0)
    | Npos na -> (match b with
                  | N0 -> (N0, a)
                  | Npos _ -> pos_div_eucl na b)

  (** val div : n -> n -> n **)

  let div a b =
    fst (div_eucl a b)

  (** val modulo : n -> n -> n **)

  let modulo a b =
    snd (div_eucl a b)

  (** val coq_land : n -> n -> n **)

  let coq_land n0 m =
    match n0 with
    | N0 -> N0
    | Npos p -> (match m with
                 | N0 -> N0
                 | Npos q -> Coq_Pos.coq_land p q)

  (** val coq_lxor : n -> n -> n **)

  let coq_lxor n0 m =
    match n0 with
    | N0 -> m
    | Npos p -> (match m with
                 | N0 -> n0
                 | Npos q -> Coq_Pos.coq_lxor p q)

  (** val to_nat : n -> nat **)

  let to_nat = function
  | N0 -> O
  | Npos p -> Coq_Pos.to_nat p

  (** val of_nat : nat -> n **)

  let of_nat = function
  | O -> N0
  | S n' -> Npos (Coq_Pos.of_succ_nat n')
 end

module Z =
 struct
  (** val double : z -> z **)

  let double = function
  | Z0 -> Z0
  | Zpos p -> Zpos (XO p)
  | Zneg p -> Zneg (XO p)

  (** val succ_double : z -> z **)

  let succ_double = function
  | Z0 -> Zpos XH
  | Zpos p -> Zpos (XI p)
  | Zneg p -> Zneg (Coq_Pos.pred_double p)

  (** val pred_double : z -> z **)

  let pred_double = function
  | Z0 -> Zneg XH
  | Zpos p -> Zpos (Coq_Pos.pred_double p)
  | Zneg p -> Zneg (XI p)

  (** val pos_sub : positive -> positive -> z **)

  let rec pos_sub x y =
    match x with
    | XI p ->
      (match y with
       | XI q -> double (pos_sub p q)
       | XO q -> succ_double (pos_sub p q)
       | XH -> Zpos (XO p))
    | XO p ->
      (match y with
       | XI q -> pred_double (pos_sub p q)
       | XO q -> double (pos_sub p q)
       | XH -> Zpos (Coq_Pos.pred_double p))
    | XH ->
      (match y with
       | XI q -> Zneg (XO q)
       | XO q -> Zneg (Coq_Pos.pred_double q)
       | XH -> Z0)

  (** val add : z -> z -> z **)

  let add x y =
    match x with
    | Z0 -> y
    | Zpos x' ->
      (match y with
       | Z0 -> x
       | Zpos y' -> Zpos (Coq_Pos.add x' y')
       | Zneg y' -> pos_sub x' y')
    | Zneg x' ->
      (match y with
       | Z0 -> x
       | Zpos y' -> pos_sub y' x'
       | Zneg y' -> Zneg (Coq_Pos.add x' y'))

  (** val opp : z -> z **)

  let opp = function
  | Z0 -> Z0
  | Zpos x0 -> Zneg x0
  | Zneg x0 -> Zpos x0

  (** val sub : z -> z -> z **)

  let sub m n0 =
    add m (opp n0)

  (** val mul : z -> z -> z **)

  let mul x y =
    match x with
    | Z0 -> Z0
    | Zpos x' ->
      (match y with
       | Z0 -> Z0
       | Zpos y' -> Zpos (Coq_Pos.mul x' y')
       | Zneg y' -> Zneg (Coq_Pos.mul x' y'))
    | Zneg x' ->
      (match y with
       | Z0 -> Z0
       | Zpos y' -> Zneg (Coq_Pos.mul x' y')
       | Zneg y' -> Zpos (Coq_Pos.mul x' y'))

  (** val compare : z -> z -> comparison **)

  let compare x y =
    match x with
    | Z0 -> (match y with
             | Z0 -> Eq
             | Zpos _ -> Lt
             | Zneg _ -> Gt)
    | Zpos x' -> (match y with
                  | Zpos y' -> Coq_Pos.compare x' y'
                  | _ -> Gt)
    | Zneg x' ->
      (match y with
       | Zneg y' -> compOpp (Coq_Pos.compare x' y')
       | _ -> Lt)

  (** val leb : z -> z -> bool **)

  let leb x y =
    match compare x y with
    | Gt -> false
    | _ -> true

  (** val ltb : z -> z -> bool **)

  let ltb x y =
    match compare x y with
    | Lt -> true
    | _ -> false

  (** val eqb : z -> z -> bool **)

  let eqb x y =
    match x with
    | Z0 -> (match y with
             | Z0 -> true
             | _ -> false)
    | Zpos p -> (match y with
                 | Zpos q -> Coq_Pos.eqb p q
                 | _ -> false)
    | Zneg p -> (match y with
                 | Zneg q -> Coq_Pos.eqb p q
                 | _ -> false)

  (** val to_nat : z -> nat **)

  let to_nat = function
  | Zpos p -> Coq_Pos.to_nat p
  | _ -> O

  (** val to_N : z -> n **)

  let to_N = function
  | Zpos p -> Npos p
  | _ -> N0

  (** val of_nat : nat -> z **)

  let of_nat = function
  | O -> Z0
  | S n1 -> Zpos (Coq_Pos.of_succ_nat n1)

  (** val of_N : n -> z **)

  let of_N = function
  | N0 -> Z0
  | Npos p -> Zpos p

  (** val pos_div_eucl : positive -> z -> z * z **)

  let rec pos_div_eucl a b =
    match a with
    | XI a' ->
      let (q, r) = pos_div_eucl a' b in
      let r' = add (mul (Zpos (XO XH)) r) (Zpos XH) in
      if ltb r' b
      then ((mul (Zpos (XO XH)) q), r')
      else ((add (mul (Zpos (XO XH)) q) (Zpos XH)), (sub r' b))
    | XO a' ->
      let (q, r) = pos_div_eucl a' b in
      let r' = mul (Zpos (XO XH)) r in
      if ltb r' b
      then ((mul (Zpos (XO XH)) q), r')
      else ((add (mul (Zpos (XO XH)) q) (Zpos XH)), (sub r' b))
    | XH -> if leb (Zpos (XO XH)) b then (Z0, (Zpos XH)) else ((Zpos XH), Z0)

  (** val div_eucl : z -> z -> z * z **)

  let div_eucl a b =
    match a with
    | Z0 -> (Z0, Z0)
    | Zpos a' ->
      (match b with
       | Z0 -> (Z0, a)
       | Zpos _ -> pos_div_eucl a' b
       | Zneg b' ->
         let (q, r) = pos_div_eucl a' (Zpos b') in
         (match r with
          | Z0 -> ((opp q), Z0)
          | _ -> ((opp (add q (Zpos XH))), (add b r))))
    | Zneg a' ->
      (match b with
       | Z0 -> (Z0, a)
       | Zpos _ ->
         let (q, r) = pos_div_eucl a' b in
         (match r with
          | Z0 -> ((opp q), Z0)
          | _ -> ((opp (add q (Zpos XH))), (sub b r)))
       | Zneg b' -> let (q, r) = pos_div_eucl a' (Zpos b') in (q, (opp r)))

  (** val modulo : z -> z -> z **)

  let modulo a b =
    let (_, r) = div_eucl a b in r

  (** val quotrem : z -> z -> z * z **)

  let quotrem a b =
    match a with
    | Z0 -> (Z0, Z0)
    | Zpos a0 ->
      (match b with
       | Z0 -> (Z0, a)
       | Zpos b0 ->
         let (q, r) = N.pos_div_eucl a0 (Npos b0) in ((of_N q), (of_N r))
       | Zneg b0 ->
         let (q, r) = N.pos_div_eucl a0 (Npos b0) in
         ((opp (of_N q)), (of_N r)))
    | Zneg a0 ->
      (match b with
       | Z0 -> (Z0, a)
       | Zpos b0 ->
         let (q, r) = N.pos_div_eucl a0 (Npos b0) in
         ((opp (of_N q)), (opp (of_N r)))
       | Zneg b0 ->
         let (q, r) = N.pos_div_eucl a0 (Npos b0) in
         ((of_N q), (opp (of_N r))))

  (** val quot : z -> z -> z **)

  let quot a b =
    fst (quotrem a b)

  (** val rem : z -> z -> z **)

  let rem a b =
    snd (quotrem a b)
 end

type bytes = n list

(** val len : bytes -> n **)

let len bs =
  N.of_nat (length bs)

(** val le32 : n -> bytes **)

let le32 v =
  (N.modulo v (Npos (XO (XO (XO (XO (XO (XO (XO (XO XH)))))))))) :: (
    (N.modulo (N.div v (Npos (XO (XO (XO (XO (XO (XO (XO (XO XH))))))))))
      (Npos (XO (XO (XO (XO (XO (XO (XO (XO XH)))))))))) :: ((N.modulo
                                                               (N.div v (Npos
                                                                 (XO (XO (XO
                                                                 (XO (XO (XO
                                                                 (XO (XO (XO
                                                                 (XO (XO (XO
                                                                 (XO (XO (XO
                                                                 (XO
                                                                 XH))))))))))))))))))
                                                               (Npos (XO (XO
                                                               (XO (XO (XO
                                                               (XO (XO (XO
                                                               XH)))))))))) :: (
    (N.modulo
      (N.div v (Npos (XO (XO (XO (XO (XO (XO (XO (XO (XO (XO (XO (XO (XO (XO
        (XO (XO (XO (XO (XO (XO (XO (XO (XO (XO XH))))))))))))))))))))))))))
      (Npos (XO (XO (XO (XO (XO (XO (XO (XO XH)))))))))) :: [])))

(** val le64 : n -> bytes **)

let le64 v =
  app
    (le32
      (N.modulo v (Npos (XO (XO (XO (XO (XO (XO (XO (XO (XO (XO (XO (XO (XO
        (XO (XO (XO (XO (XO (XO (XO (XO (XO (XO (XO (XO (XO (XO (XO (XO (XO
        (XO (XO XH)))))))))))))))))))))))))))))))))))
    (le32
      (N.div v (Npos (XO (XO (XO (XO (XO (XO (XO (XO (XO (XO (XO (XO (XO (XO
        (XO (XO (XO (XO (XO (XO (XO (XO (XO (XO (XO (XO (XO (XO (XO (XO (XO
        (XO XH)))))))))))))))))))))))))))))))))))

(** val nth0 : nat -> bytes -> n **)

let nth0 n0 bs =
  nth n0 bs N0

(** val rd32 : bytes -> n **)

let rd32 bs =
  N.add
    (N.add
      (N.add (nth0 O bs)
        (N.mul (Npos (XO (XO (XO (XO (XO (XO (XO (XO XH)))))))))
          (nth0 (S O) bs)))
      (N.mul (Npos (XO (XO (XO (XO (XO (XO (XO (XO (XO (XO (XO (XO (XO (XO
        (XO (XO XH))))))))))))))))) (nth0 (S (S O)) bs)))
    (N.mul (Npos (XO (XO (XO (XO (XO (XO (XO (XO (XO (XO (XO (XO (XO (XO (XO
      (XO (XO (XO (XO (XO (XO (XO (XO (XO XH)))))))))))))))))))))))))
      (nth0 (S (S (S O))) bs))

(** val rd64 : bytes -> n **)

let rd64 bs =
  N.add (rd32 bs)
    (N.mul (Npos (XO (XO (XO (XO (XO (XO (XO (XO (XO (XO (XO (XO (XO (XO (XO
      (XO (XO (XO (XO (XO (XO (XO (XO (XO (XO (XO (XO (XO (XO (XO (XO (XO
      XH))))))))))))))))))))))))))))))))) (rd32 (skipn (S (S (S (S O)))) bs)))

(** val be32 : n -> bytes **)

let be32 v =
  rev (le32 v)

(** val be64 : n -> bytes **)

let be64 v =
  rev (le64 v)

(** val rdbe32 : bytes -> n **)

let rdbe32 bs =
  rd32 (rev (firstn (S (S (S (S O)))) bs))

(** val rdbe64 : bytes -> n **)

let rdbe64 bs =
  rd64 (rev (firstn (S (S (S (S (S (S (S (S O)))))))) bs))

(** val be16 : n -> bytes **)

let be16 v =
  (N.modulo (N.div v (Npos (XO (XO (XO (XO (XO (XO (XO (XO XH)))))))))) (Npos
    (XO (XO (XO (XO (XO (XO (XO (XO XH)))))))))) :: ((N.modulo v (Npos (XO
                                                       (XO (XO (XO (XO (XO
                                                       (XO (XO XH)))))))))) :: [])

(** val rdbe16 : bytes -> n **)

let rdbe16 bs =
  N.add (N.mul (Npos (XO (XO (XO (XO (XO (XO (XO (XO XH))))))))) (nth0 O bs))
    (nth0 (S O) bs)

(** val two64 : n **)

let two64 =
  Npos (XO (XO (XO (XO (XO (XO (XO (XO (XO (XO (XO (XO (XO (XO (XO (XO (XO
    (XO (XO (XO (XO (XO (XO (XO (XO (XO (XO (XO (XO (XO (XO (XO (XO (XO (XO
    (XO (XO (XO (XO (XO (XO (XO (XO (XO (XO (XO (XO (XO (XO (XO (XO (XO (XO
    (XO (XO (XO (XO (XO (XO (XO (XO (XO (XO (XO
    XH))))))))))))))))))))))))))))))))))))))))))))))))))))))))))))))))

(** val two63 : n **)

let two63 =
  Npos (XO (XO (XO (XO (XO (XO (XO (XO (XO (XO (XO (XO (XO (XO (XO (XO (XO
    (XO (XO (XO (XO (XO (XO (XO (XO (XO (XO (XO (XO (XO (XO (XO (XO (XO (XO
    (XO (XO (XO (XO (XO (XO (XO (XO (XO (XO (XO (XO (XO (XO (XO (XO (XO (XO
    (XO (XO (XO (XO (XO (XO (XO (XO (XO (XO
    XH)))))))))))))))))))))))))))))))))))))))))))))))))))))))))))))))

(** val two32 : n **)

let two32 =
  Npos (XO (XO (XO (XO (XO (XO (XO (XO (XO (XO (XO (XO (XO (XO (XO (XO (XO
    (XO (XO (XO (XO (XO (XO (XO (XO (XO (XO (XO (XO (XO (XO (XO
    XH))))))))))))))))))))))))))))))))

(** val two31 : n **)

let two31 =
  Npos (XO (XO (XO (XO (XO (XO (XO (XO (XO (XO (XO (XO (XO (XO (XO (XO (XO
    (XO (XO (XO (XO (XO (XO (XO (XO (XO (XO (XO (XO (XO (XO
    XH)))))))))))))))))))))))))))))))

(** val two16 : n **)

let two16 =
  Npos (XO (XO (XO (XO (XO (XO (XO (XO (XO (XO (XO (XO (XO (XO (XO (XO
    XH))))))))))))))))

(** val two15 : n **)

let two15 =
  Npos (XO (XO (XO (XO (XO (XO (XO (XO (XO (XO (XO (XO (XO (XO (XO
    XH)))))))))))))))

(** val z_to_u : n -> z -> n **)

let z_to_u w z0 =
  Z.to_N (Z.modulo z0 (Z.of_N w))

(** val u_to_z : n -> n -> n -> z **)

let u_to_z w half u =
  if N.ltb u half then Z.of_N u else Z.sub (Z.of_N u) (Z.of_N w)

type str = n list

(** val sp : n **)

let sp =
  Npos (XO (XO (XO (XO (XO XH)))))

(** val split_aux : str -> str -> str list **)

let rec split_aux s cur =
  match s with
  | [] -> (rev_append cur []) :: []
  | c :: r ->
    if N.eqb c sp
    then (rev_append cur []) :: (split_aux r [])
    else split_aux r (c :: cur)

(** val tokens : str -> str list **)

let tokens s =
  split_aux s []

(** val hexval : n -> n option **)

let hexval c =
  if (&&) (N.leb (Npos (XO (XO (XO (XO (XI XH)))))) c)
       (N.leb c (Npos (XI (XO (XO (XI (XI XH)))))))
  then Some (N.sub c (Npos (XO (XO (XO (XO (XI XH)))))))
  else if (&&) (N.leb (Npos (XI (XO (XO (XO (XO (XI XH))))))) c)
            (N.leb c (Npos (XO (XI (XI (XO (XO (XI XH))))))))
       then Some (N.sub c (Npos (XI (XI (XI (XO (XI (XO XH))))))))
       else None

(** val hex_to_N_aux : str -> n -> n option **)

let rec hex_to_N_aux s acc =
  match s with
  | [] -> Some acc
  | c :: r ->
    (match hexval c with
     | Some v ->
       hex_to_N_aux r (N.add (N.mul acc (Npos (XO (XO (XO (XO XH)))))) v)
     | None -> None)

(** val hex_to_N : str -> n option **)

let hex_to_N s = match s with
| [] -> None
| _ :: _ -> hex_to_N_aux s N0

(** val hex_to_Z : str -> z option **)

let hex_to_Z s = match s with
| [] -> (match hex_to_N s with
         | Some n0 -> Some (Z.of_N n0)
         | None -> None)
| n0 :: r ->
  (match n0 with
   | N0 -> (match hex_to_N s with
            | Some n1 -> Some (Z.of_N n1)
            | None -> None)
   | Npos p ->
     (match p with
      | XI p0 ->
        (match p0 with
         | XO p1 ->
           (match p1 with
            | XI p2 ->
              (match p2 with
               | XI p3 ->
                 (match p3 with
                  | XO p4 ->
                    (match p4 with
                     | XH ->
                       (match hex_to_N r with
                        | Some n1 -> Some (Z.opp (Z.of_N n1))
                        | None -> None)
                     | _ ->
                       (match hex_to_N s with
                        | Some n1 -> Some (Z.of_N n1)
                        | None -> None))
                  | _ ->
                    (match hex_to_N s with
                     | Some n1 -> Some (Z.of_N n1)
                     | None -> None))
               | _ ->
                 (match hex_to_N s with
                  | Some n1 -> Some (Z.of_N n1)
                  | None -> None))
            | _ ->
              (match hex_to_N s with
               | Some n1 -> Some (Z.of_N n1)
               | None -> None))
         | _ ->
           (match hex_to_N s with
            | Some n1 -> Some (Z.of_N n1)
            | None -> None))
      | _ ->
        (match hex_to_N s with
         | Some n1 -> Some (Z.of_N n1)
         | None -> None)))

(** val hex_to_bytes_aux : str -> bytes option **)

let rec hex_to_bytes_aux = function
| [] -> Some []
| a :: l ->
  (match l with
   | [] -> None
   | b :: r ->
     (match hexval a with
      | Some x ->
        (match hexval b with
         | Some y ->
           (match hex_to_bytes_aux r with
            | Some t ->
              Some ((N.add (N.mul x (Npos (XO (XO (XO (XO XH)))))) y) :: t)
            | None -> None)
         | None -> None)
      | None -> None))

(** val hex_to_bytes : str -> bytes option **)

let hex_to_bytes s = match s with
| [] -> hex_to_bytes_aux s
| n0 :: l ->
  (match n0 with
   | N0 -> hex_to_bytes_aux s
   | Npos p ->
     (match p with
      | XI p0 ->
        (match p0 with
         | XO p1 ->
           (match p1 with
            | XI p2 ->
              (match p2 with
               | XI p3 ->
                 (match p3 with
                  | XO p4 ->
                    (match p4 with
                     | XH ->
                       (match l with
                        | [] -> Some []
                        | _ :: _ -> hex_to_bytes_aux s)
                     | _ -> hex_to_bytes_aux s)
                  | _ -> hex_to_bytes_aux s)
               | _ -> hex_to_bytes_aux s)
            | _ -> hex_to_bytes_aux s)
         | _ -> hex_to_bytes_aux s)
      | _ -> hex_to_bytes_aux s))

(** val hexdigit : n -> n **)

let hexdigit v =
  if N.ltb v (Npos (XO (XI (XO XH))))
  then N.add (Npos (XO (XO (XO (XO (XI XH)))))) v
  else N.add (Npos (XI (XI (XI (XO (XI (XO XH))))))) v

(** val n_to_hex_aux : nat -> n -> str -> str **)

let rec n_to_hex_aux fuel v acc =
  match fuel with
  | O -> acc
  | S f ->
    let acc' = (hexdigit (N.modulo v (Npos (XO (XO (XO (XO XH))))))) :: acc in
    if N.ltb v (Npos (XO (XO (XO (XO XH)))))
    then acc'
    else n_to_hex_aux f (N.div v (Npos (XO (XO (XO (XO XH)))))) acc'

(** val n_to_hex : n -> str **)

let n_to_hex v =
  n_to_hex_aux (S (S (S (S (S (S (S (S (S (S (S (S (S (S (S (S (S (S (S (S (S
    (S (S (S (S (S (S (S (S (S (S (S (S (S (S (S (S (S (S (S (S (S (S (S (S
    (S (S (S (S (S (S (S (S (S (S (S (S (S (S (S (S (S (S (S
    O)))))))))))))))))))))))))))))))))))))))))))))))))))))))))))))))) v []

(** val z_to_hex : z -> str **)

let z_to_hex z0 =
  if Z.ltb z0 Z0
  then (Npos (XI (XO (XI (XI (XO XH)))))) :: (n_to_hex (Z.to_N (Z.opp z0)))
  else n_to_hex (Z.to_N z0)

(** val bytes_to_hex_aux : bytes -> str **)

let rec bytes_to_hex_aux = function
| [] -> []
| b :: r ->
  (hexdigit (N.div b (Npos (XO (XO (XO (XO XH))))))) :: ((hexdigit
                                                           (N.modulo b (Npos
                                                             (XO (XO (XO (XO
                                                             XH))))))) :: 
    (bytes_to_hex_aux r))

(** val bytes_to_hex : bytes -> str **)

let bytes_to_hex bs = match bs with
| [] -> (Npos (XI (XO (XI (XI (XO XH)))))) :: []
| _ :: _ -> bytes_to_hex_aux bs

(** val join : str list -> str **)

let rec join = function
| [] -> []
| x :: r -> (match r with
             | [] -> x
             | _ :: _ -> app x (sp :: (join r)))

(** val s_ok : str **)

let s_ok =
  (Npos (XI (XI (XI (XI (XO (XI XH))))))) :: ((Npos (XI (XI (XO (XI (XO (XI
    XH))))))) :: [])

(** val s_err : str **)

let s_err =
  (Npos (XI (XO (XI (XO (XO (XI XH))))))) :: ((Npos (XO (XI (XO (XO (XI (XI
    XH))))))) :: ((Npos (XO (XI (XO (XO (XI (XI XH))))))) :: []))

(** val s_bad : str **)

let s_bad =
  (Npos (XO (XI (XO (XO (XO (XI XH))))))) :: ((Npos (XI (XO (XO (XO (XO (XI
    XH))))))) :: ((Npos (XO (XO (XI (XO (XO (XI XH))))))) :: ((Npos (XI (XO
    (XO (XI (XO (XI XH))))))) :: ((Npos (XO (XI (XI (XI (XO (XI
    XH))))))) :: ((Npos (XO (XO (XO (XO (XI (XI XH))))))) :: ((Npos (XI (XO
    (XI (XO (XI (XI XH))))))) :: ((Npos (XO (XO (XI (XO (XI (XI
    XH))))))) :: [])))))))

(** val s_none : str **)

let s_none =
  (Npos (XO (XI (XI (XI (XO (XI XH))))))) :: ((Npos (XI (XI (XI (XI (XO (XI
    XH))))))) :: ((Npos (XO (XI (XI (XI (XO (XI XH))))))) :: ((Npos (XI (XO
    (XI (XO (XO (XI XH))))))) :: [])))

(** val s_utc : str **)

let s_utc =
  (Npos (XI (XO (XI (XO (XI (XI XH))))))) :: ((Npos (XO (XO (XI (XO (XI (XI
    XH))))))) :: ((Npos (XI (XI (XO (XO (XO (XI XH))))))) :: []))

(** val str_eqb : str -> str -> bool **)

let rec str_eqb a b =
  match a with
  | [] -> (match b with
           | [] -> true
           | _ :: _ -> false)
  | x :: a' ->
    (match b with
     | [] -> false
     | y :: b' -> (&&) (N.eqb x y) (str_eqb a' b'))

(** val put_uvarint_aux : nat -> n -> bytes **)

let rec put_uvarint_aux fuel v =
  match fuel with
  | O -> []
  | S f ->
    if N.ltb v (Npos (XO (XO (XO (XO (XO (XO (XO XH))))))))
    then v :: []
    else (N.add (N.modulo v (Npos (XO (XO (XO (XO (XO (XO (XO XH)))))))))
           (Npos (XO (XO (XO (XO (XO (XO (XO XH))))))))) :: (put_uvarint_aux
                                                              f
                                                              (N.div v (Npos
                                                                (XO (XO (XO
                                                                (XO (XO (XO
                                                                (XO
                                                                XH))))))))))

(** val put_uvarint : n -> bytes **)

let put_uvarint v =
  put_uvarint_aux (S (S (S (S (S (S (S (S (S (S O)))))))))) v

(** val get_uvarint_aux : bytes -> nat -> n -> n -> n * z **)

let rec get_uvarint_aux buf i x s =
  match buf with
  | [] -> (N0, Z0)
  | b :: r ->
    if Nat.eqb i (S (S (S (S (S (S (S (S (S (S O))))))))))
    then (N0, (Z.opp (Z.add (Z.of_nat i) (Zpos XH))))
    else if N.ltb b (Npos (XO (XO (XO (XO (XO (XO (XO XH))))))))
         then if (&&) (Nat.eqb i (S (S (S (S (S (S (S (S (S O))))))))))
                   (N.ltb (Npos XH) b)
              then (N0, (Z.opp (Z.add (Z.of_nat i) (Zpos XH))))
              else ((N.modulo (N.add x (N.mul b (N.pow (Npos (XO XH)) s)))
                      two64), (Z.add (Z.of_nat i) (Zpos XH)))
         else get_uvarint_aux r (S i)
                (N.modulo
                  (N.add x
                    (N.mul
                      (N.modulo b (Npos (XO (XO (XO (XO (XO (XO (XO
                        XH))))))))) (N.pow (Npos (XO XH)) s))) two64)
                (N.add s (Npos (XI (XI XH))))

(** val get_uvarint : bytes -> n * z **)

let get_uvarint buf =
  get_uvarint_aux buf O N0 N0

type gotime = { t_sec : z; t_nsec : z; t_zone : z option }

(** val marshal_time : gotime -> bytes option **)

let marshal_time t =
  let hdr = fun version offmin ->
    app ((Z.to_N version) :: [])
      (app (be64 (z_to_u two64 t.t_sec))
        (app (be32 (z_to_u two32 t.t_nsec)) (be16 (z_to_u two16 offmin))))
  in
  (match t.t_zone with
   | Some off ->
     let offsec = Z.rem off (Zpos (XO (XO (XI (XI (XI XH)))))) in
     let offmin = Z.quot off (Zpos (XO (XO (XI (XI (XI XH)))))) in
     if (||)
          ((||)
            (Z.ltb offmin (Zneg (XO (XO (XO (XO (XO (XO (XO (XO (XO (XO (XO
              (XO (XO (XO (XO XH))))))))))))))))) (Z.eqb offmin (Zneg XH)))
          (Z.ltb (Zpos (XI (XI (XI (XI (XI (XI (XI (XI (XI (XI (XI (XI (XI
            (XI XH))))))))))))))) offmin)
     then None
     else if Z.eqb offsec Z0
          then Some (hdr (Zpos XH) offmin)
          else Some
                 (app (hdr (Zpos (XO XH)) offmin)
                   ((z_to_u (Npos (XO (XO (XO (XO (XO (XO (XO (XO XH)))))))))
                      offsec) :: []))
   | None -> Some (hdr (Zpos XH) (Zneg XH)))

(** val unmarshal_time : bytes -> gotime option **)

let unmarshal_time buf = match buf with
| [] -> None
| version :: rest ->
  if negb ((||) (N.eqb version (Npos XH)) (N.eqb version (Npos (XO XH))))
  then None
  else let want =
         if N.eqb version (Npos (XO XH))
         then S (S (S (S (S (S (S (S (S (S (S (S (S (S (S (S O)))))))))))))))
         else S (S (S (S (S (S (S (S (S (S (S (S (S (S (S O))))))))))))))
       in
       if negb (Nat.eqb (length buf) want)
       then None
       else let sec = u_to_z two64 two63 (rdbe64 rest) in
            let nsec =
              u_to_z two32 two31
                (rdbe32 (skipn (S (S (S (S (S (S (S (S O)))))))) rest))
            in
            let offmin =
              u_to_z two16 two15
                (rdbe16
                  (skipn (S (S (S (S (S (S (S (S (S (S (S (S O))))))))))))
                    rest))
            in
            let offs =
              if N.eqb version (Npos (XO XH))
              then Z.of_N
                     (nth0 (S (S (S (S (S (S (S (S (S (S (S (S (S (S
                       O)))))))))))))) rest)
              else Z0
            in
            let off =
              Z.add (Z.mul offmin (Zpos (XO (XO (XI (XI (XI XH))))))) offs
            in
            Some { t_sec = sec; t_nsec = nsec; t_zone =
            (if Z.eqb off (Zneg (XO (XO (XI (XI (XI XH))))))
             then None
             else Some off) }

type log = { l_index : n; l_term : n; l_type : n; l_data : bytes;
             l_ext : bytes; l_time : gotime }

(** val enc_bytes : bytes -> bytes **)

let enc_bytes bs =
  app (put_uvarint (len bs)) bs

(** val encode_log : log -> bytes option **)

let encode_log l =
  match marshal_time l.l_time with
  | Some tb ->
    Some
      (app (put_uvarint l.l_index)
        (app (put_uvarint l.l_term)
          (app (put_uvarint l.l_type)
            (app (enc_bytes l.l_data) (app (enc_bytes l.l_ext) tb)))))
  | None -> None

type 'a dres =
| DOk of 'a * bytes
| DErr

(** val dec_varint : bytes -> n dres **)

let dec_varint buf =
  let (v, n0) = get_uvarint buf in
  if Z.leb n0 Z0 then DErr else DOk (v, (skipn (Z.to_nat n0) buf))

(** val dec_bytes : bytes -> bytes dres **)

let dec_bytes buf =
  match dec_varint buf with
  | DOk (n0, rest) ->
    if N.eqb n0 N0
    then DOk ([], rest)
    else if N.ltb (len rest) n0
         then DErr
         else DOk ((firstn (N.to_nat n0) rest), (skipn (N.to_nat n0) rest))
  | DErr -> DErr

(** val decode_log : bytes -> log option **)

let decode_log buf =
  match dec_varint buf with
  | DOk (idx, r1) ->
    (match dec_varint r1 with
     | DOk (term, r2) ->
       (match dec_varint r2 with
        | DOk (typ, r3) ->
          (match dec_bytes r3 with
           | DOk (data, r4) ->
             (match dec_bytes r4 with
              | DOk (ext, r5) ->
                (match unmarshal_time r5 with
                 | Some t ->
                   Some { l_index = idx; l_term = term; l_type =
                     (N.modulo typ (Npos (XO (XO (XO (XO (XO (XO (XO (XO
                       XH)))))))))); l_data = data; l_ext = ext; l_time = t }
                 | None -> None)
              | DErr -> None)
           | DErr -> None)
        | DErr -> None)
     | DErr -> None)
  | DErr -> None

(** val parse_zone : str -> z option option **)

let parse_zone s =
  if str_eqb s s_utc
  then Some None
  else (match hex_to_Z s with
        | Some z0 -> Some (Some z0)
        | None -> None)

(** val show_zone : z option -> str **)

let show_zone = function
| Some o -> z_to_hex o
| None -> s_utc

(** val parse_log : str list -> log option **)

let parse_log = function
| [] -> None
| i :: l ->
  (match l with
   | [] -> None
   | t :: l0 ->
     (match l0 with
      | [] -> None
      | ty :: l1 ->
        (match l1 with
         | [] -> None
         | d :: l2 ->
           (match l2 with
            | [] -> None
            | e :: l3 ->
              (match l3 with
               | [] -> None
               | sec :: l4 ->
                 (match l4 with
                  | [] -> None
                  | ns :: l5 ->
                    (match l5 with
                     | [] -> None
                     | zn :: l6 ->
                       (match l6 with
                        | [] ->
                          (match hex_to_N i with
                           | Some i0 ->
                             (match hex_to_N t with
                              | Some t0 ->
                                (match hex_to_N ty with
                                 | Some ty0 ->
                                   (match hex_to_bytes d with
                                    | Some d0 ->
                                      (match hex_to_bytes e with
                                       | Some e0 ->
                                         (match hex_to_Z sec with
                                          | Some sec0 ->
                                            (match hex_to_Z ns with
                                             | Some ns0 ->
                                               (match parse_zone zn with
                                                | Some zn0 ->
                                                  Some { l_index = i0;
                                                    l_term = t0; l_type =
                                                    ty0; l_data = d0; l_ext =
                                                    e0; l_time = { t_sec =
                                                    sec0; t_nsec = ns0;
                                                    t_zone = zn0 } }
                                                | None -> None)
                                             | None -> None)
                                          | None -> None)
                                       | None -> None)
                                    | None -> None)
                                 | None -> None)
                              | None -> None)
                           | None -> None)
                        | _ :: _ -> None))))))))

(** val show_log : bool -> log -> str **)

let show_log with_time l =
  join
    (app
      ((n_to_hex l.l_index) :: ((n_to_hex l.l_term) :: ((n_to_hex l.l_type) :: (
      (bytes_to_hex l.l_data) :: ((bytes_to_hex l.l_ext) :: [])))))
      (if with_time
       then (z_to_hex l.l_time.t_sec) :: ((z_to_hex l.l_time.t_nsec) :: (
              (show_zone l.l_time.t_zone) :: []))
       else []))

(** val run_enc : str list -> str **)

let run_enc ts =
  match parse_log ts with
  | Some l ->
    (match encode_log l with
     | Some bs -> bytes_to_hex bs
     | None -> s_err)
  | None -> s_bad

(** val run_dec : str list -> str **)

let run_dec = function
| [] -> s_bad
| h :: l ->
  (match l with
   | [] -> s_bad
   | flag :: l0 ->
     (match l0 with
      | [] ->
        (match hex_to_bytes h with
         | Some bs ->
           (match decode_log bs with
            | Some l1 ->
              join
                (s_ok :: ((show_log
                            (str_eqb flag ((Npos (XO (XI (XI (XO (XI (XI
                              XH))))))) :: [])) l1) :: []))
            | None -> s_err)
         | None -> s_bad)
      | _ :: _ -> s_bad))

(** val fnv_prime : n **)

let fnv_prime =
  Npos (XI (XI (XO (XO (XI (XI (XO (XI (XI (XO (XO (XO (XO (XO (XO (XO (XO
    (XO (XO (XO (XO (XO (XO (XO (XO (XO (XO (XO (XO (XO (XO (XO (XO (XO (XO
    (XO (XO (XO (XO (XO XH))))))))))))))))))))))))))))))))))))))))

(** val mask64 : n **)

let mask64 =
  Npos (XI (XI (XI (XI (XI (XI (XI (XI (XI (XI (XI (XI (XI (XI (XI (XI (XI
    (XI (XI (XI (XI (XI (XI (XI (XI (XI (XI (XI (XI (XI (XI (XI (XI (XI (XI
    (XI (XI (XI (XI (XI (XI (XI (XI (XI (XI (XI (XI (XI (XI (XI (XI (XI (XI
    (XI (XI (XI (XI (XI (XI (XI (XI (XI (XI
    XH)))))))))))))))))))))))))))))))))))))))))))))))))))))))))))))))

(** val fnv_step : n -> n -> n **)

let fnv_step h b =
  N.coq_land (N.mul fnv_prime (N.coq_lxor h b)) mask64

(** val fnv_add : n -> bytes -> n **)

let fnv_add h bs =
  fold_left fnv_step bs h

(** val fnv_add_u64 : n -> n -> n **)

let fnv_add_u64 h u =
  fnv_add h (be64 u)

(** val extensionMagicPrefix : n **)

let extensionMagicPrefix =
  Npos (XI (XI (XO (XO (XO (XO (XO (XO (XI (XO (XI (XO (XO (XI (XO (XI (XO
    (XI (XO (XO (XI (XO (XO (XI (XI (XI (XO (XO (XO (XO (XO (XO (XO (XI (XI
    (XO (XI (XO (XI (XI (XI (XO (XO (XI (XI (XI (XI (XI (XI (XO (XO (XO (XI
    (XO (XI (XI (XI (XI (XI (XI (XO (XI (XO
    XH)))))))))))))))))))))))))))))))))))))))))))))))))))))))))))))))

type entry = { e_index : n; e_term : n; e_type : n; e_data : bytes;
               e_ext : bytes }

(** val log_configuration : n **)

let log_configuration =
  Npos (XI (XO XH))

(** val is_bootstrap : entry -> bool **)

let is_bootstrap e =
  (&&) (N.eqb e.e_index (Npos XH)) (N.eqb e.e_type log_configuration)

(** val checksum_log : n -> entry -> n **)

let checksum_log sum e =
  if is_bootstrap e
  then N0
  else let s1 = fnv_add_u64 sum e.e_index in
       let s2 = fnv_add_u64 s1 e.e_term in
       let s3 = fnv_add_u64 s2 e.e_type in
       let s4 = fnv_add s3 e.e_data in
       (match e.e_ext with
        | [] -> s4
        | _ :: _ -> fnv_add s4 e.e_ext)

(** val encode_meta : n -> n -> bytes **)

let encode_meta start sum =
  app (le64 extensionMagicPrefix) (app (le64 start) (le64 sum))

type meta_res =
| MetaOk of n * n
| MetaErr

(** val decode_meta : bytes -> meta_res **)

let decode_meta bs =
  if Nat.ltb (length bs) (S (S (S (S (S (S (S (S (S (S (S (S (S (S (S (S (S
       (S (S (S (S (S (S (S O))))))))))))))))))))))))
  then MetaErr
  else if N.eqb (rd64 (firstn (S (S (S (S (S (S (S (S O)))))))) bs))
            extensionMagicPrefix
       then MetaOk
              ((rd64
                 (firstn (S (S (S (S (S (S (S (S O))))))))
                   (skipn (S (S (S (S (S (S (S (S O)))))))) bs))),
              (rd64
                (firstn (S (S (S (S (S (S (S (S O))))))))
                  (skipn (S (S (S (S (S (S (S (S (S (S (S (S (S (S (S (S
                    O)))))))))))))))) bs))))
       else MetaErr

(** val set_ext : entry -> bytes -> entry **)

let set_ext e x =
  { e_index = e.e_index; e_term = e.e_term; e_type = e.e_type; e_data =
    e.e_data; e_ext = x }

type sstore = { s_first : n; s_logs : entry list }

(** val s_empty : sstore **)

let s_empty =
  { s_first = N0; s_logs = [] }

(** val first_index : sstore -> n **)

let first_index s =
  match s.s_logs with
  | [] -> N0
  | _ :: _ -> s.s_first

(** val last_index : sstore -> n **)

let last_index s =
  match s.s_logs with
  | [] -> N0
  | _ :: _ -> N.sub (N.add s.s_first (N.of_nat (length s.s_logs))) (Npos XH)

(** val get : sstore -> n -> entry option **)

let get s i =
  if N.ltb i s.s_first
  then None
  else nth_error s.s_logs (N.to_nat (N.sub i s.s_first))

(** val contig_from : n -> entry list -> bool **)

let rec contig_from i = function
| [] -> true
| e :: r -> (&&) (N.eqb e.e_index i) (contig_from (N.add i (Npos XH)) r)

(** val store_logs : sstore -> entry list -> sstore option **)

let store_logs s b = match b with
| [] -> Some s
| e0 :: _ ->
  (match s.s_logs with
   | [] ->
     if N.eqb e0.e_index N0
     then None
     else if contig_from e0.e_index b
          then Some { s_first = e0.e_index; s_logs = b }
          else None
   | _ :: _ ->
     if contig_from (N.add s.s_first (N.of_nat (length s.s_logs))) b
     then Some { s_first = s.s_first; s_logs = (app s.s_logs b) }
     else None)

(** val delete_range : sstore -> n -> n -> sstore option **)

let delete_range s mn mx =
  if N.ltb mx mn
  then Some s
  else (match s.s_logs with
        | [] -> Some s
        | _ :: _ ->
          let f = s.s_first in
          let l = last_index s in
          if (||) (N.ltb mx f) (N.ltb l mn)
          then Some s
          else if N.leb mn f
               then if N.leb l mx
                    then Some s_empty
                    else Some { s_first = (N.add mx (Npos XH)); s_logs =
                           (skipn (N.to_nat (N.sub (N.add mx (Npos XH)) f))
                             s.s_logs) }
               else if N.leb l mx
                    then Some { s_first = f; s_logs =
                           (firstn (N.to_nat (N.sub mn f)) s.s_logs) }
                    else None)

(** val set_nth : 'a1 list -> nat -> 'a1 -> 'a1 list **)

let rec set_nth l k x =
  match l with
  | [] -> []
  | y :: r -> (match k with
               | O -> x :: r
               | S k' -> y :: (set_nth r k' x))

(** val tamper : sstore -> n -> entry -> sstore **)

let tamper s i e =
  if N.ltb i s.s_first
  then s
  else { s_first = s.s_first; s_logs =
         (set_nth s.s_logs (N.to_nat (N.sub i s.s_first)) e) }

type errkind =
| ENone
| ECkInflight
| ECkStorage
| ERange
| EOther

type report = { r_start : n; r_end : n; r_expected : n; r_written : n;
                r_read : n; r_err : errkind; r_skipped : (n * n) option }

(** val set_err : report -> errkind -> report **)

let set_err r k =
  { r_start = r.r_start; r_end = r.r_end; r_expected = r.r_expected;
    r_written = r.r_written; r_read = r.r_read; r_err = k; r_skipped =
    r.r_skipped }

(** val set_read : report -> n -> report **)

let set_read r v =
  { r_start = r.r_start; r_end = r.r_end; r_expected = r.r_expected;
    r_written = r.r_written; r_read = v; r_err = r.r_err; r_skipped =
    r.r_skipped }

(** val set_skipped : report -> (n * n) option -> report **)

let set_skipped r k =
  { r_start = r.r_start; r_end = r.r_end; r_expected = r.r_expected;
    r_written = r.r_written; r_read = r.r_read; r_err = r.r_err; r_skipped =
    k }

type vstate = { v_sum : n; v_start : n }

(** val v_init : vstate **)

let v_init =
  { v_sum = N0; v_start = N0 }

type uvs_res =
| UvsErr
| UvsOk of n * n * report option * entry

(** val new_report : n -> n -> n -> n -> report **)

let new_report st en expd wr =
  { r_start = st; r_end = en; r_expected = expd; r_written = wr; r_read = N0;
    r_err = ENone; r_skipped = None }

(** val update_verify_state :
    (entry -> bool option) -> entry -> n -> n -> uvs_res **)

let update_verify_state cpf e cs start =
  match cpf e with
  | Some is_cp ->
    let start0 = if N.eqb start N0 then e.e_index else start in
    if is_cp
    then (match e.e_ext with
          | [] ->
            let e' = set_ext e (encode_meta start0 cs) in
            UvsOk ((checksum_log N0 e'), e.e_index, (Some
            (new_report start0 e.e_index cs cs)), e')
          | _ :: _ ->
            (match decode_meta e.e_ext with
             | MetaOk (cp_start, cp_sum) ->
               let w = if N.eqb cp_start start0 then cs else N0 in
               UvsOk ((checksum_log N0 e), e.e_index, (Some
               (new_report cp_start e.e_index cp_sum w)), e)
             | MetaErr -> UvsErr))
    else UvsOk ((checksum_log cs e), start0, None, e)
  | None -> UvsErr

(** val opt_list : 'a1 option -> 'a1 list **)

let opt_list = function
| Some x -> x :: []
| None -> []

(** val uvs_loop :
    (entry -> bool option) -> entry list -> n -> n -> (((n * n) * report
    list) * entry list) option **)

let rec uvs_loop cpf b cs start =
  match b with
  | [] -> Some (((cs, start), []), [])
  | e :: r ->
    (match update_verify_state cpf e cs start with
     | UvsErr -> None
     | UvsOk (cs', st', ro, e') ->
       (match uvs_loop cpf r cs' st' with
        | Some p ->
          let (p0, es) = p in
          let (p1, rs) = p0 in Some ((p1, (app (opt_list ro) rs)), (e' :: es))
        | None -> None))

type sres =
| SOk
| SErrVfy
| SErrStore

type store_out = { o_res : sres; o_v : vstate; o_store : sstore;
                   o_reports : report list; o_batch : entry list;
                   o_called : bool }

(** val vstore_logs :
    (entry -> bool option) -> bool -> vstate -> sstore -> entry list ->
    store_out **)

let vstore_logs cpf fail v s b = match b with
| [] ->
  { o_res = SOk; o_v = v; o_store = s; o_reports = []; o_batch = [];
    o_called = false }
| _ :: _ ->
  (match uvs_loop cpf b v.v_sum v.v_start with
   | Some p ->
     let (p0, b') = p in
     let (p1, rs) = p0 in
     let (cs, st) = p1 in
     (match if fail then None else store_logs s b' with
      | Some s' ->
        { o_res = SOk; o_v = { v_sum = cs; v_start = st }; o_store = s';
          o_reports = rs; o_batch = b'; o_called = true }
      | None ->
        { o_res = SErrStore; o_v = v; o_store = s; o_reports = []; o_batch =
          b'; o_called = true })
   | None ->
     { o_res = SErrVfy; o_v = v; o_store = s; o_reports = []; o_batch = [];
       o_called = false })

(** val vdelete_range :
    vstate -> sstore -> n -> n -> (bool * vstate) * sstore **)

let vdelete_range v s mn mx =
  match delete_range s mn mx with
  | Some s' -> ((true, v_init), s')
  | None -> ((false, v), s)

(** val read_range : sstore -> n -> nat -> n -> n option **)

let rec read_range s idx n0 sum =
  match n0 with
  | O -> Some sum
  | S k ->
    (match get s idx with
     | Some e -> read_range s (N.add idx (Npos XH)) k (checksum_log sum e)
     | None -> None)

(** val verify : sstore -> report -> report **)

let verify s r =
  if (&&) (negb (N.eqb r.r_written N0))
       (negb (N.eqb r.r_written r.r_expected))
  then set_err r ECkInflight
  else if N.ltb r.r_start (first_index s)
       then set_err r ERange
       else (match read_range s r.r_start
                     (N.to_nat (N.sub r.r_end r.r_start)) N0 with
             | Some sum ->
               let r' = set_read r sum in
               if N.eqb sum r.r_expected then r' else set_err r' ECkStorage
             | None -> set_err r EOther)

type treport = report * report list

type vchan = { c_pending : report list; c_ch : treport option;
               c_inprog : treport option; c_last : n;
               c_delivered : treport list; c_dropped : n; c_written : 
               n; g_drops : report list }

(** val c_init : vchan **)

let c_init =
  { c_pending = []; c_ch = None; c_inprog = None; c_last = N0; c_delivered =
    []; c_dropped = N0; c_written = N0; g_drops = [] }

(** val ch_push : vchan -> report list -> vchan **)

let ch_push c rs =
  { c_pending = (app c.c_pending rs); c_ch = c.c_ch; c_inprog = c.c_inprog;
    c_last = c.c_last; c_delivered = c.c_delivered; c_dropped = c.c_dropped;
    c_written = (N.add c.c_written (N.of_nat (length rs))); g_drops =
    c.g_drops }

(** val ch_send : vchan -> vchan **)

let ch_send c =
  match c.c_pending with
  | [] -> c
  | r :: rest ->
    (match c.c_ch with
     | Some _ ->
       { c_pending = rest; c_ch = c.c_ch; c_inprog = c.c_inprog; c_last =
         c.c_last; c_delivered = c.c_delivered; c_dropped =
         (N.add c.c_dropped (Npos XH)); c_written = c.c_written; g_drops =
         (app c.g_drops (r :: [])) }
     | None ->
       { c_pending = rest; c_ch = (Some (r, c.g_drops)); c_inprog =
         c.c_inprog; c_last = c.c_last; c_delivered = c.c_delivered;
         c_dropped = c.c_dropped; c_written = c.c_written; g_drops = [] })

(** val skipped_of : n -> n -> (n * n) option **)

let skipped_of last start =
  if (&&) (N.ltb N0 last) (negb (N.eqb last start))
  then Some (last, start)
  else None

(** val ch_recv : sstore -> vchan -> vchan **)

let ch_recv s c =
  match c.c_inprog with
  | Some _ -> c
  | None ->
    (match c.c_ch with
     | Some t ->
       let (r, d) = t in
       let r1 = set_skipped r (skipped_of c.c_last r.r_start) in
       { c_pending = c.c_pending; c_ch = None; c_inprog = (Some
       ((verify s r1), d)); c_last = r.r_end; c_delivered = c.c_delivered;
       c_dropped = c.c_dropped; c_written = c.c_written; g_drops = c.g_drops }
     | None -> c)

(** val ch_return : vchan -> vchan **)

let ch_return c =
  match c.c_inprog with
  | Some x ->
    { c_pending = c.c_pending; c_ch = c.c_ch; c_inprog = None; c_last =
      c.c_last; c_delivered = (app c.c_delivered (x :: [])); c_dropped =
      c.c_dropped; c_written = c.c_written; g_drops = c.g_drops }
  | None -> c

(** val ch_quiescent : vchan -> bool **)

let ch_quiescent c =
  match c.c_pending with
  | [] ->
    (match c.c_ch with
     | Some _ -> false
     | None -> (match c.c_inprog with
                | Some _ -> false
                | None -> true))
  | _ :: _ -> false

(** val ch_restart : vchan -> vchan **)

let ch_restart c =
  { c_pending = []; c_ch = None; c_inprog = None; c_last = N0; c_delivered =
    c.c_delivered; c_dropped = c.c_dropped; c_written = c.c_written;
    g_drops = [] }

type node = { n_v : vstate; n_store : sstore; n_shadow : sstore;
              n_fail : bool; n_c : vchan }

(** val node_init : node **)

let node_init =
  { n_v = v_init; n_store = s_empty; n_shadow = s_empty; n_fail = false;
    n_c = c_init }

(** val with_c : node -> vchan -> node **)

let with_c nd c =
  { n_v = nd.n_v; n_store = nd.n_store; n_shadow = nd.n_shadow; n_fail =
    nd.n_fail; n_c = c }

(** val node_store :
    (entry -> bool option) -> node -> entry list -> (sres * node) * report
    list **)

let node_store cpf nd b =
  let o = vstore_logs cpf nd.n_fail nd.n_v nd.n_store b in
  let sh' =
    match o.o_res with
    | SOk ->
      (match store_logs nd.n_shadow o.o_batch with
       | Some x -> x
       | None -> nd.n_shadow)
    | _ -> nd.n_shadow
  in
  ((o.o_res, { n_v = o.o_v; n_store = o.o_store; n_shadow = sh'; n_fail =
  (if o.o_called then false else nd.n_fail); n_c =
  (ch_push nd.n_c o.o_reports) }), o.o_reports)

(** val node_delete : node -> n -> n -> bool * node **)

let node_delete nd mn mx =
  let (p, s') = vdelete_range nd.n_v nd.n_store mn mx in
  let (ok, v') = p in
  let sh' =
    if ok
    then (match delete_range nd.n_shadow mn mx with
          | Some x -> x
          | None -> nd.n_shadow)
    else nd.n_shadow
  in
  (ok, { n_v = v'; n_store = s'; n_shadow = sh'; n_fail = nd.n_fail; n_c =
  nd.n_c })

(** val node_restart : node -> node **)

let node_restart nd =
  if ch_quiescent nd.n_c
  then { n_v = v_init; n_store = nd.n_store; n_shadow = nd.n_shadow; n_fail =
         nd.n_fail; n_c = (ch_restart nd.n_c) }
  else nd

(** val node_tamper : node -> n -> entry -> node **)

let node_tamper nd i e =
  { n_v = nd.n_v; n_store = (tamper nd.n_store i e); n_shadow = nd.n_shadow;
    n_fail = nd.n_fail; n_c = nd.n_c }

(** val node_arm_fail : node -> node **)

let node_arm_fail nd =
  { n_v = nd.n_v; n_store = nd.n_store; n_shadow = nd.n_shadow; n_fail =
    true; n_c = nd.n_c }

type event =
| HStore of nat * entry list
| HDelete of nat * n * n
| HRestart of nat
| HTamper of nat * n * entry
| HFail of nat
| HSend of nat
| HRecv of nat
| HReturn of nat

(** val ev_node : event -> nat **)

let ev_node = function
| HStore (n0, _) -> n0
| HDelete (n0, _, _) -> n0
| HRestart n0 -> n0
| HTamper (n0, _, _) -> n0
| HFail n0 -> n0
| HSend n0 -> n0
| HRecv n0 -> n0
| HReturn n0 -> n0

(** val node_step : (entry -> bool option) -> node -> event -> node **)

let node_step cpf nd = function
| HStore (_, b) ->
  (match nd.n_c.c_pending with
   | [] -> snd (fst (node_store cpf nd b))
   | _ :: _ -> nd)
| HDelete (_, mn, mx) -> snd (node_delete nd mn mx)
| HRestart _ -> node_restart nd
| HTamper (_, i, e) -> node_tamper nd i e
| HFail _ -> node_arm_fail nd
| HSend _ -> with_c nd (ch_send nd.n_c)
| HRecv _ -> with_c nd (ch_recv nd.n_store nd.n_c)
| HReturn _ -> with_c nd (ch_return nd.n_c)

(** val upd_nth : node list -> nat -> (node -> node) -> node list **)

let rec upd_nth l k f =
  match l with
  | [] -> []
  | x :: r -> (match k with
               | O -> (f x) :: r
               | S k' -> x :: (upd_nth r k' f))

type sys = node list

(** val sys_init : nat -> sys **)

let sys_init k =
  repeat node_init k

(** val node_at : sys -> nat -> node **)

let node_at st n0 =
  nth n0 st node_init

(** val step : (entry -> bool option) -> sys -> event -> sys **)

let step cpf st ev =
  upd_nth st (ev_node ev) (fun nd -> node_step cpf nd ev)

(** val run_cpf : entry -> bool option **)

let run_cpf e =
  match e.e_data with
  | [] -> Some false
  | b :: _ ->
    if N.eqb b (Npos (XO (XO (XO (XO (XO (XO (XI XH))))))))
    then Some true
    else if N.eqb b (Npos (XO (XI (XI (XI (XO (XO (XI XH))))))))
         then None
         else Some false

(** val bar : n **)

let bar =
  Npos (XO (XO (XI (XI (XI (XI XH))))))

(** val groups_aux : str list -> str list -> str list list **)

let rec groups_aux ts cur =
  match ts with
  | [] -> (rev_append cur []) :: []
  | t :: r ->
    if str_eqb t (bar :: [])
    then (rev_append cur []) :: (groups_aux r [])
    else groups_aux r (t :: cur)

(** val groups : str list -> str list list **)

let groups ts =
  groups_aux ts []

type rstate = { rs_sys : sys; rs_blocked : bool list }

(** val blocked_at : rstate -> nat -> bool **)

let blocked_at st n0 =
  nth n0 st.rs_blocked false

(** val set_nth_b : bool list -> nat -> bool -> bool list **)

let rec set_nth_b l k v =
  match l with
  | [] -> []
  | x :: r -> (match k with
               | O -> v :: r
               | S k' -> x :: (set_nth_b r k' v))

(** val do_ev : rstate -> event -> rstate **)

let do_ev st ev =
  { rs_sys = (step run_cpf st.rs_sys ev); rs_blocked = st.rs_blocked }

(** val settle : nat -> rstate -> nat -> rstate **)

let rec settle fuel st n0 =
  match fuel with
  | O -> st
  | S k ->
    let st1 = if blocked_at st n0 then st else do_ev st (HReturn n0) in
    let st2 = do_ev st1 (HRecv n0) in settle k st2 n0

(** val sends : nat -> rstate -> nat -> rstate **)

let rec sends k st n0 =
  match k with
  | O -> st
  | S k' -> sends k' (do_ev st (HSend n0)) n0

(** val s_ev : str **)

let s_ev =
  (Npos (XI (XO (XI (XO (XO (XI XH))))))) :: ((Npos (XO (XI (XI (XO (XI (XI
    XH))))))) :: [])

(** val s_es : str **)

let s_es =
  (Npos (XI (XO (XI (XO (XO (XI XH))))))) :: ((Npos (XI (XI (XO (XO (XI (XI
    XH))))))) :: [])

(** val s_er : str **)

let s_er =
  (Npos (XI (XO (XI (XO (XO (XI XH))))))) :: ((Npos (XO (XI (XO (XO (XI (XI
    XH))))))) :: [])

(** val s_nf : str **)

let s_nf =
  (Npos (XO (XI (XI (XI (XO (XI XH))))))) :: ((Npos (XO (XI (XI (XO (XO (XI
    XH))))))) :: [])

(** val s_no : str **)

let s_no =
  (Npos (XO (XI (XI (XI (XO (XI XH))))))) :: ((Npos (XI (XI (XI (XI (XO (XI
    XH))))))) :: [])

(** val s_rc : str **)

let s_rc =
  (Npos (XO (XI (XO (XO (XI (XI XH))))))) :: ((Npos (XI (XI (XO (XO (XO (XI
    XH))))))) :: [])

(** val show_sres : sres -> str **)

let show_sres = function
| SOk -> s_ok
| SErrVfy -> s_ev
| SErrStore -> s_es

(** val count_cp : entry list -> nat **)

let count_cp b =
  length
    (filter (fun e -> match run_cpf e with
                      | Some b0 -> b0
                      | None -> false) b)

(** val do_store : rstate -> nat -> entry list -> rstate * str **)

let do_store st n0 b =
  let nd = node_at st.rs_sys n0 in
  (match nd.n_c.c_inprog with
   | Some _ ->
     let (p, rs) = node_store run_cpf nd b in
     let (res, _) = p in
     let st1 = do_ev st (HStore (n0, b)) in
     ((settle (S (S (S O))) (sends (length rs) st1 n0) n0), (show_sres res))
   | None ->
     if Nat.ltb (S O) (count_cp b)
     then (st, s_rc)
     else let (p, rs) = node_store run_cpf nd b in
          let (res, _) = p in
          let st1 = do_ev st (HStore (n0, b)) in
          ((settle (S (S (S O))) (sends (length rs) st1 n0) n0),
          (show_sres res)))

(** val parse_nat : str -> nat option **)

let parse_nat s =
  match hex_to_N s with
  | Some v -> Some (N.to_nat v)
  | None -> None

(** val parse_entries : nat -> str list -> (entry list * str list) option **)

let rec parse_entries cnt ts =
  match cnt with
  | O -> Some ([], ts)
  | S k ->
    (match ts with
     | [] -> None
     | i :: l ->
       (match l with
        | [] -> None
        | t :: l0 ->
          (match l0 with
           | [] -> None
           | y :: l1 ->
             (match l1 with
              | [] -> None
              | d :: l2 ->
                (match l2 with
                 | [] -> None
                 | x :: rest ->
                   (match hex_to_N i with
                    | Some i0 ->
                      (match hex_to_N t with
                       | Some t0 ->
                         (match hex_to_N y with
                          | Some y0 ->
                            (match hex_to_bytes d with
                             | Some d0 ->
                               (match hex_to_bytes x with
                                | Some x0 ->
                                  (match parse_entries k rest with
                                   | Some p ->
                                     let (es, rest') = p in
                                     Some (({ e_index = i0; e_term = t0;
                                     e_type = y0; e_data = d0; e_ext =
                                     x0 } :: es), rest')
                                   | None -> None)
                                | None -> None)
                             | None -> None)
                          | None -> None)
                       | None -> None)
                    | None -> None))))))

(** val xor_at : bytes -> n -> n -> bytes **)

let xor_at bs pos mask0 =
  match nth_error bs (N.to_nat pos) with
  | Some v -> set_nth bs (N.to_nat pos) (N.coq_lxor v mask0)
  | None -> bs

(** val mk_entry : n -> n -> n -> bytes -> bytes -> entry **)

let mk_entry i t y d x =
  { e_index = i; e_term = t; e_type = y; e_data = d; e_ext = x }

(** val k1 : n -> str **)

let k1 c =
  c :: []

(** val k2 : n -> n -> str **)

let k2 c d =
  c :: (d :: [])

(** val apply_mut : entry -> str -> str -> str -> entry option **)

let apply_mut e kind a b =
  let i = e.e_index in
  let t = e.e_term in
  let y = e.e_type in
  let d = e.e_data in
  let x = e.e_ext in
  if str_eqb kind (k1 (Npos (XI (XO (XO (XI (XO (XI XH))))))))
  then option_map (fun v -> mk_entry v t y d x) (hex_to_N a)
  else if str_eqb kind (k1 (Npos (XO (XO (XI (XO (XI (XI XH))))))))
       then option_map (fun v -> mk_entry i v y d x) (hex_to_N a)
       else if str_eqb kind (k1 (Npos (XI (XO (XO (XI (XI (XI XH))))))))
            then option_map (fun v -> mk_entry i t v d x) (hex_to_N a)
            else if str_eqb kind (k1 (Npos (XO (XO (XI (XO (XO (XI XH))))))))
                 then option_map (fun v -> mk_entry i t y v x)
                        (hex_to_bytes a)
                 else if str_eqb kind
                           (k1 (Npos (XI (XO (XI (XO (XO (XI XH))))))))
                      then option_map (fun v -> mk_entry i t y d v)
                             (hex_to_bytes a)
                      else if str_eqb kind
                                (k2 (Npos (XO (XI (XI (XO (XO (XI XH)))))))
                                  (Npos (XO (XO (XI (XO (XO (XI XH))))))))
                           then (match hex_to_N a with
                                 | Some p ->
                                   (match hex_to_N b with
                                    | Some m ->
                                      Some (mk_entry i t y (xor_at d p m) x)
                                    | None -> None)
                                 | None -> None)
                           else if str_eqb kind
                                     (k2 (Npos (XO (XI (XI (XO (XO (XI
                                       XH))))))) (Npos (XI (XO (XI (XO (XO
                                       (XI XH))))))))
                                then (match hex_to_N a with
                                      | Some p ->
                                        (match hex_to_N b with
                                         | Some m ->
                                           Some
                                             (mk_entry i t y d (xor_at x p m))
                                         | None -> None)
                                      | None -> None)
                                else if str_eqb kind
                                          (k2 (Npos (XI (XO (XO (XO (XO (XI
                                            XH))))))) (Npos (XO (XO (XI (XO
                                            (XO (XI XH))))))))
                                     then option_map (fun v ->
                                            mk_entry i t y (app d v) x)
                                            (hex_to_bytes a)
                                     else if str_eqb kind
                                               (k2 (Npos (XI (XO (XO (XO (XO
                                                 (XI XH))))))) (Npos (XI (XO
                                                 (XI (XO (XO (XI XH))))))))
                                          then option_map (fun v ->
                                                 mk_entry i t y d (app x v))
                                                 (hex_to_bytes a)
                                          else if str_eqb kind
                                                    (k2 (Npos (XI (XI (XO (XO
                                                      (XO (XI XH))))))) (Npos
                                                      (XO (XO (XI (XO (XO (XI
                                                      XH))))))))
                                               then option_map (fun v ->
                                                      mk_entry i t y
                                                        (firstn (N.to_nat v)
                                                          d) x) (hex_to_N a)
                                               else if str_eqb kind
                                                         (k2 (Npos (XI (XI
                                                           (XO (XO (XO (XI
                                                           XH))))))) (Npos
                                                           (XI (XO (XI (XO
                                                           (XO (XI XH))))))))
                                                    then option_map (fun v ->
                                                           mk_entry i t y d
                                                             (firstn
                                                               (N.to_nat v) x))
                                                           (hex_to_N a)
                                                    else if str_eqb kind
                                                              (k2 (Npos (XI
                                                                (XI (XO (XO
                                                                (XI (XI
                                                                XH)))))))
                                                                (Npos (XO (XO
                                                                (XO (XI (XO
                                                                (XI XH))))))))
                                                         then option_map
                                                                (fun v ->
                                                                let keep =
                                                                  sub
                                                                    (length d)
                                                                    (N.to_nat
                                                                    v)
                                                                in
                                                                mk_entry i t
                                                                  y
                                                                  (firstn
                                                                    keep d)
                                                                  (app
                                                                    (skipn
                                                                    keep d) x))
                                                                (hex_to_N a)
                                                         else None

type mutation = { m_idx : n; m_kind : str; m_a : str; m_b : str }

(** val parse_muts : nat -> str list -> (mutation list * str list) option **)

let rec parse_muts cnt ts =
  match cnt with
  | O -> Some ([], ts)
  | S k ->
    (match ts with
     | [] -> None
     | i :: l ->
       (match l with
        | [] -> None
        | kd :: l0 ->
          (match l0 with
           | [] -> None
           | a :: l1 ->
             (match l1 with
              | [] -> None
              | b :: rest ->
                (match hex_to_N i with
                 | Some i0 ->
                   (match parse_muts k rest with
                    | Some p ->
                      let (ms, rest') = p in
                      Some (({ m_idx = i0; m_kind = kd; m_a = a; m_b =
                      b } :: ms), rest')
                    | None -> None)
                 | None -> None)))))

(** val mutate_at : mutation list -> n -> entry -> entry option **)

let rec mutate_at ms idx e =
  match ms with
  | [] -> Some e
  | m :: r ->
    if N.eqb m.m_idx idx
    then (match apply_mut e m.m_kind m.m_a m.m_b with
          | Some e' -> mutate_at r idx e'
          | None -> None)
    else mutate_at r idx e

(** val parse_nats : str list -> nat list option **)

let rec parse_nats = function
| [] -> Some []
| t :: r ->
  (match parse_nat t with
   | Some v ->
     (match parse_nats r with
      | Some vs -> Some (v :: vs)
      | None -> None)
   | None -> None)

(** val read_mut :
    sstore -> mutation list -> n -> nat -> entry list option option **)

let rec read_mut s ms idx = function
| O -> Some (Some [])
| S k ->
  (match get s idx with
   | Some e ->
     (match mutate_at ms idx e with
      | Some e' ->
        (match read_mut s ms (N.add idx (Npos XH)) k with
         | Some o ->
           (match o with
            | Some r -> Some (Some (e' :: r))
            | None -> Some None)
         | None -> None)
      | None -> None)
   | None -> Some None)

(** val replicate :
    nat -> rstate -> nat -> entry list -> nat list -> rstate * str list **)

let rec replicate fuel st dst es sizes =
  match fuel with
  | O -> (st, [])
  | S k ->
    (match es with
     | [] -> (st, [])
     | _ :: _ ->
       (match sizes with
        | [] ->
          let sz = length es in
          let sizes' = [] in
          let (st', o) = do_store st dst (firstn sz es) in
          if str_eqb o s_ok
          then let (st'', os) = replicate k st' dst (skipn sz es) sizes' in
               (st'', (o :: os))
          else (st', (o :: []))
        | z0 :: r ->
          let sz = if Nat.eqb z0 O then S O else z0 in
          let (st', o) = do_store st dst (firstn sz es) in
          if str_eqb o s_ok
          then let (st'', os) = replicate k st' dst (skipn sz es) r in
               (st'', (o :: os))
          else (st', (o :: []))))

(** val join_with : n -> str list -> str **)

let rec join_with sep = function
| [] -> []
| x :: r ->
  (match r with
   | [] -> x
   | _ :: _ -> app x (sep :: (join_with sep r)))

(** val show_entry : entry -> str **)

let show_entry e =
  join
    ((n_to_hex e.e_index) :: ((n_to_hex e.e_term) :: ((n_to_hex e.e_type) :: (
    (bytes_to_hex e.e_data) :: ((bytes_to_hex e.e_ext) :: [])))))

(** val run_op : rstate -> str list -> (rstate * str) option **)

let run_op st = function
| [] -> None
| op :: l ->
  (match l with
   | [] -> None
   | nn :: args ->
     (match parse_nat nn with
      | Some n0 ->
        if Nat.leb (length st.rs_sys) n0
        then None
        else if str_eqb op (k1 (Npos (XI (XO (XO (XO (XO (XI XH))))))))
             then (match args with
                   | [] -> None
                   | c :: rest ->
                     (match parse_nat c with
                      | Some cnt ->
                        (match parse_entries cnt rest with
                         | Some p ->
                           let (es, l0) = p in
                           (match l0 with
                            | [] -> Some (do_store st n0 es)
                            | _ :: _ -> None)
                         | None -> None)
                      | None -> None))
             else if str_eqb op (k1 (Npos (XO (XI (XO (XO (XI (XI XH))))))))
                  then (match args with
                        | [] -> None
                        | d :: l0 ->
                          (match l0 with
                           | [] -> None
                           | lo :: l1 ->
                             (match l1 with
                              | [] -> None
                              | hi :: l2 ->
                                (match l2 with
                                 | [] -> None
                                 | nm :: rest ->
                                   (match parse_nat d with
                                    | Some dst ->
                                      (match hex_to_N lo with
                                       | Some lo0 ->
                                         (match hex_to_N hi with
                                          | Some hi0 ->
                                            (match parse_nat nm with
                                             | Some nm0 ->
                                               if Nat.leb (length st.rs_sys)
                                                    dst
                                               then None
                                               else (match parse_muts nm0 rest with
                                                     | Some p ->
                                                       let (ms, l3) = p in
                                                       (match l3 with
                                                        | [] -> None
                                                        | _ :: szs ->
                                                          (match parse_nats
                                                                   szs with
                                                           | Some sizes ->
                                                             (match read_mut
                                                                    (node_at
                                                                    st.rs_sys
                                                                    n0).n_store
                                                                    ms lo0
                                                                    (N.to_nat
                                                                    (N.sub
                                                                    (N.add
                                                                    hi0 (Npos
                                                                    XH)) lo0)) with
                                                              | Some o ->
                                                                (match o with
                                                                 | Some es ->
                                                                   let (
                                                                    st', os) =
                                                                    replicate
                                                                    (S
                                                                    (length
                                                                    es)) st
                                                                    dst es
                                                                    sizes
                                                                   in
                                                                   Some (st',
                                                                   (match os with
                                                                    | [] ->
                                                                    s_ok
                                                                    | _ :: _ ->
                                                                    join_with
                                                                    (Npos (XO
                                                                    (XO (XI
                                                                    (XI (XO
                                                                    XH))))))
                                                                    os))
                                                                 | None ->
                                                                   Some (st,
                                                                    s_nf))
                                                              | None -> None)
                                                           | None -> None))
                                                     | None -> None)
                                             | None -> None)
                                          | None -> None)
                                       | None -> None)
                                    | None -> None)))))
                  else if str_eqb op
                            (k1 (Npos (XO (XO (XI (XO (XO (XI XH))))))))
                       then (match args with
                             | [] -> None
                             | mn :: l0 ->
                               (match l0 with
                                | [] -> None
                                | mx :: l1 ->
                                  (match l1 with
                                   | [] ->
                                     (match hex_to_N mn with
                                      | Some mn0 ->
                                        (match hex_to_N mx with
                                         | Some mx0 ->
                                           let ok =
                                             fst
                                               (node_delete
                                                 (node_at st.rs_sys n0) mn0
                                                 mx0)
                                           in
                                           Some
                                           ((settle (S (S (S O)))
                                              (do_ev st (HDelete (n0, mn0,
                                                mx0))) n0),
                                           (if ok then s_ok else s_er))
                                         | None -> None)
                                      | None -> None)
                                   | _ :: _ -> None)))
                       else if str_eqb op
                                 (k1 (Npos (XO (XO (XO (XI (XI (XI XH))))))))
                            then (match args with
                                  | [] ->
                                    if blocked_at st n0
                                    then Some (st, s_no)
                                    else Some ((do_ev st (HRestart n0)), s_ok)
                                  | _ :: _ -> None)
                            else if str_eqb op
                                      (k1 (Npos (XO (XO (XI (XO (XI (XI
                                        XH))))))))
                                 then (match args with
                                       | [] -> None
                                       | ix :: l0 ->
                                         (match l0 with
                                          | [] -> None
                                          | kd :: l1 ->
                                            (match l1 with
                                             | [] -> None
                                             | a :: l2 ->
                                               (match l2 with
                                                | [] -> None
                                                | b :: l3 ->
                                                  (match l3 with
                                                   | [] ->
                                                     (match hex_to_N ix with
                                                      | Some ix0 ->
                                                        (match get
                                                                 (node_at
                                                                   st.rs_sys
                                                                   n0).n_store
                                                                 ix0 with
                                                         | Some e ->
                                                           (match apply_mut e
                                                                    kd a b with
                                                            | Some e' ->
                                                              Some
                                                                ((do_ev st
                                                                   (HTamper
                                                                   (n0, ix0,
                                                                   e'))),
                                                                s_ok)
                                                            | None -> None)
                                                         | None ->
                                                           Some (st, s_nf))
                                                      | None -> None)
                                                   | _ :: _ -> None)))))
                                 else if str_eqb op
                                           (k1 (Npos (XO (XI (XI (XO (XO (XI
                                             XH))))))))
                                      then (match args with
                                            | [] ->
                                              Some ((do_ev st (HFail n0)),
                                                s_ok)
                                            | _ :: _ -> None)
                                      else if str_eqb op
                                                (k1 (Npos (XO (XI (XO (XO (XO
                                                  (XI XH))))))))
                                           then (match args with
                                                 | [] ->
                                                   Some ({ rs_sys =
                                                     st.rs_sys; rs_blocked =
                                                     (set_nth_b st.rs_blocked
                                                       n0 true) }, s_ok)
                                                 | _ :: _ -> None)
                                           else if str_eqb op
                                                     (k1 (Npos (XI (XO (XI
                                                       (XO (XI (XI XH))))))))
                                                then (match args with
                                                      | [] ->
                                                        Some
                                                          ((settle (S (S (S
                                                             O))) { rs_sys =
                                                             st.rs_sys;
                                                             rs_blocked =
                                                             (set_nth_b
                                                               st.rs_blocked
                                                               n0 false) } n0),
                                                          s_ok)
                                                      | _ :: _ -> None)
                                                else if str_eqb op
                                                          (k1 (Npos (XI (XI
                                                            (XI (XO (XO (XI
                                                            XH))))))))
                                                     then (match args with
                                                           | [] -> None
                                                           | ix :: l0 ->
                                                             (match l0 with
                                                              | [] ->
                                                                (match 
                                                                 hex_to_N ix with
                                                                 | Some ix0 ->
                                                                   Some (st,
                                                                    (match 
                                                                    get
                                                                    (node_at
                                                                    st.rs_sys
                                                                    n0).n_store
                                                                    ix0 with
                                                                    | Some e ->
                                                                    show_entry
                                                                    e
                                                                    | None ->
                                                                    s_nf))
                                                                 | None ->
                                                                   None)
                                                              | _ :: _ -> None))
                                                     else if str_eqb op
                                                               (k1 (Npos (XI
                                                                 (XO (XO (XI
                                                                 (XO (XI
                                                                 XH))))))))
                                                          then (match args with
                                                                | [] ->
                                                                  let s =
                                                                    (node_at
                                                                    st.rs_sys
                                                                    n0).n_store
                                                                  in
                                                                  Some (st,
                                                                  (join
                                                                    (
                                                                    (n_to_hex
                                                                    (first_index
                                                                    s)) :: (
                                                                    (n_to_hex
                                                                    (last_index
                                                                    s)) :: []))))
                                                                | _ :: _ ->
                                                                  None)
                                                          else None
      | None -> None))

(** val run_ops :
    rstate -> str list list -> str list -> (rstate * str list) option **)

let rec run_ops st gs acc =
  match gs with
  | [] -> Some (st, (rev_append acc []))
  | g :: r ->
    (match run_op st g with
     | Some p -> let (st', o) = p in run_ops st' r (o :: acc)
     | None -> None)

(** val show_err : errkind -> str **)

let show_err = function
| ENone -> s_none
| ECkInflight ->
  (Npos (XI (XI (XO (XO (XO (XI XH))))))) :: ((Npos (XI (XI (XO (XI (XO (XI
    XH))))))) :: ((Npos (XI (XO (XO (XI (XO (XI XH))))))) :: []))
| ECkStorage ->
  (Npos (XI (XI (XO (XO (XO (XI XH))))))) :: ((Npos (XI (XI (XO (XI (XO (XI
    XH))))))) :: ((Npos (XI (XI (XO (XO (XI (XI XH))))))) :: []))
| ERange ->
  (Npos (XO (XI (XO (XO (XI (XI XH))))))) :: ((Npos (XO (XI (XI (XI (XO (XI
    XH))))))) :: ((Npos (XI (XI (XI (XO (XO (XI XH))))))) :: []))
| EOther ->
  (Npos (XI (XI (XI (XI (XO (XI XH))))))) :: ((Npos (XO (XO (XI (XO (XI (XI
    XH))))))) :: ((Npos (XO (XO (XO (XI (XO (XI XH))))))) :: []))

(** val show_report : report -> str **)

let show_report r =
  join
    (app (((Npos (XO (XI (XO (XO (XI (XO
      XH))))))) :: []) :: ((n_to_hex r.r_start) :: ((n_to_hex r.r_end) :: (
      (n_to_hex r.r_expected) :: ((n_to_hex r.r_written) :: ((n_to_hex
                                                               r.r_read) :: (
      (show_err r.r_err) :: [])))))))
      (match r.r_skipped with
       | Some p -> let (a, b) = p in (n_to_hex a) :: ((n_to_hex b) :: [])
       | None ->
         ((Npos (XI (XO (XI (XI (XO XH)))))) :: []) :: (((Npos (XI (XO (XI
           (XI (XO XH)))))) :: []) :: [])))

(** val show_node : node -> str **)

let show_node nd =
  let s = nd.n_store in
  let c = nd.n_c in
  join
    (app
      ((join (((Npos (XO (XI (XI (XI (XO (XO
         XH))))))) :: []) :: ((n_to_hex (first_index s)) :: ((n_to_hex
                                                               (last_index s)) :: (
         (n_to_hex c.c_written) :: ((n_to_hex c.c_dropped) :: ((n_to_hex
                                                                 (N.of_nat
                                                                   (length
                                                                    c.c_delivered))) :: []))))))) :: [])
      (app (map (fun x -> show_report (fst x)) c.c_delivered)
        (map (fun e ->
          join (((Npos (XI (XO (XI (XO (XO (XO
            XH))))))) :: []) :: ((show_entry e) :: []))) s.s_logs)))

(** val release_all : rstate -> nat -> nat -> rstate **)

let rec release_all st k n0 =
  match k with
  | O -> st
  | S k' ->
    release_all
      (settle (S (S (S O))) { rs_sys = st.rs_sys; rs_blocked =
        (set_nth_b st.rs_blocked n0 false) } n0) k' (S n0)

(** val run_vfy : str list -> str **)

let run_vfy ts =
  match groups ts with
  | [] -> s_bad
  | l :: ops ->
    (match l with
     | [] -> s_bad
     | nn :: _ ->
       (match parse_nat nn with
        | Some k ->
          if Nat.ltb (S (S (S (S (S (S (S (S O)))))))) k
          then s_bad
          else let st0 = { rs_sys = (sys_init k); rs_blocked =
                 (repeat false k) }
               in
               (match run_ops st0 ops [] with
                | Some p ->
                  let (st, obs) = p in
                  let st' = release_all st k O in
                  join_with (Npos (XO (XO (XO (XO (XO XH))))))
                    (app obs (map show_node st'.rs_sys))
                | None -> s_bad)
        | None -> s_bad))

(** val k_enc : str **)

let k_enc =
  (Npos (XI (XO (XI (XO (XO (XI XH))))))) :: ((Npos (XO (XI (XI (XI (XO (XI
    XH))))))) :: ((Npos (XI (XI (XO (XO (XO (XI XH))))))) :: []))

(** val k_dec : str **)

let k_dec =
  (Npos (XO (XO (XI (XO (XO (XI XH))))))) :: ((Npos (XI (XO (XI (XO (XO (XI
    XH))))))) :: ((Npos (XI (XI (XO (XO (XO (XI XH))))))) :: []))

(** val k_vfy : str **)

let k_vfy =
  (Npos (XO (XI (XI (XO (XI (XI XH))))))) :: ((Npos (XO (XI (XI (XO (XO (XI
    XH))))))) :: ((Npos (XI (XO (XO (XI (XI (XI XH))))))) :: []))

(** val run_line : str -> str **)

let run_line line =
  match tokens line with
  | [] -> s_bad
  | cmd :: args ->
    if str_eqb cmd k_enc
    then run_enc args
    else if str_eqb cmd k_dec
         then run_dec args
         else if str_eqb cmd k_vfy then run_vfy args else s_bad
