
(** val negb : bool -> bool **)

let negb = function
| true -> false
| false -> true

type nat =
| O
| S of nat

(** val fst : ('a1 * 'a2) -> 'a1 **)

let fst = function
| (x, _) -> x

(** val snd : ('a1 * 'a2) -> 'a2 **)

let snd = function
| (_, y) -> y

(** val length : 'a1 list -> nat **)

let rec length = function
| [] -> O
| _ :: l' -> S (length l')

(** val app : 'a1 list -> 'a1 list -> 'a1 list **)

let rec app l m =
  match l with
  | [] -> m
  | a :: l1 -> a :: (app l1 m)

type comparison =
| Eq
| Lt
| Gt

(** val compOpp : comparison -> comparison **)

let compOpp = function
| Eq -> Eq
| Lt -> Gt
| Gt -> Lt

module Coq__1 = struct
 (** val add : nat -> nat -> nat **)
 let rec add n0 m =
   match n0 with
   | O -> m
   | S p -> S (add p m)
end
include Coq__1

module Nat =
 struct
  (** val eqb : nat -> nat -> bool **)

  let rec eqb n0 m =
    match n0 with
    | O -> (match m with
            | O -> true
            | S _ -> false)
    | S n' -> (match m with
               | O -> false
               | S m' -> eqb n' m')
 end

(** val nth : nat -> 'a1 list -> 'a1 -> 'a1 **)

let rec nth n0 l default =
  match n0 with
  | O -> (match l with
          | [] -> default
          | x :: _ -> x)
  | S m -> (match l with
            | [] -> default
            | _ :: t -> nth m t default)

(** val rev : 'a1 list -> 'a1 list **)

let rec rev = function
| [] -> []
| x :: l' -> app (rev l') (x :: [])

(** val rev_append : 'a1 list -> 'a1 list -> 'a1 list **)

let rec rev_append l l' =
  match l with
  | [] -> l'
  | a :: l0 -> rev_append l0 (a :: l')

(** val firstn : nat -> 'a1 list -> 'a1 list **)

let rec firstn n0 l =
  match n0 with
  | O -> []
  | S n1 -> (match l with
             | [] -> []
             | a :: l0 -> a :: (firstn n1 l0))

(** val skipn : nat -> 'a1 list -> 'a1 list **)

let rec skipn n0 l =
  match n0 with
  | O -> l
  | S n1 -> (match l with
             | [] -> []
             | _ :: l0 -> skipn n1 l0)

type positive =
| XI of positive
| XO of positive
| XH

type n =
| N0
| Npos of positive

type z =
| Z0
| Zpos of positive
| Zneg of positive

module Pos =
 struct
  type mask =
  | IsNul
  | IsPos of positive
  | IsNeg
 end

module Coq_Pos =
 struct
  (** val succ : positive -> positive **)

  let rec succ = function
  | XI p -> XO (succ p)
  | XO p -> XI p
  | XH -> XO XH

  (** val add : positive -> positive -> positive **)

  let rec add x y =
    match x with
    | XI p ->
      (match y with
       | XI q -> XO (add_carry p q)
       | XO q -> XI (add p q)
       | XH -> XO (succ p))
    | XO p ->
      (match y with
       | XI q -> XI (add p q)
       | XO q -> XO (add p q)
       | XH -> XI p)
    | XH -> (match y with
             | XI q -> XO (succ q)
             | XO q -> XI q
             | XH -> XO XH)

  (** val add_carry : positive -> positive -> positive **)

  and add_carry x y =
    match x with
    | XI p ->
      (match y with
       | XI q -> XI (add_carry p q)
       | XO q -> XO (add_carry p q)
       | XH -> XI (succ p))
    | XO p ->
      (match y with
       | XI q -> XO (add_carry p q)
       | XO q -> XI (add p q)
       | XH -> XO (succ p))
    | XH ->
      (match y with
       | XI q -> XI (succ q)
       | XO q -> XO (succ q)
       | XH -> XI XH)

  (** val pred_double : positive -> positive **)

  let rec pred_double = function
  | XI p -> XI (XO p)
  | XO p -> XI (pred_double p)
  | XH -> XH

  type mask = Pos.mask =
  | IsNul
  | IsPos of positive
  | IsNeg

  (** val succ_double_mask : mask -> mask **)

  let succ_double_mask = function
  | IsNul -> IsPos XH
  | IsPos p -> IsPos (XI p)
  | IsNeg -> IsNeg

  (** val double_mask : mask -> mask **)

  let double_mask = function
  | IsPos p -> IsPos (XO p)
  | x0 -> x0

  (** val double_pred_mask : positive -> mask **)

  let double_pred_mask = function
  | XI p -> IsPos (XO (XO p))
  | XO p -> IsPos (XO (pred_double p))
  | XH -> IsNul

  (** val sub_mask : positive -> positive -> mask **)

  let rec sub_mask x y =
    match x with
    | XI p ->
      (match y with
       | XI q -> double_mask (sub_mask p q)
       | XO q -> succ_double_mask (sub_mask p q)
       | XH -> IsPos (XO p))
    | XO p ->
      (match y with
       | XI q -> succ_double_mask (sub_mask_carry p q)
       | XO q -> double_mask (sub_mask p q)
       | XH -> IsPos (pred_double p))
    | XH -> (match y with
             | XH -> IsNul
             | _ -> IsNeg)

  (** val sub_mask_carry : positive -> positive -> mask **)

  and sub_mask_carry x y =
    match x with
    | XI p ->
      (match y with
       | XI q -> succ_double_mask (sub_mask_carry p q)
       | XO q -> double_mask (sub_mask p q)
       | XH -> IsPos (pred_double p))
    | XO p ->
      (match y with
       | XI q -> double_mask (sub_mask_carry p q)
       | XO q -> succ_double_mask (sub_mask_carry p q)
       | XH -> double_pred_mask p)
    | XH -> IsNeg

  (** val mul : positive -> positive -> positive **)

  let rec mul x y =
    match x with
    | XI p -> add y (XO (mul p y))
    | XO p -> XO (mul p y)
    | XH -> y

  (** val iter : ('a1 -> 'a1) -> 'a1 -> positive -> 'a1 **)

  let rec iter f x = function
  | XI n' -> f (iter f (iter f x n') n')
  | XO n' -> iter f (iter f x n') n'
  | XH -> f x

  (** val pow : positive -> positive -> positive **)

  let pow x =
    iter (mul x) XH

  (** val compare_cont : comparison -> positive -> positive -> comparison **)

  let rec compare_cont r x y =
    match x with
    | XI p ->
      (match y with
       | XI q -> compare_cont r p q
       | XO q -> compare_cont Gt p q
       | XH -> Gt)
    | XO p ->
      (match y with
       | XI q -> compare_cont Lt p q
       | XO q -> compare_cont r p q
       | XH -> Gt)
    | XH -> (match y with
             | XH -> r
             | _ -> Lt)

  (** val compare : positive -> positive -> comparison **)

  let compare =
    compare_cont Eq

  (** val eqb : positive -> positive -> bool **)

  let rec eqb p q =
    match p with
    | XI p0 -> (match q with
                | XI q0 -> eqb p0 q0
                | _ -> false)
    | XO p0 -> (match q with
                | XO q0 -> eqb p0 q0
                | _ -> false)
    | XH -> (match q with
             | XH -> true
             | _ -> false)

  (** val iter_op : ('a1 -> 'a1 -> 'a1) -> positive -> 'a1 -> 'a1 **)

  let rec iter_op op p a =
    match p with
    | XI p0 -> op a (iter_op op p0 (op a a))
    | XO p0 -> iter_op op p0 (op a a)
    | XH -> a

  (** val to_nat : positive -> nat **)

  let to_nat x =
    iter_op Coq__1.add x (S O)

  (** val of_succ_nat : nat -> positive **)

  let rec of_succ_nat = function
  | O -> XH
  | S x -> succ (of_succ_nat x)
 end

module N =
 struct
  (** val succ_double : n -> n **)

  let succ_double = function
  | N0 -> Npos XH
  | Npos p -> Npos (XI p)

  (** val double : n -> n **)

  let double = function
  | N0 -> N0
  | Npos p -> Npos (XO p)

  (** val add : n -> n -> n **)

  let add n0 m =
    match n0 with
    | N0 -> m
    | Npos p -> (match m with
                 | N0 -> n0
                 | Npos q -> Npos (Coq_Pos.add p q))

  (** val sub : n -> n -> n **)

  let sub n0 m =
    match n0 with
    | N0 -> N0
    | Npos n' ->
      (match m with
       | N0 -> n0
       | Npos m' ->
         (match Coq_Pos.sub_mask n' m' with
          | Coq_Pos.IsPos p -> Npos p
          | _ -> N0))

  (** val mul : n -> n -> n **)

  let mul n0 m =
    match n0 with
    | N0 -> N0
    | Npos p -> (match m with
                 | N0 -> N0
                 | Npos q -> Npos (Coq_Pos.mul p q))

  (** val compare : n -> n -> comparison **)

  let compare n0 m =
    match n0 with
    | N0 -> (match m with
             | N0 -> Eq
             | Npos _ -> Lt)
    | Npos n' -> (match m with
                  | N0 -> Gt
                  | Npos m' -> Coq_Pos.compare n' m')

  (** val eqb : n -> n -> bool **)

  let eqb n0 m =
    match n0 with
    | N0 -> (match m with
             | N0 -> true
             | Npos _ -> false)
    | Npos p -> (match m with
                 | N0 -> false
                 | Npos q -> Coq_Pos.eqb p q)

  (** val leb : n -> n -> bool **)

  let leb x y =
    match compare x y with
    | Gt -> false
    | _ -> true

  (** val ltb : n -> n -> bool **)

  let ltb x y =
    match compare x y with
    | Lt -> true
    | _ -> false

  (** val pow : n -> n -> n **)

  let pow n0 = function
  | N0 -> Npos XH
  | Npos p0 -> (match n0 with
                | N0 -> N0
                | Npos q -> Npos (Coq_Pos.pow q p0))

  (** val pos_div_eucl : positive -> n -> n * n **)

  let rec pos_div_eucl a b =
    match a with
    | XI a' ->
      let (q, r) = pos_div_eucl a' b in
      let r' = succ_double r in
      if leb b r' then ((succ_double q), (sub r' b)) else ((double q), r')
    | XO a' ->
      let (q, r) = pos_div_eucl a' b in
      let r' = double r in
      if leb b r' then ((succ_double q), (sub r' b)) else ((double q), r')
    | XH ->
      (match b with
       | N0 -> (N0, (Npos XH))
       | Npos p -> (match p with
                    | XH -> ((Npos XH), N0)
                    | _ -> (N0, (Npos XH))))

  (** val div_eucl : n -> n -> n * n **)

  let div_eucl a b =
    match a with
    | N0 -> (N0, N0)
    | Npos na -> (match b with
                  | N0 -> (N0, a)
                  | Npos _ -> pos_div_eucl na b)

  (** val div : n -> n -> n **)

  let div a b =
    fst (div_eucl a b)

  (** val modulo : n -> n -> n **)

  let modulo a b =
    snd (div_eucl a b)

  (** val to_nat : n -> nat **)

  let to_nat = function
  | N0 -> O
  | Npos p -> Coq_Pos.to_nat p

  (** val of_nat : nat -> n **)

  let of_nat = function
  | O -> N0
  | S n' -> Npos (Coq_Pos.of_succ_nat n')
 end

module Z =
 struct
  (** val double : z -> z **)

  let double = function
  | Z0 -> Z0
  | Zpos p -> Zpos (XO p)
  | Zneg p -> Zneg (XO p)

  (** val succ_double : z -> z **)

  let succ_double = function
  | Z0 -> Zpos XH
  | Zpos p -> Zpos (XI p)
  | Zneg p -> Zneg (Coq_Pos.pred_double p)

  (** val pred_double : z -> z **)

  let pred_double = function
  | Z0 -> Zneg XH
  | Zpos p -> Zpos (Coq_Pos.pred_double p)
  | Zneg p -> Zneg (XI p)

  (** val pos_sub : positive -> positive -> z **)

  let rec pos_sub x y =
    match x with
    | XI p ->
      (match y with
       | XI q -> double (pos_sub p q)
       | XO q -> succ_double (pos_sub p q)
       | XH -> Zpos (XO p))
    | XO p ->
      (match y with
       | XI q -> pred_double (pos_sub p q)
       | XO q -> double (pos_sub p q)
       | XH -> Zpos (Coq_Pos.pred_double p))
    | XH ->
      (match y with
       | XI q -> Zneg (XO q)
       | XO q -> Zneg (Coq_Pos.pred_double q)
       | XH -> Z0)

  (** val add : z -> z -> z **)

  let add x y =
    match x with
    | Z0 -> y
    | Zpos x' ->
      (match y with
       | Z0 -> x
       | Zpos y' -> Zpos (Coq_Pos.add x' y')
       | Zneg y' -> pos_sub x' y')
    | Zneg x' ->
      (match y with
       | Z0 -> x
       | Zpos y' -> pos_sub y' x'
       | Zneg y' -> Zneg (Coq_Pos.add x' y'))

  (** val opp : z -> z **)

  let opp = function
  | Z0 -> Z0
  | Zpos x0 -> Zneg x0
  | Zneg x0 -> Zpos x0

  (** val sub : z -> z -> z **)

  let sub m n0 =
    add m (opp n0)

  (** val mul : z -> z -> z **)

  let mul x y =
    match x with
    | Z0 -> Z0
    | Zpos x' ->
      (match y with
       | Z0 -> Z0
       | Zpos y' -> Zpos (Coq_Pos.mul x' y')
       | Zneg y' -> Zneg (Coq_Pos.mul x' y'))
    | Zneg x' ->
      (match y with
       | Z0 -> Z0
       | Zpos y' -> Zneg (Coq_Pos.mul x' y')
       | Zneg y' -> Zpos (Coq_Pos.mul x' y'))

  (** val compare : z -> z -> comparison **)

  let compare x y =
    match x with
    | Z0 -> (match y with
             | Z0 -> Eq
             | Zpos _ -> Lt
             | Zneg _ -> Gt)
    | Zpos x' -> (match y with
                  | Zpos y' -> Coq_Pos.compare x' y'
                  | _ -> Gt)
    | Zneg x' ->
      (match y with
       | Zneg y' -> compOpp (Coq_Pos.compare x' y')
       | _ -> Lt)

  (** val leb : z -> z -> bool **)

  let leb x y =
    match compare x y with
    | Gt -> false
    | _ -> true

  (** val ltb : z -> z -> bool **)

  let ltb x y =
    match compare x y with
    | Lt -> true
    | _ -> false

  (** val eqb : z -> z -> bool **)

  let eqb x y =
    match x with
    | Z0 -> (match y with
             | Z0 -> true
             | _ -> false)
    | Zpos p -> (match y with
                 | Zpos q -> Coq_Pos.eqb p q
                 | _ -> false)
    | Zneg p -> (match y with
                 | Zneg q -> Coq_Pos.eqb p q
                 | _ -> false)

  (** val to_nat : z -> nat **)

  let to_nat = function
  | Zpos p -> Coq_Pos.to_nat p
  | _ -> O

  (** val to_N : z -> n **)

  let to_N = function
  | Zpos p -> Npos p
  | _ -> N0

  (** val of_nat : nat -> z **)

  let of_nat = function
  | O -> Z0
  | S n1 -> Zpos (Coq_Pos.of_succ_nat n1)

  (** val of_N : n -> z **)

  let of_N = function
  | N0 -> Z0
  | Npos p -> Zpos p

  (** val pos_div_eucl : positive -> z -> z * z **)

  let rec pos_div_eucl a b =
    match a with
    | XI a' ->
      let (q, r) = pos_div_eucl a' b in
      let r' = add (mul (Zpos (XO XH)) r) (Zpos XH) in
      if ltb r' b
      then ((mul (Zpos (XO XH)) q), r')
      else ((add (mul (Zpos (XO XH)) q) (Zpos XH)), (sub r' b))
    | XO a' ->
      let (q, r) = pos_div_eucl a' b in
      let r' = mul (Zpos (XO XH)) r in
      if ltb r' b
      then ((mul (Zpos (XO XH)) q), r')
      else ((add (mul (Zpos (XO XH)) q) (Zpos XH)), (sub r' b))
    | XH -> if leb (Zpos (XO XH)) b then (Z0, (Zpos XH)) else ((Zpos XH), Z0)

  (** val div_eucl : z -> z -> z * z **)

  let div_eucl a b =
    match a with
    | Z0 -> (Z0, Z0)
    | Zpos a' ->
      (match b with
       | Z0 -> (Z0, a)
       | Zpos _ -> pos_div_eucl a' b
       | Zneg b' ->
         let (q, r) = pos_div_eucl a' (Zpos b') in
         (match r with
          | Z0 -> ((opp q), Z0)
          | _ -> ((opp (add q (Zpos XH))), (add b r))))
    | Zneg a' ->
      (match b with
       | Z0 -> (Z0, a)
       | Zpos _ ->
         let (q, r) = pos_div_eucl a' b in
         (match r with
          | Z0 -> ((opp q), Z0)
          | _ -> ((opp (add q (Zpos XH))), (sub b r)))
       | Zneg b' -> let (q, r) = pos_div_eucl a' (Zpos b') in (q, (opp r)))

  (** val modulo : z -> z -> z **)

  let modulo a b =
    let (_, r) = div_eucl a b in r

  (** val quotrem : z -> z -> z * z **)

  let quotrem a b =
    match a with
    | Z0 -> (Z0, Z0)
    | Zpos a0 ->
      (match b with
       | Z0 -> (Z0, a)
       | Zpos b0 ->
         let (q, r) = N.pos_div_eucl a0 (Npos b0) in ((of_N q), (of_N r))
       | Zneg b0 ->
         let (q, r) = N.pos_div_eucl a0 (Npos b0) in
         ((opp (of_N q)), (of_N r)))
    | Zneg a0 ->
      (match b with
       | Z0 -> (Z0, a)
       | Zpos b0 ->
         let (q, r) = N.pos_div_eucl a0 (Npos b0) in
         ((opp (of_N q)), (opp (of_N r)))
       | Zneg b0 ->
         let (q, r) = N.pos_div_eucl a0 (Npos b0) in
         ((of_N q), (opp (of_N r))))

  (** val quot : z -> z -> z **)

  let quot a b =
    fst (quotrem a b)

  (** val rem : z -> z -> z **)

  let rem a b =
    snd (quotrem a b)
 end

type bytes = n list

(** val len : bytes -> n **)

let len bs =
  N.of_nat (length bs)

(** val le32 : n -> bytes **)

let le32 v =
  (N.modulo v (Npos (XO (XO (XO (XO (XO (XO (XO (XO XH)))))))))) :: (
    (N.modulo (N.div v (Npos (XO (XO (XO (XO (XO (XO (XO (XO XH))))))))))
      (Npos (XO (XO (XO (XO (XO (XO (XO (XO XH)))))))))) :: ((N.modulo
                                                               (N.div v (Npos
                                                                 (XO (XO (XO
                                                                 (XO (XO (XO
                                                                 (XO (XO (XO
                                                                 (XO (XO (XO
                                                                 (XO (XO (XO
                                                                 (XO
                                                                 XH))))))))))))))))))
                                                               (Npos (XO (XO
                                                               (XO (XO (XO
                                                               (XO (XO (XO
                                                               XH)))))))))) :: (
    (N.modulo
      (N.div v (Npos (XO (XO (XO (XO (XO (XO (XO (XO (XO (XO (XO (XO (XO (XO
        (XO (XO (XO (XO (XO (XO (XO (XO (XO (XO XH))))))))))))))))))))))))))
      (Npos (XO (XO (XO (XO (XO (XO (XO (XO XH)))))))))) :: [])))

(** val le64 : n -> bytes **)

let le64 v =
  app
    (le32
      (N.modulo v (Npos (XO (XO (XO (XO (XO (XO (XO (XO (XO (XO (XO (XO (XO
        (XO (XO (XO (XO (XO (XO (XO (XO (XO (XO (XO (XO (XO (XO (XO (XO (XO
        (XO (XO XH)))))))))))))))))))))))))))))))))))
    (le32
      (N.div v (Npos (XO (XO (XO (XO (XO (XO (XO (XO (XO (XO (XO (XO (XO (XO
        (XO (XO (XO (XO (XO (XO (XO (XO (XO (XO (XO (XO (XO (XO (XO (XO (XO
        (XO XH)))))))))))))))))))))))))))))))))))

(** val nth0 : nat -> bytes -> n **)

let nth0 n0 bs =
  nth n0 bs N0

(** val rd32 : bytes -> n **)

let rd32 bs =
  N.add
    (N.add
      (N.add (nth0 O bs)
        (N.mul (Npos (XO (XO (XO (XO (XO (XO (XO (XO XH)))))))))
          (nth0 (S O) bs)))
      (N.mul (Npos (XO (XO (XO (XO (XO (XO (XO (XO (XO (XO (XO (XO (XO (XO
        (XO (XO XH))))))))))))))))) (nth0 (S (S O)) bs)))
    (N.mul (Npos (XO (XO (XO (XO (XO (XO (XO (XO (XO (XO (XO (XO (XO (XO (XO
      (XO (XO (XO (XO (XO (XO (XO (XO (XO XH)))))))))))))))))))))))))
      (nth0 (S (S (S O))) bs))

(** val rd64 : bytes -> n **)

let rd64 bs =
  N.add (rd32 bs)
    (N.mul (Npos (XO (XO (XO (XO (XO (XO (XO (XO (XO (XO (XO (XO (XO (XO (XO
      (XO (XO (XO (XO (XO (XO (XO (XO (XO (XO (XO (XO (XO (XO (XO (XO (XO
      XH))))))))))))))))))))))))))))))))) (rd32 (skipn (S (S (S (S O)))) bs)))

(** val be32 : n -> bytes **)

let be32 v =
  rev (le32 v)

(** val be64 : n -> bytes **)

let be64 v =
  rev (le64 v)

(** val rdbe32 : bytes -> n **)

let rdbe32 bs =
  rd32 (rev (firstn (S (S (S (S O)))) bs))

(** val rdbe64 : bytes -> n **)

let rdbe64 bs =
  rd64 (rev (firstn (S (S (S (S (S (S (S (S O)))))))) bs))

(** val be16 : n -> bytes **)

let be16 v =
  (N.modulo (N.div v (Npos (XO (XO (XO (XO (XO (XO (XO (XO XH)))))))))) (Npos
    (XO (XO (XO (XO (XO (XO (XO (XO XH)))))))))) :: ((N.modulo v (Npos (XO
                                                       (XO (XO (XO (XO (XO
                                                       (XO (XO XH)))))))))) :: [])

(** val rdbe16 : bytes -> n **)

let rdbe16 bs =
  N.add (N.mul (Npos (XO (XO (XO (XO (XO (XO (XO (XO XH))))))))) (nth0 O bs))
    (nth0 (S O) bs)

(** val two64 : n **)

let two64 =
  Npos (XO (XO (XO (XO (XO (XO (XO (XO (XO (XO (XO (XO (XO (XO (XO (XO (XO
    (XO (XO (XO (XO (XO (XO (XO (XO (XO (XO (XO (XO (XO (XO (XO (XO (XO (XO
    (XO (XO (XO (XO (XO (XO (XO (XO (XO (XO (XO (XO (XO (XO (XO (XO (XO (XO
    (XO (XO (XO (XO (XO (XO (XO (XO (XO (XO (XO
    XH))))))))))))))))))))))))))))))))))))))))))))))))))))))))))))))))

(** val two63 : n **)

let two63 =
  Npos (XO (XO (XO (XO (XO (XO (XO (XO (XO (XO (XO (XO (XO (XO (XO (XO (XO
    (XO (XO (XO (XO (XO (XO (XO (XO (XO (XO (XO (XO (XO (XO (XO (XO (XO (XO
    (XO (XO (XO (XO (XO (XO (XO (XO (XO (XO (XO (XO (XO (XO (XO (XO (XO (XO
    (XO (XO (XO (XO (XO (XO (XO (XO (XO (XO
    XH)))))))))))))))))))))))))))))))))))))))))))))))))))))))))))))))

(** val two32 : n **)

let two32 =
  Npos (XO (XO (XO (XO (XO (XO (XO (XO (XO (XO (XO (XO (XO (XO (XO (XO (XO
    (XO (XO (XO (XO (XO (XO (XO (XO (XO (XO (XO (XO (XO (XO (XO
    XH))))))))))))))))))))))))))))))))

(** val two31 : n **)

let two31 =
  Npos (XO (XO (XO (XO (XO (XO (XO (XO (XO (XO (XO (XO (XO (XO (XO (XO (XO
    (XO (XO (XO (XO (XO (XO (XO (XO (XO (XO (XO (XO (XO (XO
    XH)))))))))))))))))))))))))))))))

(** val two16 : n **)

let two16 =
  Npos (XO (XO (XO (XO (XO (XO (XO (XO (XO (XO (XO (XO (XO (XO (XO (XO
    XH))))))))))))))))

(** val two15 : n **)

let two15 =
  Npos (XO (XO (XO (XO (XO (XO (XO (XO (XO (XO (XO (XO (XO (XO (XO
    XH)))))))))))))))

(** val z_to_u : n -> z -> n **)

let z_to_u w z0 =
  Z.to_N (Z.modulo z0 (Z.of_N w))

(** val u_to_z : n -> n -> n -> z **)

let u_to_z w half u =
  if N.ltb u half then Z.of_N u else Z.sub (Z.of_N u) (Z.of_N w)

type str = n list

(** val sp : n **)

let sp =
  Npos (XO (XO (XO (XO (XO XH)))))

(** val split_aux : str -> str -> str list **)

let rec split_aux s cur =
  match s with
  | [] -> (rev_append cur []) :: []
  | c :: r ->
    if N.eqb c sp
    then (rev_append cur []) :: (split_aux r [])
    else split_aux r (c :: cur)

(** val tokens : str -> str list **)

let tokens s =
  split_aux s []

(** val hexval : n -> n option **)

let hexval c =
  if (&&) (N.leb (Npos (XO (XO (XO (XO (XI XH)))))) c)
       (N.leb c (Npos (XI (XO (XO (XI (XI XH)))))))
  then Some (N.sub c (Npos (XO (XO (XO (XO (XI XH)))))))
  else if (&&) (N.leb (Npos (XI (XO (XO (XO (XO (XI XH))))))) c)
            (N.leb c (Npos (XO (XI (XI (XO (XO (XI XH))))))))
       then Some (N.sub c (Npos (XI (XI (XI (XO (XI (XO XH))))))))
       else None

(** val hex_to_N_aux : str -> n -> n option **)

let rec hex_to_N_aux s acc =
  match s with
  | [] -> Some acc
  | c :: r ->
    (match hexval c with
     | Some v ->
       hex_to_N_aux r (N.add (N.mul acc (Npos (XO (XO (XO (XO XH)))))) v)
     | None -> None)

(** val hex_to_N : str -> n option **)

let hex_to_N s = match s with
| [] -> None
| _ :: _ -> hex_to_N_aux s N0

(** val hex_to_Z : str -> z option **)

let hex_to_Z s = match s with
| [] -> (match hex_to_N s with
         | Some n0 -> Some (Z.of_N n0)
         | None -> None)
| n0 :: r ->
  (match n0 with
   | N0 -> (match hex_to_N s with
            | Some n1 -> Some (Z.of_N n1)
            | None -> None)
   | Npos p ->
     (match p with
      | XI p0 ->
        (match p0 with
         | XO p1 ->
           (match p1 with
            | XI p2 ->
              (match p2 with
               | XI p3 ->
                 (match p3 with
                  | XO p4 ->
                    (match p4 with
                     | XH ->
                       (match hex_to_N r with
                        | Some n1 -> Some (Z.opp (Z.of_N n1))
                        | None -> None)
                     | _ ->
                       (match hex_to_N s with
                        | Some n1 -> Some (Z.of_N n1)
                        | None -> None))
                  | _ ->
                    (match hex_to_N s with
                     | Some n1 -> Some (Z.of_N n1)
                     | None -> None))
               | _ ->
                 (match hex_to_N s with
                  | Some n1 -> Some (Z.of_N n1)
                  | None -> None))
            | _ ->
              (match hex_to_N s with
               | Some n1 -> Some (Z.of_N n1)
               | None -> None))
         | _ ->
           (match hex_to_N s with
            | Some n1 -> Some (Z.of_N n1)
            | None -> None))
      | _ ->
        (match hex_to_N s with
         | Some n1 -> Some (Z.of_N n1)
         | None -> None)))

(** val hex_to_bytes_aux : str -> bytes option **)

let rec hex_to_bytes_aux = function
| [] -> Some []
| a :: l ->
  (match l with
   | [] -> None
   | b :: r ->
     (match hexval a with
      | Some x ->
        (match hexval b with
         | Some y ->
           (match hex_to_bytes_aux r with
            | Some t ->
              Some ((N.add (N.mul x (Npos (XO (XO (XO (XO XH)))))) y) :: t)
            | None -> None)
         | None -> None)
      | None -> None))

(** val hex_to_bytes : str -> bytes option **)

let hex_to_bytes s = match s with
| [] -> hex_to_bytes_aux s
| n0 :: l ->
  (match n0 with
   | N0 -> hex_to_bytes_aux s
   | Npos p ->
     (match p with
      | XI p0 ->
        (match p0 with
         | XO p1 ->
           (match p1 with
            | XI p2 ->
              (match p2 with
               | XI p3 ->
                 (match p3 with
                  | XO p4 ->
                    (match p4 with
                     | XH ->
                       (match l with
                        | [] -> Some []
                        | _ :: _ -> hex_to_bytes_aux s)
                     | _ -> hex_to_bytes_aux s)
                  | _ -> hex_to_bytes_aux s)
               | _ -> hex_to_bytes_aux s)
            | _ -> hex_to_bytes_aux s)
         | _ -> hex_to_bytes_aux s)
      | _ -> hex_to_bytes_aux s))

(** val hexdigit : n -> n **)

let hexdigit v =
  if N.ltb v (Npos (XO (XI (XO XH))))
  then N.add (Npos (XO (XO (XO (XO (XI XH)))))) v
  else N.add (Npos (XI (XI (XI (XO (XI (XO XH))))))) v

(** val n_to_hex_aux : nat -> n -> str -> str **)

let rec n_to_hex_aux fuel v acc =
  match fuel with
  | O -> acc
  | S f ->
    let acc' = (hexdigit (N.modulo v (Npos (XO (XO (XO (XO XH))))))) :: acc in
    if N.ltb v (Npos (XO (XO (XO (XO XH)))))
    then acc'
    else n_to_hex_aux f (N.div v (Npos (XO (XO (XO (XO XH)))))) acc'

(** val n_to_hex : n -> str **)

let n_to_hex v =
  n_to_hex_aux (S (S (S (S (S (S (S (S (S (S (S (S (S (S (S (S (S (S (S (S (S
    (S (S (S (S (S (S (S (S (S (S (S (S (S (S (S (S (S (S (S (S (S (S (S (S
    (S (S (S (S (S (S (S (S (S (S (S (S (S (S (S (S (S (S (S
    O)))))))))))))))))))))))))))))))))))))))))))))))))))))))))))))))) v []

(** val z_to_hex : z -> str **)

let z_to_hex z0 =
  if Z.ltb z0 Z0
  then (Npos (XI (XO (XI (XI (XO XH)))))) :: (n_to_hex (Z.to_N (Z.opp z0)))
  else n_to_hex (Z.to_N z0)

(** val bytes_to_hex_aux : bytes -> str **)

let rec bytes_to_hex_aux = function
| [] -> []
| b :: r ->
  (hexdigit (N.div b (Npos (XO (XO (XO (XO XH))))))) :: ((hexdigit
                                                           (N.modulo b (Npos
                                                             (XO (XO (XO (XO
                                                             XH))))))) :: 
    (bytes_to_hex_aux r))

(** val bytes_to_hex : bytes -> str **)

let bytes_to_hex bs = match bs with
| [] -> (Npos (XI (XO (XI (XI (XO XH)))))) :: []
| _ :: _ -> bytes_to_hex_aux bs

(** val join : str list -> str **)

let rec join = function
| [] -> []
| x :: r -> (match r with
             | [] -> x
             | _ :: _ -> app x (sp :: (join r)))

(** val s_ok : str **)

let s_ok =
  (Npos (XI (XI (XI (XI (XO (XI XH))))))) :: ((Npos (XI (XI (XO (XI (XO (XI
    XH))))))) :: [])

(** val s_err : str **)

let s_err =
  (Npos (XI (XO (XI (XO (XO (XI XH))))))) :: ((Npos (XO (XI (XO (XO (XI (XI
    XH))))))) :: ((Npos (XO (XI (XO (XO (XI (XI XH))))))) :: []))

(** val s_bad : str **)

let s_bad =
  (Npos (XO (XI (XO (XO (XO (XI XH))))))) :: ((Npos (XI (XO (XO (XO (XO (XI
    XH))))))) :: ((Npos (XO (XO (XI (XO (XO (XI XH))))))) :: ((Npos (XI (XO
    (XO (XI (XO (XI XH))))))) :: ((Npos (XO (XI (XI (XI (XO (XI
    XH))))))) :: ((Npos (XO (XO (XO (XO (XI (XI XH))))))) :: ((Npos (XI (XO
    (XI (XO (XI (XI XH))))))) :: ((Npos (XO (XO (XI (XO (XI (XI
    XH))))))) :: [])))))))

(** val s_utc : str **)

let s_utc =
  (Npos (XI (XO (XI (XO (XI (XI XH))))))) :: ((Npos (XO (XO (XI (XO (XI (XI
    XH))))))) :: ((Npos (XI (XI (XO (XO (XO (XI XH))))))) :: []))

(** val str_eqb : str -> str -> bool **)

let rec str_eqb a b =
  match a with
  | [] -> (match b with
           | [] -> true
           | _ :: _ -> false)
  | x :: a' ->
    (match b with
     | [] -> false
     | y :: b' -> (&&) (N.eqb x y) (str_eqb a' b'))

(** val put_uvarint_aux : nat -> n -> bytes **)

let rec put_uvarint_aux fuel v =
  match fuel with
  | O -> []
  | S f ->
    if N.ltb v (Npos (XO (XO (XO (XO (XO (XO (XO XH))))))))
    then v :: []
    else (N.add (N.modulo v (Npos (XO (XO (XO (XO (XO (XO (XO XH)))))))))
           (Npos (XO (XO (XO (XO (XO (XO (XO XH))))))))) :: (put_uvarint_aux
                                                              f
                                                              (N.div v (Npos
                                                                (XO (XO (XO
                                                                (XO (XO (XO
                                                                (XO
                                                                XH))))))))))

(** val put_uvarint : n -> bytes **)

let put_uvarint v =
  put_uvarint_aux (S (S (S (S (S (S (S (S (S (S O)))))))))) v

(** val get_uvarint_aux : bytes -> nat -> n -> n -> n * z **)

let rec get_uvarint_aux buf i x s =
  match buf with
  | [] -> (N0, Z0)
  | b :: r ->
    if Nat.eqb i (S (S (S (S (S (S (S (S (S (S O))))))))))
    then (N0, (Z.opp (Z.add (Z.of_nat i) (Zpos XH))))
    else if N.ltb b (Npos (XO (XO (XO (XO (XO (XO (XO XH))))))))
         then if (&&) (Nat.eqb i (S (S (S (S (S (S (S (S (S O))))))))))
                   (N.ltb (Npos XH) b)
              then (N0, (Z.opp (Z.add (Z.of_nat i) (Zpos XH))))
              else ((N.modulo (N.add x (N.mul b (N.pow (Npos (XO XH)) s)))
                      two64), (Z.add (Z.of_nat i) (Zpos XH)))
         else get_uvarint_aux r (S i)
                (N.modulo
                  (N.add x
                    (N.mul
                      (N.modulo b (Npos (XO (XO (XO (XO (XO (XO (XO
                        XH))))))))) (N.pow (Npos (XO XH)) s))) two64)
                (N.add s (Npos (XI (XI XH))))

(** val get_uvarint : bytes -> n * z **)

let get_uvarint buf =
  get_uvarint_aux buf O N0 N0

type gotime = { t_sec : z; t_nsec : z; t_zone : z option }

(** val marshal_time : gotime -> bytes option **)

let marshal_time t =
  let hdr = fun version offmin ->
    app ((Z.to_N version) :: [])
      (app (be64 (z_to_u two64 t.t_sec))
        (app (be32 (z_to_u two32 t.t_nsec)) (be16 (z_to_u two16 offmin))))
  in
  (match t.t_zone with
   | Some off ->
     let offsec = Z.rem off (Zpos (XO (XO (XI (XI (XI XH)))))) in
     let offmin = Z.quot off (Zpos (XO (XO (XI (XI (XI XH)))))) in
     if (||)
          ((||)
            (Z.ltb offmin (Zneg (XO (XO (XO (XO (XO (XO (XO (XO (XO (XO (XO
              (XO (XO (XO (XO XH))))))))))))))))) (Z.eqb offmin (Zneg XH)))
          (Z.ltb (Zpos (XI (XI (XI (XI (XI (XI (XI (XI (XI (XI (XI (XI (XI
            (XI XH))))))))))))))) offmin)
     then None
     else if Z.eqb offsec Z0
          then Some (hdr (Zpos XH) offmin)
          else Some
                 (app (hdr (Zpos (XO XH)) offmin)
                   ((z_to_u (Npos (XO (XO (XO (XO (XO (XO (XO (XO XH)))))))))
                      offsec) :: []))
   | None -> Some (hdr (Zpos XH) (Zneg XH)))

(** val unmarshal_time : bytes -> gotime option **)

let unmarshal_time buf = match buf with
| [] -> None
| version :: rest ->
  if negb ((||) (N.eqb version (Npos XH)) (N.eqb version (Npos (XO XH))))
  then None
  else let want =
         if N.eqb version (Npos (XO XH))
         then S (S (S (S (S (S (S (S (S (S (S (S (S (S (S (S O)))))))))))))))
         else S (S (S (S (S (S (S (S (S (S (S (S (S (S (S O))))))))))))))
       in
       if negb (Nat.eqb (length buf) want)
       then None
       else let sec = u_to_z two64 two63 (rdbe64 rest) in
            let nsec =
              u_to_z two32 two31
                (rdbe32 (skipn (S (S (S (S (S (S (S (S O)))))))) rest))
            in
            let offmin =
              u_to_z two16 two15
                (rdbe16
                  (skipn (S (S (S (S (S (S (S (S (S (S (S (S O))))))))))))
                    rest))
            in
            let offs =
              if N.eqb version (Npos (XO XH))
              then Z.of_N
                     (nth0 (S (S (S (S (S (S (S (S (S (S (S (S (S (S
                       O)))))))))))))) rest)
              else Z0
            in
            let off =
              Z.add (Z.mul offmin (Zpos (XO (XO (XI (XI (XI XH))))))) offs
            in
            Some { t_sec = sec; t_nsec = nsec; t_zone =
            (if Z.eqb off (Zneg (XO (XO (XI (XI (XI XH))))))
             then None
             else Some off) }

type log = { l_index : n; l_term : n; l_type : n; l_data : bytes;
             l_ext : bytes; l_time : gotime }

(** val enc_bytes : bytes -> bytes **)

let enc_bytes bs =
  app (put_uvarint (len bs)) bs

(** val encode_log : log -> bytes option **)

let encode_log l =
  match marshal_time l.l_time with
  | Some tb ->
    Some
      (app (put_uvarint l.l_index)
        (app (put_uvarint l.l_term)
          (app (put_uvarint l.l_type)
            (app (enc_bytes l.l_data) (app (enc_bytes l.l_ext) tb)))))
  | None -> None

type 'a dres =
| DOk of 'a * bytes
| DErr

(** val dec_varint : bytes -> n dres **)

let dec_varint buf =
  let (v, n0) = get_uvarint buf in
  if Z.leb n0 Z0 then DErr else DOk (v, (skipn (Z.to_nat n0) buf))

(** val dec_bytes : bytes -> bytes dres **)

let dec_bytes buf =
  match dec_varint buf with
  | DOk (n0, rest) ->
    if N.eqb n0 N0
    then DOk ([], rest)
    else if N.ltb (len rest) n0
         then DErr
         else DOk ((firstn (N.to_nat n0) rest), (skipn (N.to_nat n0) rest))
  | DErr -> DErr

(** val decode_log : bytes -> log option **)

let decode_log buf =
  match dec_varint buf with
  | DOk (idx, r1) ->
    (match dec_varint r1 with
     | DOk (term, r2) ->
       (match dec_varint r2 with
        | DOk (typ, r3) ->
          (match dec_bytes r3 with
           | DOk (data, r4) ->
             (match dec_bytes r4 with
              | DOk (ext, r5) ->
                (match unmarshal_time r5 with
                 | Some t ->
                   Some { l_index = idx; l_term = term; l_type =
                     (N.modulo typ (Npos (XO (XO (XO (XO (XO (XO (XO (XO
                       XH)))))))))); l_data = data; l_ext = ext; l_time = t }
                 | None -> None)
              | DErr -> None)
           | DErr -> None)
        | DErr -> None)
     | DErr -> None)
  | DErr -> None

(** val parse_zone : str -> z option option **)

let parse_zone s =
  if str_eqb s s_utc
  then Some None
  else (match hex_to_Z s with
        | Some z0 -> Some (Some z0)
        | None -> None)

(** val show_zone : z option -> str **)

let show_zone = function
| Some o -> z_to_hex o
| None -> s_utc

(** val parse_log : str list -> log option **)

let parse_log = function
| [] -> None
| i :: l ->
  (match l with
   | [] -> None
   | t :: l0 ->
     (match l0 with
      | [] -> None
      | ty :: l1 ->
        (match l1 with
         | [] -> None
         | d :: l2 ->
           (match l2 with
            | [] -> None
            | e :: l3 ->
              (match l3 with
               | [] -> None
               | sec :: l4 ->
                 (match l4 with
                  | [] -> None
                  | ns :: l5 ->
                    (match l5 with
                     | [] -> None
                     | zn :: l6 ->
                       (match l6 with
                        | [] ->
                          (match hex_to_N i with
                           | Some i0 ->
                             (match hex_to_N t with
                              | Some t0 ->
                                (match hex_to_N ty with
                                 | Some ty0 ->
                                   (match hex_to_bytes d with
                                    | Some d0 ->
                                      (match hex_to_bytes e with
                                       | Some e0 ->
                                         (match hex_to_Z sec with
                                          | Some sec0 ->
                                            (match hex_to_Z ns with
                                             | Some ns0 ->
                                               (match parse_zone zn with
                                                | Some zn0 ->
                                                  Some { l_index = i0;
                                                    l_term = t0; l_type =
                                                    ty0; l_data = d0; l_ext =
                                                    e0; l_time = { t_sec =
                                                    sec0; t_nsec = ns0;
                                                    t_zone = zn0 } }
                                                | None -> None)
                                             | None -> None)
                                          | None -> None)
                                       | None -> None)
                                    | None -> None)
                                 | None -> None)
                              | None -> None)
                           | None -> None)
                        | _ :: _ -> None))))))))

(** val show_log : bool -> log -> str **)

let show_log with_time l =
  join
    (app
      ((n_to_hex l.l_index) :: ((n_to_hex l.l_term) :: ((n_to_hex l.l_type) :: (
      (bytes_to_hex l.l_data) :: ((bytes_to_hex l.l_ext) :: [])))))
      (if with_time
       then (z_to_hex l.l_time.t_sec) :: ((z_to_hex l.l_time.t_nsec) :: (
              (show_zone l.l_time.t_zone) :: []))
       else []))

(** val run_enc : str list -> str **)

let run_enc ts =
  match parse_log ts with
  | Some l ->
    (match encode_log l with
     | Some bs -> bytes_to_hex bs
     | None -> s_err)
  | None -> s_bad

(** val run_dec : str list -> str **)

let run_dec = function
| [] -> s_bad
| h :: l ->
  (match l with
   | [] -> s_bad
   | flag :: l0 ->
     (match l0 with
      | [] ->
        (match hex_to_bytes h with
         | Some bs ->
           (match decode_log bs with
            | Some l1 ->
              join
                (s_ok :: ((show_log
                            (str_eqb flag ((Npos (XO (XI (XI (XO (XI (XI
                              XH))))))) :: [])) l1) :: []))
            | None -> s_err)
         | None -> s_bad)
      | _ :: _ -> s_bad))

(** val k_enc : str **)

let k_enc =
  (Npos (XI (XO (XI (XO (XO (XI XH))))))) :: ((Npos (XO (XI (XI (XI (XO (XI
    XH))))))) :: ((Npos (XI (XI (XO (XO (XO (XI XH))))))) :: []))

(** val k_dec : str **)

let k_dec =
  (Npos (XO (XO (XI (XO (XO (XI XH))))))) :: ((Npos (XI (XO (XI (XO (XO (XI
    XH))))))) :: ((Npos (XI (XI (XO (XO (XO (XI XH))))))) :: []))

(** val run_line : str -> str **)

let run_line line =
  match tokens line with
  | [] -> s_bad
  | cmd :: args ->
    if str_eqb cmd k_enc
    then run_enc args
    else if str_eqb cmd k_dec then run_dec args else s_bad
