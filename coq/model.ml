
(** val negb : bool -> bool **)

let negb = function
| true -> false
| false -> true

type nat =
| O
| S of nat

(** val fst : ('a1 * 'a2) -> 'a1 **)

let fst = function
| (x, _) -> x

(** val snd : ('a1 * 'a2) -> 'a2 **)

let snd = function
| (_, y) -> y

(** val length : 'a1 list -> nat **)

let rec length = function
| [] -> O
| _ :: l' -> S (length l')

(** val app : 'a1 list -> 'a1 list -> 'a1 list **)

let rec app l m =
  match l with
  | [] -> m
  | a :: l1 -> a :: (app l1 m)

type comparison =
| Eq
| Lt
| Gt

(** val compOpp : comparison -> comparison **)

let compOpp = function
| Eq -> Eq
| Lt -> Gt
| Gt -> Lt

module Coq__1 = struct
 (** val add : nat -> nat -> nat **)
 let rec add n0 m =
   match n0 with
   | O -> m
   | S p -> S (add p m)
end
include Coq__1

(** val sub : nat -> nat -> nat **)

let rec sub n0 m =
  match n0 with
  | O -> n0
  | S k -> (match m with
            | O -> n0
            | S l -> sub k l)

(** val eqb : bool -> bool -> bool **)

let eqb b1 b2 =
  if b1 then b2 else if b2 then false else true

module Nat =
 struct
  (** val eqb : nat -> nat -> bool **)

  let rec eqb n0 m =
    match n0 with
    | O -> (match m with
            | O -> true
            | S _ -> false)
    | S n' -> (match m with
               | O -> false
               | S m' -> eqb n' m')

  (** val leb : nat -> nat -> bool **)

  let rec leb n0 m =
    match n0 with
    | O -> true
    | S n' -> (match m with
               | O -> false
               | S m' -> leb n' m')

  (** val ltb : nat -> nat -> bool **)

  let ltb n0 m =
    leb (S n0) m

  (** val max : nat -> nat -> nat **)

  let rec max n0 m =
    match n0 with
    | O -> m
    | S n' -> (match m with
               | O -> n0
               | S m' -> S (max n' m'))

  (** val divmod : nat -> nat -> nat -> nat -> nat * nat **)

  let rec divmod x y q u =
    match x with
    | O -> (q, u)
    | S x' ->
      (match u with
       | O -> divmod x' y (S q) y
       | S u' -> divmod x' y q u')

  (** val div : nat -> nat -> nat **)

  let div x y = match y with
  | O -> y
  | S y' -> fst (divmod x y' O y')
 end

(** val nth : nat -> 'a1 list -> 'a1 -> 'a1 **)

let rec nth n0 l default =
  match n0 with
  | O -> (match l with
          | [] -> default
          | x :: _ -> x)
  | S m -> (match l with
            | [] -> default
            | _ :: t -> nth m t default)

(** val nth_error : 'a1 list -> nat -> 'a1 option **)

let rec nth_error l = function
| O -> (match l with
        | [] -> None
        | x :: _ -> Some x)
| S n1 -> (match l with
           | [] -> None
           | _ :: l0 -> nth_error l0 n1)

(** val rev : 'a1 list -> 'a1 list **)

let rec rev = function
| [] -> []
| x :: l' -> app (rev l') (x :: [])

(** val rev_append : 'a1 list -> 'a1 list -> 'a1 list **)

let rec rev_append l l' =
  match l with
  | [] -> l'
  | a :: l0 -> rev_append l0 (a :: l')

(** val map : ('a1 -> 'a2) -> 'a1 list -> 'a2 list **)

let rec map f = function
| [] -> []
| a :: t -> (f a) :: (map f t)

(** val flat_map : ('a1 -> 'a2 list) -> 'a1 list -> 'a2 list **)

let rec flat_map f = function
| [] -> []
| x :: t -> app (f x) (flat_map f t)

(** val fold_left : ('a1 -> 'a2 -> 'a1) -> 'a2 list -> 'a1 -> 'a1 **)

let rec fold_left f l a0 =
  match l with
  | [] -> a0
  | b :: t -> fold_left f t (f a0 b)

(** val existsb : ('a1 -> bool) -> 'a1 list -> bool **)

let rec existsb f = function
| [] -> false
| a :: l0 -> (||) (f a) (existsb f l0)

(** val firstn : nat -> 'a1 list -> 'a1 list **)

let rec firstn n0 l =
  match n0 with
  | O -> []
  | S n1 -> (match l with
             | [] -> []
             | a :: l0 -> a :: (firstn n1 l0))

(** val skipn : nat -> 'a1 list -> 'a1 list **)

let rec skipn n0 l =
  match n0 with
  | O -> l
  | S n1 -> (match l with
             | [] -> []
             | _ :: l0 -> skipn n1 l0)

(** val repeat : 'a1 -> nat -> 'a1 list **)

let rec repeat x = function
| O -> []
| S k -> x :: (repeat x k)

type positive =
| XI of positive
| XO of positive
| XH

type n =
| N0
| Npos of positive

type z =
| Z0
| Zpos of positive
| Zneg of positive

module Pos =
 struct
  type mask =
  | IsNul
  | IsPos of positive
  | IsNeg
 end

module Coq_Pos =
 struct
  (** val succ : positive -> positive **)

  let rec succ = function
  | XI p -> XO (succ p)
  | XO p -> XI p
  | XH -> XO XH

  (** val add : positive -> positive -> positive **)

  let rec add x y =
    match x with
    | XI p ->
      (match y with
       | XI q -> XO (add_carry p q)
       | XO q -> XI (add p q)
       | XH -> XO (succ p))
    | XO p ->
      (match y with
       | XI q -> XI (add p q)
       | XO q -> XO (add p q)
       | XH -> XI p)
    | XH -> (match y with
             | XI q -> XO (succ q)
             | XO q -> XI q
             | XH -> XO XH)

  (** val add_carry : positive -> positive -> positive **)

  and add_carry x y =
    match x with
    | XI p ->
      (match y with
       | XI q -> XI (add_carry p q)
       | XO q -> XO (add_carry p q)
       | XH -> XI (succ p))
    | XO p ->
      (match y with
       | XI q -> XO (add_carry p q)
       | XO q -> XI (add p q)
       | XH -> XO (succ p))
    | XH ->
      (match y with
       | XI q -> XI (succ q)
       | XO q -> XO (succ q)
       | XH -> XI XH)

  (** val pred_double : positive -> positive **)

  let rec pred_double = function
  | XI p -> XI (XO p)
  | XO p -> XI (pred_double p)
  | XH -> XH

  type mask = Pos.mask =
  | IsNul
  | IsPos of positive
  | IsNeg

  (** val succ_double_mask : mask -> mask **)

  let succ_double_mask = function
  | IsNul -> IsPos XH
  | IsPos p -> IsPos (XI p)
  | IsNeg -> IsNeg

  (** val double_mask : mask -> mask **)

  let double_mask = function
  | IsPos p -> IsPos (XO p)
  | x0 -> x0

  (** val double_pred_mask : positive -> mask **)

  let double_pred_mask = function
  | XI p -> IsPos (XO (XO p))
  | XO p -> IsPos (XO (pred_double p))
  | XH -> IsNul

  (** val sub_mask : positive -> positive -> mask **)

  let rec sub_mask x y =
    match x with
    | XI p ->
      (match y with
       | XI q -> double_mask (sub_mask p q)
       | XO q -> succ_double_mask (sub_mask p q)
       | XH -> IsPos (XO p))
    | XO p ->
      (match y with
       | XI q -> succ_double_mask (sub_mask_carry p q)
       | XO q -> double_mask (sub_mask p q)
       | XH -> IsPos (pred_double p))
    | XH -> (match y with
             | XH -> IsNul
             | _ -> IsNeg)

  (** val sub_mask_carry : positive -> positive -> mask **)

  and sub_mask_carry x y =
    match x with
    | XI p ->
      (match y with
       | XI q -> succ_double_mask (sub_mask_carry p q)
       | XO q -> double_mask (sub_mask p q)
       | XH -> IsPos (pred_double p))
    | XO p ->
      (match y with
       | XI q -> double_mask (sub_mask_carry p q)
       | XO q -> succ_double_mask (sub_mask_carry p q)
       | XH -> double_pred_mask p)
    | XH -> IsNeg

  (** val mul : positive -> positive -> positive **)

  let rec mul x y =
    match x with
    | XI p -> add y (XO (mul p y))
    | XO p -> XO (mul p y)
    | XH -> y

  (** val iter : ('a1 -> 'a1) -> 'a1 -> positive -> 'a1 **)

  let rec iter f x = function
  | XI n' -> f (iter f (iter f x n') n')
  | XO n' -> iter f (iter f x n') n'
  | XH -> f x

  (** val pow : positive -> positive -> positive **)

  let pow x =
    iter (mul x) XH

  (** val compare_cont : comparison -> positive -> positive -> comparison **)

  let rec compare_cont r x y =
    match x with
    | XI p ->
      (match y with
       | XI q -> compare_cont r p q
       | XO q -> compare_cont Gt p q
       | XH -> Gt)
    | XO p ->
      (match y with
       | XI q -> compare_cont Lt p q
       | XO q -> compare_cont r p q
       | XH -> Gt)
    | XH -> (match y with
             | XH -> r
             | _ -> Lt)

  (** val compare : positive -> positive -> comparison **)

  let compare =
    compare_cont Eq

  (** val eqb : positive -> positive -> bool **)

  let rec eqb p q =
    match p with
    | XI p0 -> (match q with
                | XI q0 -> eqb p0 q0
                | _ -> false)
    | XO p0 -> (match q with
                | XO q0 -> eqb p0 q0
                | _ -> false)
    | XH -> (match q with
             | XH -> true
             | _ -> false)

  (** val coq_Nsucc_double : n -> n **)

  let coq_Nsucc_double = function
  | N0 -> Npos XH
  | Npos p -> Npos (XI p)

  (** val coq_Ndouble : n -> n **)

  let coq_Ndouble = function
  | N0 -> N0
  | Npos p -> Npos (XO p)

  (** val coq_lxor : positive -> positive -> n **)

  let rec coq_lxor p q =
    match p with
    | XI p0 ->
      (match q with
       | XI q0 -> coq_Ndouble (coq_lxor p0 q0)
       | XO q0 -> coq_Nsucc_double (coq_lxor p0 q0)
       | XH -> Npos (XO p0))
    | XO p0 ->
      (match q with
       | XI q0 -> coq_Nsucc_double (coq_lxor p0 q0)
       | XO q0 -> coq_Ndouble (coq_lxor p0 q0)
       | XH -> Npos (XI p0))
    | XH ->
      (match q with
       | XI q0 -> Npos (XO q0)
       | XO q0 -> Npos (XI q0)
       | XH -> N0)

  (** val iter_op : ('a1 -> 'a1 -> 'a1) -> positive -> 'a1 -> 'a1 **)

  let rec iter_op op p a =
    match p with
    | XI p0 -> op a (iter_op op p0 (op a a))
    | XO p0 -> iter_op op p0 (op a a)
    | XH -> a

  (** val to_nat : positive -> nat **)

  let to_nat x =
    iter_op Coq__1.add x (S O)

  (** val of_succ_nat : nat -> positive **)

  let rec of_succ_nat = function
  | O -> XH
  | S x -> succ (of_succ_nat x)
 end

module N =
 struct
  (** val succ_double : n -> n **)

  let succ_double = function
  | N0 -> Npos XH
  | Npos p -> Npos (XI p)

  (** val double : n -> n **)

  let double = function
  | N0 -> N0
  | Npos p -> Npos (XO p)

  (** val add : n -> n -> n **)

  let add n0 m =
    match n0 with
    | N0 -> m
    | Npos p -> (match m with
                 | N0 -> n0
                 | Npos q -> Npos (Coq_Pos.add p q))

  (** val sub : n -> n -> n **)

  let sub n0 m =
    match n0 with
    | N0 -> N0
    | Npos n' ->
      (match m with
       | N0 -> n0
       | Npos m' ->
         (match Coq_Pos.sub_mask n' m' with
          | Coq_Pos.IsPos p -> Npos p
          | _ -> N0))

  (** val mul : n -> n -> n **)

  let mul n0 m =
    match n0 with
    | N0 -> N0
    | Npos p -> (match m with
                 | N0 -> N0
                 | Npos q -> Npos (Coq_Pos.mul p q))

  (** val compare : n -> n -> comparison **)

  let compare n0 m =
    match n0 with
    | N0 -> (match m with
             | N0 -> Eq
             | Npos _ -> Lt)
    | Npos n' -> (match m with
                  | N0 -> Gt
                  | Npos m' -> Coq_Pos.compare n' m')

  (** val eqb : n -> n -> bool **)

  let eqb n0 m =
    match n0 with
    | N0 -> (match m with
             | N0 -> true
             | Npos _ -> false)
    | Npos p -> (match m with
                 | N0 -> false
                 | Npos q -> Coq_Pos.eqb p q)

  (** val leb : n -> n -> bool **)

  let leb x y =
    match compare x y with
    | Gt -> false
    | _ -> true

  (** val ltb : n -> n -> bool **)

  let ltb x y =
    match compare x y with
    | Lt -> true
    | _ -> false

  (** val min : n -> n -> n **)

  let min n0 n' =
    match compare n0 n' with
    | Gt -> n'
    | _ -> n0

  (** val div2 : n -> n **)

  let div2 = function
  | N0 -> N0
  | Npos p0 -> (match p0 with
                | XI p -> Npos p
                | XO p -> Npos p
                | XH -> N0)

  (** val even : n -> bool **)

  let even = function
  | N0 -> true
  | Npos p -> (match p with
               | XO _ -> true
               | _ -> false)

  (** val odd : n -> bool **)

  let odd n0 =
    negb (even n0)

  (** val pow : n -> n -> n **)

  let pow n0 = function
  | N0 -> Npos XH
  | Npos p0 -> (match n0 with
                | N0 -> N0
                | Npos q -> Npos (Coq_Pos.pow q p0))

  (** val pos_div_eucl : positive -> n -> n * n **)

  let rec pos_div_eucl a b =
    match a with
    | XI a' ->
      let (q, r) = pos_div_eucl a' b in
      let r' = succ_double r in
      if leb b r' then ((succ_double q), (sub r' b)) else ((double q), r')
    | XO a' ->
      let (q, r) = pos_div_eucl a' b in
      let r' = double r in
      if leb b r' then ((succ_double q), (sub r' b)) else ((double q), r')
    | XH ->
      (match b with
       | N0 -> (N0, (Npos XH))
       | Npos p -> (match p with
                    | XH -> ((Npos XH), N0)
                    | _ -> (N0, (Npos XH))))

  (** val div_eucl : n -> n -> n * n **)

  let div_eucl a b =
    match a with
    | N0 -> (N0, N0)
    | Npos na -> (match b with
                  | N0 -> (N0, a)
                  | Npos _ -> pos_div_eucl na b)

  (** val div : n -> n -> n **)

  let div a b =
    fst (div_eucl a b)

  (** val modulo : n -> n -> n **)

  let modulo a b =
    snd (div_eucl a b)

  (** val coq_lxor : n -> n -> n **)

  let coq_lxor n0 m =
    match n0 with
    | N0 -> m
    | Npos p -> (match m with
                 | N0 -> n0
                 | Npos q -> Coq_Pos.coq_lxor p q)

  (** val to_nat : n -> nat **)

  let to_nat = function
  | N0 -> O
  | Npos p -> Coq_Pos.to_nat p

  (** val of_nat : nat -> n **)

  let of_nat = function
  | O -> N0
  | S n' -> Npos (Coq_Pos.of_succ_nat n')
 end

module Z =
 struct
  (** val double : z -> z **)

  let double = function
  | Z0 -> Z0
  | Zpos p -> Zpos (XO p)
  | Zneg p -> Zneg (XO p)

  (** val succ_double : z -> z **)

  let succ_double = function
  | Z0 -> Zpos XH
  | Zpos p -> Zpos (XI p)
  | Zneg p -> Zneg (Coq_Pos.pred_double p)

  (** val pred_double : z -> z **)

  let pred_double = function
  | Z0 -> Zneg XH
  | Zpos p -> Zpos (Coq_Pos.pred_double p)
  | Zneg p -> Zneg (XI p)

  (** val pos_sub : positive -> positive -> z **)

  let rec pos_sub x y =
    match x with
    | XI p ->
      (match y with
       | XI q -> double (pos_sub p q)
       | XO q -> succ_double (pos_sub p q)
       | XH -> Zpos (XO p))
    | XO p ->
      (match y with
       | XI q -> pred_double (pos_sub p q)
       | XO q -> double (pos_sub p q)
       | XH -> Zpos (Coq_Pos.pred_double p))
    | XH ->
      (match y with
       | XI q -> Zneg (XO q)
       | XO q -> Zneg (Coq_Pos.pred_double q)
       | XH -> Z0)

  (** val add : z -> z -> z **)

  let add x y =
    match x with
    | Z0 -> y
    | Zpos x' ->
      (match y with
       | Z0 -> x
       | Zpos y' -> Zpos (Coq_Pos.add x' y')
       | Zneg y' -> pos_sub x' y')
    | Zneg x' ->
      (match y with
       | Z0 -> x
       | Zpos y' -> pos_sub y' x'
       | Zneg y' -> Zneg (Coq_Pos.add x' y'))

  (** val opp : z -> z **)

  let opp = function
  | Z0 -> Z0
  | Zpos x0 -> Zneg x0
  | Zneg x0 -> Zpos x0

  (** val sub : z -> z -> z **)

  let sub m n0 =
    add m (opp n0)

  (** val mul : z -> z -> z **)

  let mul x y =
    match x with
    | Z0 -> Z0
    | Zpos x' ->
      (match y with
       | Z0 -> Z0
       | Zpos y' -> Zpos (Coq_Pos.mul x' y')
       | Zneg y' -> Zneg (Coq_Pos.mul x' y'))
    | Zneg x' ->
      (match y with
       | Z0 -> Z0
       | Zpos y' -> Zneg (Coq_Pos.mul x' y')
       | Zneg y' -> Zpos (Coq_Pos.mul x' y'))

  (** val compare : z -> z -> comparison **)

  let compare x y =
    match x with
    | Z0 -> (match y with
             | Z0 -> Eq
             | Zpos _ -> Lt
             | Zneg _ -> Gt)
    | Zpos x' -> (match y with
                  | Zpos y' -> Coq_Pos.compare x' y'
                  | _ -> Gt)
    | Zneg x' ->
      (match y with
       | Zneg y' -> compOpp (Coq_Pos.compare x' y')
       | _ -> Lt)

  (** val leb : z -> z -> bool **)

  let leb x y =
    match compare x y with
    | Gt -> false
    | _ -> true

  (** val ltb : z -> z -> bool **)

  let ltb x y =
    match compare x y with
    | Lt -> true
    | _ -> false

  (** val eqb : z -> z -> bool **)

  let eqb x y =
    match x with
    | Z0 -> (match y with
             | Z0 -> true
             | _ -> false)
    | Zpos p -> (match y with
                 | Zpos q -> Coq_Pos.eqb p q
                 | _ -> false)
    | Zneg p -> (match y with
                 | Zneg q -> Coq_Pos.eqb p q
                 | _ -> false)

  (** val to_nat : z -> nat **)

  let to_nat = function
  | Zpos p -> Coq_Pos.to_nat p
  | _ -> O

  (** val to_N : z -> n **)

  let to_N = function
  | Zpos p -> Npos p
  | _ -> N0

  (** val of_nat : nat -> z **)

  let of_nat = function
  | O -> Z0
  | S n1 -> Zpos (Coq_Pos.of_succ_nat n1)

  (** val of_N : n -> z **)

  let of_N = function
  | N0 -> Z0
  | Npos p -> Zpos p

  (** val pos_div_eucl : positive -> z -> z * z **)

  let rec pos_div_eucl a b =
    match a with
    | XI a' ->
      let (q, r) = pos_div_eucl a' b in
      let r' = add (mul (Zpos (XO XH)) r) (Zpos XH) in
      if ltb r' b
      then ((mul (Zpos (XO XH)) q), r')
      else ((add (mul (Zpos (XO XH)) q) (Zpos XH)), (sub r' b))
    | XO a' ->
      let (q, r) = pos_div_eucl a' b in
      let r' = mul (Zpos (XO XH)) r in
      if ltb r' b
      then ((mul (Zpos (XO XH)) q), r')
      else ((add (mul (Zpos (XO XH)) q) (Zpos XH)), (sub r' b))
    | XH -> if leb (Zpos (XO XH)) b then (Z0, (Zpos XH)) else ((Zpos XH), Z0)

  (** val div_eucl : z -> z -> z * z **)

  let div_eucl a b =
    match a with
    | Z0 -> (Z0, Z0)
    | Zpos a' ->
      (match b with
       | Z0 -> (Z0, a)
       | Zpos _ -> pos_div_eucl a' b
       | Zneg b' ->
         let (q, r) = pos_div_eucl a' (Zpos b') in
         (match r with
          | Z0 -> ((opp q), Z0)
          | _ -> ((opp (add q (Zpos XH))), (add b r))))
    | Zneg a' ->
      (match b with
       | Z0 -> (Z0, a)
       | Zpos _ ->
         let (q, r) = pos_div_eucl a' b in
         (match r with
          | Z0 -> ((opp q), Z0)
          | _ -> ((opp (add q (Zpos XH))), (sub b r)))
       | Zneg b' -> let (q, r) = pos_div_eucl a' (Zpos b') in (q, (opp r)))

  (** val modulo : z -> z -> z **)

  let modulo a b =
    let (_, r) = div_eucl a b in r

  (** val quotrem : z -> z -> z * z **)

  let quotrem a b =
    match a with
    | Z0 -> (Z0, Z0)
    | Zpos a0 ->
      (match b with
       | Z0 -> (Z0, a)
       | Zpos b0 ->
         let (q, r) = N.pos_div_eucl a0 (Npos b0) in ((of_N q), (of_N r))
       | Zneg b0 ->
         let (q, r) = N.pos_div_eucl a0 (Npos b0) in
         ((opp (of_N q)), (of_N r)))
    | Zneg a0 ->
      (match b with
       | Z0 -> (Z0, a)
       | Zpos b0 ->
         let (q, r) = N.pos_div_eucl a0 (Npos b0) in
         ((opp (of_N q)), (opp (of_N r)))
       | Zneg b0 ->
         let (q, r) = N.pos_div_eucl a0 (Npos b0) in
         ((of_N q), (opp (of_N r))))

  (** val quot : z -> z -> z **)

  let quot a b =
    fst (quotrem a b)

  (** val rem : z -> z -> z **)

  let rem a b =
    snd (quotrem a b)
 end

type bytes = n list

(** val len : bytes -> n **)

let len bs =
  N.of_nat (length bs)

(** val zeros : nat -> bytes **)

let zeros n0 =
  repeat N0 n0

(** val sub0 : nat -> nat -> bytes -> bytes **)

let sub0 off n0 bs =
  firstn n0 (skipn off bs)

(** val le32 : n -> bytes **)

let le32 v =
  (N.modulo v (Npos (XO (XO (XO (XO (XO (XO (XO (XO XH)))))))))) :: (
    (N.modulo (N.div v (Npos (XO (XO (XO (XO (XO (XO (XO (XO XH))))))))))
      (Npos (XO (XO (XO (XO (XO (XO (XO (XO XH)))))))))) :: ((N.modulo
                                                               (N.div v (Npos
                                                                 (XO (XO (XO
                                                                 (XO (XO (XO
                                                                 (XO (XO (XO
                                                                 (XO (XO (XO
                                                                 (XO (XO (XO
                                                                 (XO
                                                                 XH))))))))))))))))))
                                                               (Npos (XO (XO
                                                               (XO (XO (XO
                                                               (XO (XO (XO
                                                               XH)))))))))) :: (
    (N.modulo
      (N.div v (Npos (XO (XO (XO (XO (XO (XO (XO (XO (XO (XO (XO (XO (XO (XO
        (XO (XO (XO (XO (XO (XO (XO (XO (XO (XO XH))))))))))))))))))))))))))
      (Npos (XO (XO (XO (XO (XO (XO (XO (XO XH)))))))))) :: [])))

(** val le64 : n -> bytes **)

let le64 v =
  app
    (le32
      (N.modulo v (Npos (XO (XO (XO (XO (XO (XO (XO (XO (XO (XO (XO (XO (XO
        (XO (XO (XO (XO (XO (XO (XO (XO (XO (XO (XO (XO (XO (XO (XO (XO (XO
        (XO (XO XH)))))))))))))))))))))))))))))))))))
    (le32
      (N.div v (Npos (XO (XO (XO (XO (XO (XO (XO (XO (XO (XO (XO (XO (XO (XO
        (XO (XO (XO (XO (XO (XO (XO (XO (XO (XO (XO (XO (XO (XO (XO (XO (XO
        (XO XH)))))))))))))))))))))))))))))))))))

(** val nth0 : nat -> bytes -> n **)

let nth0 n0 bs =
  nth n0 bs N0

(** val rd32 : bytes -> n **)

let rd32 bs =
  N.add
    (N.add
      (N.add (nth0 O bs)
        (N.mul (Npos (XO (XO (XO (XO (XO (XO (XO (XO XH)))))))))
          (nth0 (S O) bs)))
      (N.mul (Npos (XO (XO (XO (XO (XO (XO (XO (XO (XO (XO (XO (XO (XO (XO
        (XO (XO XH))))))))))))))))) (nth0 (S (S O)) bs)))
    (N.mul (Npos (XO (XO (XO (XO (XO (XO (XO (XO (XO (XO (XO (XO (XO (XO (XO
      (XO (XO (XO (XO (XO (XO (XO (XO (XO XH)))))))))))))))))))))))))
      (nth0 (S (S (S O))) bs))

(** val rd64 : bytes -> n **)

let rd64 bs =
  N.add (rd32 bs)
    (N.mul (Npos (XO (XO (XO (XO (XO (XO (XO (XO (XO (XO (XO (XO (XO (XO (XO
      (XO (XO (XO (XO (XO (XO (XO (XO (XO (XO (XO (XO (XO (XO (XO (XO (XO
      XH))))))))))))))))))))))))))))))))) (rd32 (skipn (S (S (S (S O)))) bs)))

(** val be32 : n -> bytes **)

let be32 v =
  rev (le32 v)

(** val be64 : n -> bytes **)

let be64 v =
  rev (le64 v)

(** val rdbe32 : bytes -> n **)

let rdbe32 bs =
  rd32 (rev (firstn (S (S (S (S O)))) bs))

(** val rdbe64 : bytes -> n **)

let rdbe64 bs =
  rd64 (rev (firstn (S (S (S (S (S (S (S (S O)))))))) bs))

(** val be16 : n -> bytes **)

let be16 v =
  (N.modulo (N.div v (Npos (XO (XO (XO (XO (XO (XO (XO (XO XH)))))))))) (Npos
    (XO (XO (XO (XO (XO (XO (XO (XO XH)))))))))) :: ((N.modulo v (Npos (XO
                                                       (XO (XO (XO (XO (XO
                                                       (XO (XO XH)))))))))) :: [])

(** val rdbe16 : bytes -> n **)

let rdbe16 bs =
  N.add (N.mul (Npos (XO (XO (XO (XO (XO (XO (XO (XO XH))))))))) (nth0 O bs))
    (nth0 (S O) bs)

(** val two64 : n **)

let two64 =
  Npos (XO (XO (XO (XO (XO (XO (XO (XO (XO (XO (XO (XO (XO (XO (XO (XO (XO
    (XO (XO (XO (XO (XO (XO (XO (XO (XO (XO (XO (XO (XO (XO (XO (XO (XO (XO
    (XO (XO (XO (XO (XO (XO (XO (XO (XO (XO (XO (XO (XO (XO (XO (XO (XO (XO
    (XO (XO (XO (XO (XO (XO (XO (XO (XO (XO (XO
    XH))))))))))))))))))))))))))))))))))))))))))))))))))))))))))))))))

(** val two63 : n **)

let two63 =
  Npos (XO (XO (XO (XO (XO (XO (XO (XO (XO (XO (XO (XO (XO (XO (XO (XO (XO
    (XO (XO (XO (XO (XO (XO (XO (XO (XO (XO (XO (XO (XO (XO (XO (XO (XO (XO
    (XO (XO (XO (XO (XO (XO (XO (XO (XO (XO (XO (XO (XO (XO (XO (XO (XO (XO
    (XO (XO (XO (XO (XO (XO (XO (XO (XO (XO
    XH)))))))))))))))))))))))))))))))))))))))))))))))))))))))))))))))

(** val two32 : n **)

let two32 =
  Npos (XO (XO (XO (XO (XO (XO (XO (XO (XO (XO (XO (XO (XO (XO (XO (XO (XO
    (XO (XO (XO (XO (XO (XO (XO (XO (XO (XO (XO (XO (XO (XO (XO
    XH))))))))))))))))))))))))))))))))

(** val two31 : n **)

let two31 =
  Npos (XO (XO (XO (XO (XO (XO (XO (XO (XO (XO (XO (XO (XO (XO (XO (XO (XO
    (XO (XO (XO (XO (XO (XO (XO (XO (XO (XO (XO (XO (XO (XO
    XH)))))))))))))))))))))))))))))))

(** val two16 : n **)

let two16 =
  Npos (XO (XO (XO (XO (XO (XO (XO (XO (XO (XO (XO (XO (XO (XO (XO (XO
    XH))))))))))))))))

(** val two15 : n **)

let two15 =
  Npos (XO (XO (XO (XO (XO (XO (XO (XO (XO (XO (XO (XO (XO (XO (XO
    XH)))))))))))))))

(** val z_to_u : n -> z -> n **)

let z_to_u w z0 =
  Z.to_N (Z.modulo z0 (Z.of_N w))

(** val u_to_z : n -> n -> n -> z **)

let u_to_z w half u =
  if N.ltb u half then Z.of_N u else Z.sub (Z.of_N u) (Z.of_N w)

(** val overwrite : bytes -> nat -> bytes -> bytes **)

let rec overwrite bs off w =
  match off with
  | O -> app w (skipn (length w) bs)
  | S o ->
    (match bs with
     | [] -> N0 :: (overwrite [] o w)
     | b :: r -> b :: (overwrite r o w))

(** val beq_bytes : bytes -> bytes -> bool **)

let rec beq_bytes a b =
  match a with
  | [] -> (match b with
           | [] -> true
           | _ :: _ -> false)
  | x :: a' ->
    (match b with
     | [] -> false
     | y :: b' -> (&&) (N.eqb x y) (beq_bytes a' b'))

(** val all_zero : bytes -> bool **)

let rec all_zero = function
| [] -> true
| b :: r -> (&&) (N.eqb b N0) (all_zero r)

type str = n list

(** val sp : n **)

let sp =
  Npos (XO (XO (XO (XO (XO XH)))))

(** val split_aux : str -> str -> str list **)

let rec split_aux s cur =
  match s with
  | [] -> (rev_append cur []) :: []
  | c :: r ->
    if N.eqb c sp
    then (rev_append cur []) :: (split_aux r [])
    else split_aux r (c :: cur)

(** val tokens : str -> str list **)

let tokens s =
  split_aux s []

(** val hexval : n -> n option **)

let hexval c =
  if (&&) (N.leb (Npos (XO (XO (XO (XO (XI XH)))))) c)
       (N.leb c (Npos (XI (XO (XO (XI (XI XH)))))))
  then Some (N.sub c (Npos (XO (XO (XO (XO (XI XH)))))))
  else if (&&) (N.leb (Npos (XI (XO (XO (XO (XO (XI XH))))))) c)
            (N.leb c (Npos (XO (XI (XI (XO (XO (XI XH))))))))
       then Some (N.sub c (Npos (XI (XI (XI (XO (XI (XO XH))))))))
       else None

(** val hex_to_N_aux : str -> n -> n option **)

let rec hex_to_N_aux s acc =
  match s with
  | [] -> Some acc
  | c :: r ->
    (match hexval c with
     | Some v ->
       hex_to_N_aux r (N.add (N.mul acc (Npos (XO (XO (XO (XO XH)))))) v)
     | None -> None)

(** val hex_to_N : str -> n option **)

let hex_to_N s = match s with
| [] -> None
| _ :: _ -> hex_to_N_aux s N0

(** val hex_to_Z : str -> z option **)

let hex_to_Z s = match s with
| [] -> (match hex_to_N s with
         | Some n0 -> Some (Z.of_N n0)
         | None -> None)
| n0 :: r ->
  (match n0 with
   | N0 -> (match hex_to_N s with
            | Some n1 -> Some (Z.of_N n1)
            | None -> None)
   | Npos p ->
     (match p with
      | XI p0 ->
        (match p0 with
         | XO p1 ->
           (match p1 with
            | XI p2 ->
              (match p2 with
               | XI p3 ->
                 (match p3 with
                  | XO p4 ->
                    (match p4 with
                     | XH ->
                       (match hex_to_N r with
                        | Some n1 -> Some (Z.opp (Z.of_N n1))
                        | None -> None)
                     | _ ->
                       (match hex_to_N s with
                        | Some n1 -> Some (Z.of_N n1)
                        | None -> None))
                  | _ ->
                    (match hex_to_N s with
                     | Some n1 -> Some (Z.of_N n1)
                     | None -> None))
               | _ ->
                 (match hex_to_N s with
                  | Some n1 -> Some (Z.of_N n1)
                  | None -> None))
            | _ ->
              (match hex_to_N s with
               | Some n1 -> Some (Z.of_N n1)
               | None -> None))
         | _ ->
           (match hex_to_N s with
            | Some n1 -> Some (Z.of_N n1)
            | None -> None))
      | _ ->
        (match hex_to_N s with
         | Some n1 -> Some (Z.of_N n1)
         | None -> None)))

(** val hex_to_bytes_aux : str -> bytes option **)

let rec hex_to_bytes_aux = function
| [] -> Some []
| a :: l ->
  (match l with
   | [] -> None
   | b :: r ->
     (match hexval a with
      | Some x ->
        (match hexval b with
         | Some y ->
           (match hex_to_bytes_aux r with
            | Some t ->
              Some ((N.add (N.mul x (Npos (XO (XO (XO (XO XH)))))) y) :: t)
            | None -> None)
         | None -> None)
      | None -> None))

(** val hex_to_bytes : str -> bytes option **)

let hex_to_bytes s = match s with
| [] -> hex_to_bytes_aux s
| n0 :: l ->
  (match n0 with
   | N0 -> hex_to_bytes_aux s
   | Npos p ->
     (match p with
      | XI p0 ->
        (match p0 with
         | XO p1 ->
           (match p1 with
            | XI p2 ->
              (match p2 with
               | XI p3 ->
                 (match p3 with
                  | XO p4 ->
                    (match p4 with
                     | XH ->
                       (match l with
                        | [] -> Some []
                        | _ :: _ -> hex_to_bytes_aux s)
                     | _ -> hex_to_bytes_aux s)
                  | _ -> hex_to_bytes_aux s)
               | _ -> hex_to_bytes_aux s)
            | _ -> hex_to_bytes_aux s)
         | _ -> hex_to_bytes_aux s)
      | _ -> hex_to_bytes_aux s))

(** val hexdigit : n -> n **)

let hexdigit v =
  if N.ltb v (Npos (XO (XI (XO XH))))
  then N.add (Npos (XO (XO (XO (XO (XI XH)))))) v
  else N.add (Npos (XI (XI (XI (XO (XI (XO XH))))))) v

(** val n_to_hex_aux : nat -> n -> str -> str **)

let rec n_to_hex_aux fuel v acc =
  match fuel with
  | O -> acc
  | S f ->
    let acc' = (hexdigit (N.modulo v (Npos (XO (XO (XO (XO XH))))))) :: acc in
    if N.ltb v (Npos (XO (XO (XO (XO XH)))))
    then acc'
    else n_to_hex_aux f (N.div v (Npos (XO (XO (XO (XO XH)))))) acc'

(** val n_to_hex : n -> str **)

let n_to_hex v =
  n_to_hex_aux (S (S (S (S (S (S (S (S (S (S (S (S (S (S (S (S (S (S (S (S (S
    (S (S (S (S (S (S (S (S (S (S (S (S (S (S (S (S (S (S (S (S (S (S (S (S
    (S (S (S (S (S (S (S (S (S (S (S (S (S (S (S (S (S (S (S
    O)))))))))))))))))))))))))))))))))))))))))))))))))))))))))))))))) v []

(** val z_to_hex : z -> str **)

let z_to_hex z0 =
  if Z.ltb z0 Z0
  then (Npos (XI (XO (XI (XI (XO XH)))))) :: (n_to_hex (Z.to_N (Z.opp z0)))
  else n_to_hex (Z.to_N z0)

(** val bytes_to_hex_aux : bytes -> str **)

let rec bytes_to_hex_aux = function
| [] -> []
| b :: r ->
  (hexdigit (N.div b (Npos (XO (XO (XO (XO XH))))))) :: ((hexdigit
                                                           (N.modulo b (Npos
                                                             (XO (XO (XO (XO
                                                             XH))))))) :: 
    (bytes_to_hex_aux r))

(** val bytes_to_hex : bytes -> str **)

let bytes_to_hex bs = match bs with
| [] -> (Npos (XI (XO (XI (XI (XO XH)))))) :: []
| _ :: _ -> bytes_to_hex_aux bs

(** val join : str list -> str **)

let rec join = function
| [] -> []
| x :: r -> (match r with
             | [] -> x
             | _ :: _ -> app x (sp :: (join r)))

(** val s_ok : str **)

let s_ok =
  (Npos (XI (XI (XI (XI (XO (XI XH))))))) :: ((Npos (XI (XI (XO (XI (XO (XI
    XH))))))) :: [])

(** val s_err : str **)

let s_err =
  (Npos (XI (XO (XI (XO (XO (XI XH))))))) :: ((Npos (XO (XI (XO (XO (XI (XI
    XH))))))) :: ((Npos (XO (XI (XO (XO (XI (XI XH))))))) :: []))

(** val s_bad : str **)

let s_bad =
  (Npos (XO (XI (XO (XO (XO (XI XH))))))) :: ((Npos (XI (XO (XO (XO (XO (XI
    XH))))))) :: ((Npos (XO (XO (XI (XO (XO (XI XH))))))) :: ((Npos (XI (XO
    (XO (XI (XO (XI XH))))))) :: ((Npos (XO (XI (XI (XI (XO (XI
    XH))))))) :: ((Npos (XO (XO (XO (XO (XI (XI XH))))))) :: ((Npos (XI (XO
    (XI (XO (XI (XI XH))))))) :: ((Npos (XO (XO (XI (XO (XI (XI
    XH))))))) :: [])))))))

(** val s_utc : str **)

let s_utc =
  (Npos (XI (XO (XI (XO (XI (XI XH))))))) :: ((Npos (XO (XO (XI (XO (XI (XI
    XH))))))) :: ((Npos (XI (XI (XO (XO (XO (XI XH))))))) :: []))

(** val str_eqb : str -> str -> bool **)

let rec str_eqb a b =
  match a with
  | [] -> (match b with
           | [] -> true
           | _ :: _ -> false)
  | x :: a' ->
    (match b with
     | [] -> false
     | y :: b' -> (&&) (N.eqb x y) (str_eqb a' b'))

(** val put_uvarint_aux : nat -> n -> bytes **)

let rec put_uvarint_aux fuel v =
  match fuel with
  | O -> []
  | S f ->
    if N.ltb v (Npos (XO (XO (XO (XO (XO (XO (XO XH))))))))
    then v :: []
    else (N.add (N.modulo v (Npos (XO (XO (XO (XO (XO (XO (XO XH)))))))))
           (Npos (XO (XO (XO (XO (XO (XO (XO XH))))))))) :: (put_uvarint_aux
                                                              f
                                                              (N.div v (Npos
                                                                (XO (XO (XO
                                                                (XO (XO (XO
                                                                (XO
                                                                XH))))))))))

(** val put_uvarint : n -> bytes **)

let put_uvarint v =
  put_uvarint_aux (S (S (S (S (S (S (S (S (S (S O)))))))))) v

(** val get_uvarint_aux : bytes -> nat -> n -> n -> n * z **)

let rec get_uvarint_aux buf i x s =
  match buf with
  | [] -> (N0, Z0)
  | b :: r ->
    if Nat.eqb i (S (S (S (S (S (S (S (S (S (S O))))))))))
    then (N0, (Z.opp (Z.add (Z.of_nat i) (Zpos XH))))
    else if N.ltb b (Npos (XO (XO (XO (XO (XO (XO (XO XH))))))))
         then if (&&) (Nat.eqb i (S (S (S (S (S (S (S (S (S O))))))))))
                   (N.ltb (Npos XH) b)
              then (N0, (Z.opp (Z.add (Z.of_nat i) (Zpos XH))))
              else ((N.modulo (N.add x (N.mul b (N.pow (Npos (XO XH)) s)))
                      two64), (Z.add (Z.of_nat i) (Zpos XH)))
         else get_uvarint_aux r (S i)
                (N.modulo
                  (N.add x
                    (N.mul
                      (N.modulo b (Npos (XO (XO (XO (XO (XO (XO (XO
                        XH))))))))) (N.pow (Npos (XO XH)) s))) two64)
                (N.add s (Npos (XI (XI XH))))

(** val get_uvarint : bytes -> n * z **)

let get_uvarint buf =
  get_uvarint_aux buf O N0 N0

type gotime = { t_sec : z; t_nsec : z; t_zone : z option }

(** val marshal_time : gotime -> bytes option **)

let marshal_time t =
  let hdr = fun version offmin ->
    app ((Z.to_N version) :: [])
      (app (be64 (z_to_u two64 t.t_sec))
        (app (be32 (z_to_u two32 t.t_nsec)) (be16 (z_to_u two16 offmin))))
  in
  (match t.t_zone with
   | Some off ->
     let offsec = Z.rem off (Zpos (XO (XO (XI (XI (XI XH)))))) in
     let offmin = Z.quot off (Zpos (XO (XO (XI (XI (XI XH)))))) in
     if (||)
          ((||)
            (Z.ltb offmin (Zneg (XO (XO (XO (XO (XO (XO (XO (XO (XO (XO (XO
              (XO (XO (XO (XO XH))))))))))))))))) (Z.eqb offmin (Zneg XH)))
          (Z.ltb (Zpos (XI (XI (XI (XI (XI (XI (XI (XI (XI (XI (XI (XI (XI
            (XI XH))))))))))))))) offmin)
     then None
     else if Z.eqb offsec Z0
          then Some (hdr (Zpos XH) offmin)
          else Some
                 (app (hdr (Zpos (XO XH)) offmin)
                   ((z_to_u (Npos (XO (XO (XO (XO (XO (XO (XO (XO XH)))))))))
                      offsec) :: []))
   | None -> Some (hdr (Zpos XH) (Zneg XH)))

(** val unmarshal_time : bytes -> gotime option **)

let unmarshal_time buf = match buf with
| [] -> None
| version :: rest ->
  if negb ((||) (N.eqb version (Npos XH)) (N.eqb version (Npos (XO XH))))
  then None
  else let want =
         if N.eqb version (Npos (XO XH))
         then S (S (S (S (S (S (S (S (S (S (S (S (S (S (S (S O)))))))))))))))
         else S (S (S (S (S (S (S (S (S (S (S (S (S (S (S O))))))))))))))
       in
       if negb (Nat.eqb (length buf) want)
       then None
       else let sec = u_to_z two64 two63 (rdbe64 rest) in
            let nsec =
              u_to_z two32 two31
                (rdbe32 (skipn (S (S (S (S (S (S (S (S O)))))))) rest))
            in
            let offmin =
              u_to_z two16 two15
                (rdbe16
                  (skipn (S (S (S (S (S (S (S (S (S (S (S (S O))))))))))))
                    rest))
            in
            let offs =
              if N.eqb version (Npos (XO XH))
              then Z.of_N
                     (nth0 (S (S (S (S (S (S (S (S (S (S (S (S (S (S
                       O)))))))))))))) rest)
              else Z0
            in
            let off =
              Z.add (Z.mul offmin (Zpos (XO (XO (XI (XI (XI XH))))))) offs
            in
            Some { t_sec = sec; t_nsec = nsec; t_zone =
            (if Z.eqb off (Zneg (XO (XO (XI (XI (XI XH))))))
             then None
             else Some off) }

type log = { l_index : n; l_term : n; l_type : n; l_data : bytes;
             l_ext : bytes; l_time : gotime }

(** val enc_bytes : bytes -> bytes **)

let enc_bytes bs =
  app (put_uvarint (len bs)) bs

(** val encode_log : log -> bytes option **)

let encode_log l =
  match marshal_time l.l_time with
  | Some tb ->
    Some
      (app (put_uvarint l.l_index)
        (app (put_uvarint l.l_term)
          (app (put_uvarint l.l_type)
            (app (enc_bytes l.l_data) (app (enc_bytes l.l_ext) tb)))))
  | None -> None

type 'a dres =
| DOk of 'a * bytes
| DErr

(** val dec_varint : bytes -> n dres **)

let dec_varint buf =
  let (v, n0) = get_uvarint buf in
  if Z.leb n0 Z0 then DErr else DOk (v, (skipn (Z.to_nat n0) buf))

(** val dec_bytes : bytes -> bytes dres **)

let dec_bytes buf =
  match dec_varint buf with
  | DOk (n0, rest) ->
    if N.eqb n0 N0
    then DOk ([], rest)
    else if N.ltb (len rest) n0
         then DErr
         else DOk ((firstn (N.to_nat n0) rest), (skipn (N.to_nat n0) rest))
  | DErr -> DErr

(** val decode_log : bytes -> log option **)

let decode_log buf =
  match dec_varint buf with
  | DOk (idx, r1) ->
    (match dec_varint r1 with
     | DOk (term, r2) ->
       (match dec_varint r2 with
        | DOk (typ, r3) ->
          (match dec_bytes r3 with
           | DOk (data, r4) ->
             (match dec_bytes r4 with
              | DOk (ext, r5) ->
                (match unmarshal_time r5 with
                 | Some t ->
                   Some { l_index = idx; l_term = term; l_type =
                     (N.modulo typ (Npos (XO (XO (XO (XO (XO (XO (XO (XO
                       XH)))))))))); l_data = data; l_ext = ext; l_time = t }
                 | None -> None)
              | DErr -> None)
           | DErr -> None)
        | DErr -> None)
     | DErr -> None)
  | DErr -> None

(** val parse_zone : str -> z option option **)

let parse_zone s =
  if str_eqb s s_utc
  then Some None
  else (match hex_to_Z s with
        | Some z0 -> Some (Some z0)
        | None -> None)

(** val show_zone : z option -> str **)

let show_zone = function
| Some o -> z_to_hex o
| None -> s_utc

(** val parse_log : str list -> log option **)

let parse_log = function
| [] -> None
| i :: l ->
  (match l with
   | [] -> None
   | t :: l0 ->
     (match l0 with
      | [] -> None
      | ty :: l1 ->
        (match l1 with
         | [] -> None
         | d :: l2 ->
           (match l2 with
            | [] -> None
            | e :: l3 ->
              (match l3 with
               | [] -> None
               | sec :: l4 ->
                 (match l4 with
                  | [] -> None
                  | ns :: l5 ->
                    (match l5 with
                     | [] -> None
                     | zn :: l6 ->
                       (match l6 with
                        | [] ->
                          (match hex_to_N i with
                           | Some i0 ->
                             (match hex_to_N t with
                              | Some t0 ->
                                (match hex_to_N ty with
                                 | Some ty0 ->
                                   (match hex_to_bytes d with
                                    | Some d0 ->
                                      (match hex_to_bytes e with
                                       | Some e0 ->
                                         (match hex_to_Z sec with
                                          | Some sec0 ->
                                            (match hex_to_Z ns with
                                             | Some ns0 ->
                                               (match parse_zone zn with
                                                | Some zn0 ->
                                                  Some { l_index = i0;
                                                    l_term = t0; l_type =
                                                    ty0; l_data = d0; l_ext =
                                                    e0; l_time = { t_sec =
                                                    sec0; t_nsec = ns0;
                                                    t_zone = zn0 } }
                                                | None -> None)
                                             | None -> None)
                                          | None -> None)
                                       | None -> None)
                                    | None -> None)
                                 | None -> None)
                              | None -> None)
                           | None -> None)
                        | _ :: _ -> None))))))))

(** val show_log : bool -> log -> str **)

let show_log with_time l =
  join
    (app
      ((n_to_hex l.l_index) :: ((n_to_hex l.l_term) :: ((n_to_hex l.l_type) :: (
      (bytes_to_hex l.l_data) :: ((bytes_to_hex l.l_ext) :: [])))))
      (if with_time
       then (z_to_hex l.l_time.t_sec) :: ((z_to_hex l.l_time.t_nsec) :: (
              (show_zone l.l_time.t_zone) :: []))
       else []))

(** val run_enc : str list -> str **)

let run_enc ts =
  match parse_log ts with
  | Some l ->
    (match encode_log l with
     | Some bs -> bytes_to_hex bs
     | None -> s_err)
  | None -> s_bad

(** val run_dec : str list -> str **)

let run_dec = function
| [] -> s_bad
| h :: l ->
  (match l with
   | [] -> s_bad
   | flag :: l0 ->
     (match l0 with
      | [] ->
        (match hex_to_bytes h with
         | Some bs ->
           (match decode_log bs with
            | Some l1 ->
              join
                (s_ok :: ((show_log
                            (str_eqb flag ((Npos (XO (XI (XI (XO (XI (XI
                              XH))))))) :: [])) l1) :: []))
            | None -> s_err)
         | None -> s_bad)
      | _ :: _ -> s_bad))

(** val maxEntrySize : n **)

let maxEntrySize =
  Npos (XO (XO (XO (XO (XO (XO (XO (XO (XO (XO (XO (XO (XO (XO (XO (XO (XO
    (XO (XO (XO (XO (XO (XO (XO (XO (XO XH))))))))))))))))))))))))))

(** val frameInvalid : n **)

let frameInvalid =
  N0

(** val frameEntry : n **)

let frameEntry =
  Npos XH

(** val frameIndex : n **)

let frameIndex =
  Npos (XO XH)

(** val frameCommit : n **)

let frameCommit =
  Npos (XI XH)

(** val file_header_len : n **)

let file_header_len =
  Npos (XO (XO (XO (XO (XO XH)))))

(** val frame_header_len : n **)

let frame_header_len =
  Npos (XO (XO (XO XH)))

(** val magic : n **)

let magic =
  Npos (XI (XO (XI (XI (XO (XO (XO (XO (XI (XI (XO (XI (XO (XI (XI (XO (XI
    (XI (XO (XI (XO (XI (XI (XI (XO (XO (XO (XI (XI (XO
    XH))))))))))))))))))))))))))))))

(** val min_buf_size : n **)

let min_buf_size =
  Npos (XO (XO (XO (XO (XO (XO (XO (XO (XO (XO (XO (XO (XO (XO (XO (XO
    XH))))))))))))))))

type seginfo = { si_id : n; si_base : n; si_min : n; si_max : n;
                 si_codec : n; si_index_start : n; si_sealed : bool;
                 si_size_limit : n }

(** val file_header : seginfo -> bytes **)

let file_header info =
  app (le32 magic)
    (app (N0 :: (N0 :: (N0 :: (N0 :: []))))
      (app (le64 info.si_base) (app (le64 info.si_id) (le64 info.si_codec))))

(** val read_file_header : bytes -> ((n * n) * n) option **)

let read_file_header buf =
  if N.ltb (len buf) file_header_len
  then None
  else if negb (N.eqb (rd64 buf) magic)
       then None
       else Some (((rd64 (skipn (S (S (S (S (S (S (S (S O)))))))) buf)),
              (rd64
                (skipn (S (S (S (S (S (S (S (S (S (S (S (S (S (S (S (S
                  O)))))))))))))))) buf))),
              (rd64
                (skipn (S (S (S (S (S (S (S (S (S (S (S (S (S (S (S (S (S (S
                  (S (S (S (S (S (S O)))))))))))))))))))))))) buf)))

(** val validate_file_header : ((n * n) * n) -> seginfo -> bool **)

let validate_file_header got info =
  let (p, c) = got in
  let (b, i) = p in
  (&&) ((&&) (N.eqb i info.si_id) (N.eqb b info.si_base))
    (N.eqb c info.si_codec)

(** val pad_len : n -> n **)

let pad_len n0 =
  N.modulo
    (N.sub (Npos (XO (XO (XO XH)))) (N.modulo n0 (Npos (XO (XO (XO XH))))))
    (Npos (XO (XO (XO XH))))

(** val enc_frame_size : n -> n **)

let enc_frame_size n0 =
  N.add (N.add (Npos (XO (XO (XO XH)))) n0) (pad_len n0)

(** val index_frame_size : n -> n **)

let index_frame_size num =
  if N.eqb num N0 then N0 else enc_frame_size (N.mul num (Npos (XO (XO XH))))

(** val frame_header : n -> n -> bytes **)

let frame_header typ v =
  app (typ :: (N0 :: (N0 :: (N0 :: [])))) (le32 v)

(** val enc_frame : n -> bytes -> bytes **)

let enc_frame typ payload =
  app (frame_header typ (len payload))
    (app payload (zeros (N.to_nat (pad_len (len payload)))))

(** val commit_frame : n -> bytes **)

let commit_frame crc =
  frame_header frameCommit crc

(** val index_payload : n list -> bytes **)

let index_payload offs =
  flat_map le32 offs

(** val index_frame : n list -> bytes **)

let index_frame offs =
  app (frame_header frameIndex (N.mul (Npos (XO (XO XH))) (len offs)))
    (app (index_payload offs) (if N.odd (len offs) then le32 N0 else []))

type fhdr =
| FH of n * n
| FHZero
| FHCorrupt
| FHShort

(** val read_frame_header : bytes -> fhdr **)

let read_frame_header buf =
  if N.ltb (len buf) frame_header_len
  then FHShort
  else let t = nth0 O buf in
       if N.eqb t frameInvalid
       then if all_zero (firstn (S (S (S (S (S (S (S (S O)))))))) buf)
            then FHZero
            else FHCorrupt
       else if (||) ((||) (N.eqb t frameEntry) (N.eqb t frameIndex))
                 (N.eqb t frameCommit)
            then FH (t, (rd32 (skipn (S (S (S (S O)))) buf)))
            else FHCorrupt

(** val fh_len : n -> n -> n **)

let fh_len typ v =
  if N.eqb typ frameCommit then N0 else v

(** val crc_poly : n **)

let crc_poly =
  Npos (XO (XO (XO (XI (XI (XI (XI (XO (XI (XI (XO (XI (XI (XI (XO (XO (XO
    (XI (XI (XO (XI (XI (XI (XI (XO (XI (XO (XO (XO (XO (XO
    XH)))))))))))))))))))))))))))))))

(** val crc_mask : n **)

let crc_mask =
  Npos (XI (XI (XI (XI (XI (XI (XI (XI (XI (XI (XI (XI (XI (XI (XI (XI (XI
    (XI (XI (XI (XI (XI (XI (XI (XI (XI (XI (XI (XI (XI (XI
    XH)))))))))))))))))))))))))))))))

(** val crc_shift1 : n -> n **)

let crc_shift1 c =
  if N.odd c then N.coq_lxor (N.div2 c) crc_poly else N.div2 c

(** val crc_byte : n -> n -> n **)

let crc_byte c b =
  crc_shift1
    (crc_shift1
      (crc_shift1
        (crc_shift1
          (crc_shift1 (crc_shift1 (crc_shift1 (crc_shift1 (N.coq_lxor c b))))))))

(** val crc_raw : n -> bytes -> n **)

let crc_raw c bs =
  fold_left crc_byte bs c

(** val crc_update : n -> bytes -> n **)

let crc_update crc bs =
  N.coq_lxor (crc_raw (N.coq_lxor crc crc_mask) bs) crc_mask

(** val crc32c : bytes -> n **)

let crc32c bs =
  crc_update N0 bs

type waction =
| WWrite of n * bytes
| WSync

type wres =
| WOk
| WErrSealed
| WErrTooBig
| WErrNonMono
| WErrShortBuf
| WErrIO

type wfault =
| FNone
| FWrite
| FSync

type wstate = { w_info : seginfo; w_buf : bytes; w_crc : n; w_off : n;
                w_index_start : n; w_offsets : n list; w_commit_idx : 
                n }

(** val set_buf : wstate -> bytes -> n -> n list -> wstate **)

let set_buf w buf crc offs =
  { w_info = w.w_info; w_buf = buf; w_crc = crc; w_off = w.w_off;
    w_index_start = w.w_index_start; w_offsets = offs; w_commit_idx =
    w.w_commit_idx }

(** val init_empty : seginfo -> wstate **)

let init_empty info =
  let h = file_header info in
  { w_info = info; w_buf = h; w_crc = (crc32c h); w_off = N0; w_index_start =
  N0; w_offsets = []; w_commit_idx = N0 }

type entry = n * bytes

(** val append_entry : wstate -> entry -> wstate option **)

let append_entry w e =
  if N.eqb (fst e) (N.add w.w_info.si_base (len w.w_offsets))
  then let fr = enc_frame frameEntry (snd e) in
       Some
       (set_buf w (app w.w_buf fr) (crc_update w.w_crc fr)
         (app w.w_offsets
           ((N.modulo (N.add w.w_off (len w.w_buf)) two32) :: [])))
  else None

(** val append_entries : wstate -> entry list -> wstate option **)

let rec append_entries w = function
| [] -> Some w
| e :: r ->
  (match append_entry w e with
   | Some w' -> append_entries w' r
   | None -> None)

(** val append_index : wstate -> wstate option **)

let append_index w =
  match w.w_offsets with
  | [] -> None
  | _ :: _ ->
    let fr = index_frame w.w_offsets in
    Some { w_info = w.w_info; w_buf = (app w.w_buf fr); w_crc =
    (crc_update w.w_crc fr); w_off = w.w_off; w_index_start =
    (N.add (N.add w.w_off (len w.w_buf)) (Npos (XO (XO (XO XH)))));
    w_offsets = w.w_offsets; w_commit_idx = w.w_commit_idx }

(** val commit_idx_of : wstate -> n **)

let commit_idx_of w =
  match w.w_offsets with
  | [] -> N0
  | _ :: _ -> N.sub (N.add w.w_info.si_base (len w.w_offsets)) (Npos XH)

(** val append_commit : wstate -> wfault -> wstate option * waction list **)

let append_commit w f =
  let buf = app w.w_buf (commit_frame w.w_crc) in
  (match f with
   | FNone ->
     let w' = { w_info = w.w_info; w_buf = []; w_crc = N0; w_off =
       (N.modulo (N.add w.w_off (len buf)) two32); w_index_start =
       w.w_index_start; w_offsets = w.w_offsets; w_commit_idx =
       w.w_commit_idx }
     in
     ((Some { w_info = w'.w_info; w_buf = []; w_crc = N0; w_off = w'.w_off;
     w_index_start = w'.w_index_start; w_offsets = w'.w_offsets;
     w_commit_idx = (commit_idx_of w') }), ((WWrite (w.w_off,
     buf)) :: (WSync :: [])))
   | FWrite -> (None, [])
   | FSync -> (None, ((WWrite (w.w_off, buf)) :: (WSync :: []))))

(** val needs_seal : wstate -> bool **)

let needs_seal w =
  N.ltb w.w_info.si_size_limit
    (N.modulo
      (N.add w.w_off
        (N.modulo (N.add (len w.w_buf) (index_frame_size (len w.w_offsets)))
          two32)) two32)

(** val too_big : entry list -> bool **)

let too_big es =
  existsb (fun e -> N.ltb maxEntrySize (len (snd e))) es

(** val append :
    wstate -> entry list -> wfault -> (wres * wstate) * waction list **)

let append w es f =
  match es with
  | [] -> ((WOk, w), [])
  | _ :: _ ->
    if N.ltb N0 w.w_index_start
    then ((WErrSealed, w), [])
    else if too_big es
         then ((WErrTooBig, w), [])
         else (match append_entries w es with
               | Some w1 ->
                 let w2 = if needs_seal w1 then append_index w1 else Some w1
                 in
                 (match w2 with
                  | Some w3 ->
                    let (o, acts) = append_commit w3 f in
                    (match o with
                     | Some w4 -> ((WOk, w4), acts)
                     | None -> ((WErrIO, w), acts))
                  | None -> ((WErrShortBuf, w), []))
               | None -> ((WErrNonMono, w), []))

(** val force_seal : wstate -> wfault -> (wres * wstate) * waction list **)

let force_seal w f =
  if N.ltb N0 w.w_index_start
  then ((WOk, w), [])
  else (match append_index w with
        | Some w1 ->
          let (o, acts) = append_commit w1 f in
          (match o with
           | Some w2 -> ((WOk, w2), acts)
           | None -> ((WErrIO, w), acts))
        | None -> ((WErrShortBuf, w), []))

(** val sealed : wstate -> bool **)

let sealed w =
  N.ltb N0 w.w_index_start

(** val apply_waction : bytes -> waction -> bytes **)

let apply_waction file = function
| WWrite (off, bs) -> overwrite file (N.to_nat off) bs
| WSync -> file

(** val apply_wactions : bytes -> waction list -> bytes **)

let apply_wactions file acts =
  fold_left apply_waction acts file

(** val read_at : bytes -> n -> n -> bytes **)

let read_at f off n0 =
  if N.leb (len f) off
  then []
  else sub0 (N.to_nat off) (N.to_nat (N.min n0 (N.sub (len f) off))) f

type frame_ev = { fe_typ : n; fe_val : n; fe_off : n }

(** val scan_from : nat -> bytes -> n -> frame_ev list **)

let rec scan_from fuel f off =
  match fuel with
  | O -> []
  | S fuel' ->
    (match read_frame_header (read_at f off (Npos (XO (XO (XO XH))))) with
     | FH (typ, v) ->
       { fe_typ = typ; fe_val = v; fe_off =
         off } :: (scan_from fuel' f
                    (N.add off (enc_frame_size (fh_len typ v))))
     | _ -> [])

(** val scan_fuel : bytes -> nat **)

let scan_fuel f =
  S (Nat.div (length f) (S (S (S (S (S (S (S (S O)))))))))

(** val scan : bytes -> frame_ev list **)

let scan f =
  scan_from (scan_fuel f) f (Npos (XO (XO (XO (XO (XO XH))))))

(** val scanned_header : bytes -> (n * n) * n **)

let scanned_header f =
  match read_file_header
          (firstn (S (S (S (S (S (S (S (S (S (S (S (S (S (S (S (S (S (S (S (S
            (S (S (S (S (S (S (S (S (S (S (S (S
            O))))))))))))))))))))))))))))))))
            (app f
              (zeros (S (S (S (S (S (S (S (S (S (S (S (S (S (S (S (S (S (S (S
                (S (S (S (S (S (S (S (S (S (S (S (S (S
                O))))))))))))))))))))))))))))))))))) with
  | Some h -> h
  | None -> ((N0, N0), N0)

type commit_info = { c_crc : n; c_off : n; c_crc_start : n;
                     c_offsets_len : nat; c_index_start : n }

type rec_acc = { ra_offsets : n list; ra_pending : n;
                 ra_prev : commit_info option; ra_final : commit_info option }

(** val rec_step : rec_acc -> frame_ev -> rec_acc **)

let rec_step a e =
  if N.eqb e.fe_typ frameEntry
  then { ra_offsets = (app a.ra_offsets ((N.modulo e.fe_off two32) :: []));
         ra_pending = a.ra_pending; ra_prev = a.ra_prev; ra_final =
         a.ra_final }
  else if N.eqb e.fe_typ frameIndex
       then { ra_offsets = a.ra_offsets; ra_pending =
              (N.add e.fe_off (Npos (XO (XO (XO XH))))); ra_prev = a.ra_prev;
              ra_final = a.ra_final }
       else { ra_offsets = a.ra_offsets; ra_pending = N0; ra_prev =
              a.ra_final; ra_final = (Some { c_crc = e.fe_val; c_off =
              e.fe_off; c_crc_start =
              (match a.ra_final with
               | Some p -> N.add p.c_off (Npos (XO (XO (XO XH))))
               | None -> N0); c_offsets_len = (length a.ra_offsets);
              c_index_start = a.ra_pending }) }

(** val rec_fold : frame_ev list -> rec_acc **)

let rec_fold evs =
  fold_left rec_step evs { ra_offsets = []; ra_pending = N0; ra_prev = None;
    ra_final = None }

(** val recovered : seginfo -> n -> n -> n list -> wstate **)

let recovered info off istart offs =
  let w = { w_info = info; w_buf = []; w_crc = N0; w_off =
    (N.modulo off two32); w_index_start = istart; w_offsets = offs;
    w_commit_idx = N0 }
  in
  { w_info = info; w_buf = []; w_crc = N0; w_off = w.w_off; w_index_start =
  istart; w_offsets = offs; w_commit_idx = (commit_idx_of w) }

(** val recover_state : seginfo -> bytes -> wstate option **)

let recover_state info f =
  let a = rec_fold (scan f) in
  let hdr_ok = validate_file_header (scanned_header f) info in
  (match a.ra_final with
   | Some fc ->
     if Nat.ltb fc.c_offsets_len (length a.ra_offsets)
     then if hdr_ok
          then Some
                 (recovered info (N.add fc.c_off (Npos (XO (XO (XO XH)))))
                   fc.c_index_start (firstn fc.c_offsets_len a.ra_offsets))
          else None
     else let batch = read_at f fc.c_crc_start (N.sub fc.c_off fc.c_crc_start)
          in
          if N.eqb (crc32c batch) fc.c_crc
          then if hdr_ok
               then Some
                      (recovered info
                        (N.add fc.c_off (Npos (XO (XO (XO XH)))))
                        fc.c_index_start a.ra_offsets)
               else None
          else (match a.ra_prev with
                | Some pc ->
                  if hdr_ok
                  then Some
                         (recovered info
                           (N.add pc.c_off (Npos (XO (XO (XO XH)))))
                           pc.c_index_start
                           (firstn pc.c_offsets_len a.ra_offsets))
                  else None
                | None -> Some (init_empty info))
   | None -> Some (init_empty info))

(** val scrub_chunks : nat -> bytes -> n -> waction list **)

let rec scrub_chunks fuel f off =
  match fuel with
  | O -> []
  | S fuel' ->
    let c = read_at f off min_buf_size in
    (match c with
     | [] -> []
     | _ :: _ ->
       app
         (if all_zero c then [] else (WWrite (off, (zeros (length c)))) :: [])
         (scrub_chunks fuel' f (N.add off (len c))))

(** val scrub_actions : bytes -> n -> waction list **)

let scrub_actions f off =
  let ws = scrub_chunks (S (N.to_nat (N.div (len f) min_buf_size))) f off in
  (match ws with
   | [] -> []
   | _ :: _ -> app ws (WSync :: []))

(** val recover_tail : seginfo -> bytes -> (wstate * waction list) option **)

let recover_tail info f =
  match recover_state info f with
  | Some w -> Some (w, (scrub_actions f w.w_off))
  | None -> None

type rres =
| ROk of bytes
| RNotFound
| RCorrupt
| RErr

(** val read_frame : bytes -> n -> rres * n **)

let read_frame f off =
  let buf = read_at f off min_buf_size in
  if N.ltb (len buf) (Npos (XO (XO (XO XH))))
  then (RErr, N0)
  else (match read_frame_header buf with
        | FH (typ, v) ->
          let l = fh_len typ v in
          if N.leb (N.add (Npos (XO (XO (XO XH)))) l) (len buf)
          then ((ROk
                 (sub0 (S (S (S (S (S (S (S (S O)))))))) (N.to_nat l) buf)),
                 N0)
          else if N.ltb maxEntrySize l
               then (RCorrupt, N0)
               else let p = read_at f (N.add off (Npos (XO (XO (XO XH))))) l
                    in
                    if N.ltb (len p) l then (RErr, l) else ((ROk p), l)
        | FHZero -> ((ROk []), N0)
        | FHCorrupt -> (RCorrupt, N0)
        | FHShort -> (RErr, N0))

(** val tail_offset : wstate -> n -> n option **)

let tail_offset w idx =
  if (||) ((||) (N.ltb idx w.w_info.si_base) (N.ltb idx w.w_info.si_min))
       (N.ltb w.w_commit_idx idx)
  then None
  else nth_error w.w_offsets (N.to_nat (N.sub idx w.w_info.si_base))

(** val tail_get : wstate -> bytes -> n -> rres **)

let tail_get w f idx =
  match tail_offset w idx with
  | Some off -> fst (read_frame f off)
  | None -> RNotFound

(** val sealed_get : seginfo -> bytes -> n -> rres **)

let sealed_get info f idx =
  if N.eqb info.si_index_start N0
  then RErr
  else if (||) (N.ltb idx info.si_min)
            ((&&) (N.ltb N0 info.si_max) (N.ltb info.si_max idx))
       then RNotFound
       else let bo =
              N.modulo
                (N.add info.si_index_start
                  (N.mul (N.modulo (N.sub idx info.si_base) two64) (Npos (XO
                    (XO XH))))) two64
            in
            let b4 = read_at f bo (Npos (XO (XO XH))) in
            if N.ltb (len b4) (Npos (XO (XO XH)))
            then RErr
            else fst (read_frame f (rd32 b4))

(** val open_sealed : seginfo -> bytes -> bool **)

let open_sealed info f =
  if N.ltb (len f) (Npos (XO (XO (XO (XO (XO XH))))))
  then false
  else (match read_file_header
                (firstn (S (S (S (S (S (S (S (S (S (S (S (S (S (S (S (S (S (S
                  (S (S (S (S (S (S (S (S (S (S (S (S (S (S
                  O)))))))))))))))))))))))))))))))) f) with
        | Some h -> validate_file_header h info
        | None -> false)

type dump_res =
| DumpOk of (n * bytes) list
| DumpErr of (n * bytes) list

(** val dump_batch :
    bytes -> ((n * n) * n) list -> (n * bytes) list -> (n * bytes) list
    option * (n * bytes) list **)

let rec dump_batch f batch acc =
  match batch with
  | [] -> ((Some acc), acc)
  | p :: r ->
    let (p0, l) = p in
    let (idx, off) = p0 in
    if N.ltb maxEntrySize l
    then (None, acc)
    else let p1 = read_at f (N.add off (Npos (XO (XO (XO XH))))) l in
         if N.ltb (len p1) l
         then (None, acc)
         else dump_batch f r (app acc ((idx, p1) :: []))

(** val dump_go :
    bytes -> frame_ev list -> n -> n -> n -> ((n * n) * n) list ->
    (n * bytes) list -> dump_res **)

let rec dump_go f evs idx after before batch acc =
  match evs with
  | [] -> DumpOk acc
  | e :: r ->
    if N.eqb e.fe_typ frameCommit
    then let (o, acc') = dump_batch f batch acc in
         (match o with
          | Some acc'0 -> dump_go f r idx after before [] acc'0
          | None -> DumpErr acc')
    else if negb (N.eqb e.fe_typ frameEntry)
         then dump_go f r idx after before batch acc
         else if N.leb idx after
              then dump_go f r (N.add idx (Npos XH)) after before batch acc
              else if (&&) (N.ltb N0 before) (N.leb before idx)
                   then DumpOk acc
                   else dump_go f r (N.add idx (Npos XH)) after before
                          (app batch (((idx, e.fe_off), e.fe_val) :: [])) acc

(** val dump_segment : bytes -> n -> n -> n -> dump_res **)

let dump_segment f base after before =
  dump_go f (scan f) base after before [] []

type smode =
| MTail
| MSealed of seginfo
| MNone

type sst = { s_info : seginfo; s_file : bytes; s_w : wstate; s_mode : 
             smode; s_pre : bytes }

(** val s_sealedk : str **)

let s_sealedk =
  (Npos (XI (XI (XO (XO (XI (XI XH))))))) :: ((Npos (XI (XO (XI (XO (XO (XI
    XH))))))) :: ((Npos (XI (XO (XO (XO (XO (XI XH))))))) :: ((Npos (XO (XO
    (XI (XI (XO (XI XH))))))) :: ((Npos (XI (XO (XI (XO (XO (XI
    XH))))))) :: ((Npos (XO (XO (XI (XO (XO (XI XH))))))) :: [])))))

(** val s_toobig : str **)

let s_toobig =
  (Npos (XO (XO (XI (XO (XI (XI XH))))))) :: ((Npos (XI (XI (XI (XI (XO (XI
    XH))))))) :: ((Npos (XI (XI (XI (XI (XO (XI XH))))))) :: ((Npos (XO (XI
    (XO (XO (XO (XI XH))))))) :: ((Npos (XI (XO (XO (XI (XO (XI
    XH))))))) :: ((Npos (XI (XI (XI (XO (XO (XI XH))))))) :: [])))))

(** val s_nonmono : str **)

let s_nonmono =
  (Npos (XO (XI (XI (XI (XO (XI XH))))))) :: ((Npos (XI (XI (XI (XI (XO (XI
    XH))))))) :: ((Npos (XO (XI (XI (XI (XO (XI XH))))))) :: ((Npos (XI (XO
    (XI (XI (XO (XI XH))))))) :: ((Npos (XI (XI (XI (XI (XO (XI
    XH))))))) :: ((Npos (XO (XI (XI (XI (XO (XI XH))))))) :: ((Npos (XI (XI
    (XI (XI (XO (XI XH))))))) :: []))))))

(** val s_nf : str **)

let s_nf =
  (Npos (XO (XI (XI (XI (XO (XI XH))))))) :: ((Npos (XO (XI (XI (XO (XO (XI
    XH))))))) :: [])

(** val s_corrupt : str **)

let s_corrupt =
  (Npos (XI (XI (XO (XO (XO (XI XH))))))) :: ((Npos (XI (XI (XI (XI (XO (XI
    XH))))))) :: ((Npos (XO (XI (XO (XO (XI (XI XH))))))) :: ((Npos (XO (XI
    (XO (XO (XI (XI XH))))))) :: ((Npos (XI (XO (XI (XO (XI (XI
    XH))))))) :: ((Npos (XO (XO (XO (XO (XI (XI XH))))))) :: ((Npos (XO (XO
    (XI (XO (XI (XI XH))))))) :: []))))))

(** val colon : n **)

let colon =
  Npos (XO (XI (XO (XI (XI XH)))))

(** val show_wres : wres -> str **)

let show_wres = function
| WOk -> s_ok
| WErrSealed -> s_sealedk
| WErrTooBig -> s_toobig
| WErrNonMono -> s_nonmono
| _ -> s_err

(** val show_rres : rres -> str **)

let show_rres = function
| ROk p -> app s_ok (colon :: (bytes_to_hex p))
| RNotFound -> s_nf
| RCorrupt -> s_corrupt
| RErr -> s_err

(** val strip_zeros_rev : bytes -> bytes **)

let rec strip_zeros_rev r = match r with
| [] -> r
| n0 :: t -> (match n0 with
              | N0 -> strip_zeros_rev t
              | Npos _ -> r)

(** val strip_trailing_zeros : bytes -> bytes **)

let strip_trailing_zeros bs =
  rev_append (strip_zeros_rev (rev_append bs [])) []

(** val parse_entries : nat -> str list -> (entry list * str list) option **)

let rec parse_entries k ts =
  match k with
  | O -> Some ([], ts)
  | S k' ->
    (match ts with
     | [] -> None
     | i :: l ->
       (match l with
        | [] -> None
        | p :: r ->
          (match hex_to_N i with
           | Some i0 ->
             (match hex_to_bytes p with
              | Some p0 ->
                (match parse_entries k' r with
                 | Some p1 ->
                   let (es, rest) = p1 in Some (((i0, p0) :: es), rest)
                 | None -> None)
              | None -> None)
           | None -> None)))

(** val crash_mix : bytes -> bytes -> n -> nat -> bytes **)

let rec crash_mix old new0 mask0 = function
| O -> []
| S f ->
  (match old with
   | [] ->
     (match new0 with
      | [] -> []
      | _ :: _ ->
        app
          (if N.odd mask0
           then firstn (S (S (S (S (S (S (S (S O)))))))) new0
           else firstn (S (S (S (S (S (S (S (S O)))))))) old)
          (crash_mix (skipn (S (S (S (S (S (S (S (S O)))))))) old)
            (skipn (S (S (S (S (S (S (S (S O)))))))) new0) (N.div2 mask0) f))
   | _ :: _ ->
     app
       (if N.odd mask0
        then firstn (S (S (S (S (S (S (S (S O)))))))) new0
        else firstn (S (S (S (S (S (S (S (S O)))))))) old)
       (crash_mix (skipn (S (S (S (S (S (S (S (S O)))))))) old)
         (skipn (S (S (S (S (S (S (S (S O)))))))) new0) (N.div2 mask0) f))

(** val pad_to : nat -> bytes -> bytes **)

let pad_to n0 bs =
  app bs (zeros (sub n0 (length bs)))

(** val show_dump : dump_res -> str **)

let show_dump r =
  let show_es = fun es ->
    join
      (map (fun e ->
        app (n_to_hex (fst e)) (colon :: (bytes_to_hex (snd e)))) es)
  in
  (match r with
   | DumpOk es -> app s_ok (colon :: (show_es es))
   | DumpErr es -> app s_err (colon :: (show_es es)))

(** val chr : n -> str -> bool **)

let chr c s =
  str_eqb s (c :: [])

(** val pre_of : sst -> waction list -> bytes **)

let pre_of st = function
| [] -> st.s_pre
| _ :: _ -> st.s_file

(** val run_ops : nat -> sst -> str list -> str list -> str list **)

let rec run_ops fuel st ts acc =
  match fuel with
  | O -> rev_append acc []
  | S fuel' ->
    (match ts with
     | [] -> rev_append acc []
     | op :: r ->
       if chr (Npos (XI (XO (XO (XO (XO (XO XH))))))) op
       then (match r with
             | [] -> rev_append (s_bad :: acc) []
             | k :: r1 ->
               (match hex_to_N k with
                | Some k0 ->
                  (match parse_entries (N.to_nat k0) r1 with
                   | Some p ->
                     let (es, r2) = p in
                     (match st.s_mode with
                      | MTail ->
                        let (p0, acts) = append st.s_w es FNone in
                        let (res, w') = p0 in
                        let f' = apply_wactions st.s_file acts in
                        run_ops fuel' { s_info = st.s_info; s_file = f';
                          s_w = w'; s_mode = MTail; s_pre =
                          (pre_of st acts) } r2 ((show_wres res) :: acc)
                      | _ -> run_ops fuel' st r2 (s_bad :: acc))
                   | None -> rev_append (s_bad :: acc) [])
                | None -> rev_append (s_bad :: acc) []))
       else if chr (Npos (XI (XI (XO (XO (XI (XO XH))))))) op
            then (match st.s_mode with
                  | MTail ->
                    let (p, acts) = force_seal st.s_w FNone in
                    let (res, w') = p in
                    let f' = apply_wactions st.s_file acts in
                    let o =
                      match res with
                      | WOk -> app s_ok (colon :: (n_to_hex w'.w_index_start))
                      | _ -> show_wres res
                    in
                    run_ops fuel' { s_info = st.s_info; s_file = f'; s_w =
                      w'; s_mode = MTail; s_pre = (pre_of st acts) } r
                      (o :: acc)
                  | _ -> run_ops fuel' st r (s_bad :: acc))
            else if chr (Npos (XI (XO (XO (XO (XI (XO XH))))))) op
                 then let o =
                        if sealed st.s_w
                        then app ((Npos (XI (XO (XO (XO (XI
                               XH)))))) :: (colon :: []))
                               (n_to_hex st.s_w.w_index_start)
                        else (Npos (XO (XO (XO (XO (XI XH)))))) :: []
                      in
                      run_ops fuel' st r (o :: acc)
                 else if chr (Npos (XO (XO (XI (XI (XO (XO XH))))))) op
                      then run_ops fuel' st r
                             ((n_to_hex st.s_w.w_commit_idx) :: acc)
                      else if chr (Npos (XI (XI (XI (XO (XO (XO XH))))))) op
                           then (match r with
                                 | [] -> rev_append (s_bad :: acc) []
                                 | i :: r1 ->
                                   (match hex_to_N i with
                                    | Some i0 ->
                                      let o =
                                        match st.s_mode with
                                        | MTail ->
                                          show_rres
                                            (tail_get st.s_w st.s_file i0)
                                        | MSealed info ->
                                          show_rres
                                            (sealed_get info st.s_file i0)
                                        | MNone -> s_bad
                                      in
                                      run_ops fuel' st r1 (o :: acc)
                                    | None -> rev_append (s_bad :: acc) []))
                           else if chr (Npos (XO (XI (XO (XO (XI (XO
                                     XH))))))) op
                                then (match recover_tail st.s_info st.s_file with
                                      | Some p ->
                                        let (w', acts) = p in
                                        run_ops fuel' { s_info = st.s_info;
                                          s_file =
                                          (apply_wactions st.s_file acts);
                                          s_w = w'; s_mode = MTail; s_pre =
                                          (pre_of st acts) } r (s_ok :: acc)
                                      | None ->
                                        run_ops fuel' { s_info = st.s_info;
                                          s_file = st.s_file; s_w = st.s_w;
                                          s_mode = MNone; s_pre = st.s_pre }
                                          r (s_corrupt :: acc))
                                else if chr (Npos (XI (XI (XO (XO (XO (XO
                                          XH))))))) op
                                     then (match r with
                                           | [] ->
                                             rev_append (s_bad :: acc) []
                                           | m :: r1 ->
                                             (match hex_to_N m with
                                              | Some m0 ->
                                                let n0 =
                                                  Nat.max (length st.s_pre)
                                                    (length st.s_file)
                                                in
                                                let img =
                                                  crash_mix
                                                    (pad_to n0 st.s_pre)
                                                    (pad_to n0 st.s_file) m0
                                                    (S
                                                    (Nat.div n0 (S (S (S (S
                                                      (S (S (S (S O))))))))))
                                                in
                                                run_ops fuel' { s_info =
                                                  st.s_info; s_file = img;
                                                  s_w = st.s_w; s_mode =
                                                  MNone; s_pre = img }
                                                  (((Npos (XO (XI (XO (XO (XI
                                                  (XO XH))))))) :: []) :: r1)
                                                  acc
                                              | None ->
                                                rev_append (s_bad :: acc) []))
                                     else if chr (Npos (XI (XI (XI (XI (XO
                                               (XO XH))))))) op
                                          then (match r with
                                                | [] ->
                                                  rev_append (s_bad :: acc) []
                                                | mn :: l ->
                                                  (match l with
                                                   | [] ->
                                                     rev_append
                                                       (s_bad :: acc) []
                                                   | mx :: r1 ->
                                                     (match hex_to_N mn with
                                                      | Some mn0 ->
                                                        (match hex_to_N mx with
                                                         | Some mx0 ->
                                                           let info =
                                                             { si_id =
                                                             st.s_info.si_id;
                                                             si_base =
                                                             st.s_info.si_base;
                                                             si_min = mn0;
                                                             si_max = mx0;
                                                             si_codec =
                                                             st.s_info.si_codec;
                                                             si_index_start =
                                                             st.s_w.w_index_start;
                                                             si_sealed =
                                                             true;
                                                             si_size_limit =
                                                             st.s_info.si_size_limit }
                                                           in
                                                           if open_sealed
                                                                info st.s_file
                                                           then run_ops fuel'
                                                                  { s_info =
                                                                  st.s_info;
                                                                  s_file =
                                                                  st.s_file;
                                                                  s_w =
                                                                  st.s_w;
                                                                  s_mode =
                                                                  (MSealed
                                                                  info);
                                                                  s_pre =
                                                                  st.s_pre }
                                                                  r1
                                                                  (s_ok :: acc)
                                                           else run_ops fuel'
                                                                  { s_info =
                                                                  st.s_info;
                                                                  s_file =
                                                                  st.s_file;
                                                                  s_w =
                                                                  st.s_w;
                                                                  s_mode =
                                                                  MNone;
                                                                  s_pre =
                                                                  st.s_pre }
                                                                  r1
                                                                  (s_corrupt :: acc)
                                                         | None ->
                                                           rev_append
                                                             (s_bad :: acc) [])
                                                      | None ->
                                                        rev_append
                                                          (s_bad :: acc) [])))
                                          else if chr (Npos (XO (XO (XO (XI
                                                    (XI (XO XH))))))) op
                                               then (match r with
                                                     | [] ->
                                                       rev_append
                                                         (s_bad :: acc) []
                                                     | o :: l ->
                                                       (match l with
                                                        | [] ->
                                                          rev_append
                                                            (s_bad :: acc) []
                                                        | h :: r1 ->
                                                          (match hex_to_N o with
                                                           | Some o0 ->
                                                             (match hex_to_bytes
                                                                    h with
                                                              | Some h0 ->
                                                                run_ops fuel'
                                                                  { s_info =
                                                                  st.s_info;
                                                                  s_file =
                                                                  (overwrite
                                                                    st.s_file
                                                                    (N.to_nat
                                                                    o0) h0);
                                                                  s_w =
                                                                  st.s_w;
                                                                  s_mode =
                                                                  st.s_mode;
                                                                  s_pre =
                                                                  st.s_pre }
                                                                  r1 acc
                                                              | None ->
                                                                rev_append
                                                                  (s_bad :: acc)
                                                                  [])
                                                           | None ->
                                                             rev_append
                                                               (s_bad :: acc)
                                                               [])))
                                               else if chr (Npos (XO (XO (XI
                                                         (XO (XI (XO
                                                         XH))))))) op
                                                    then (match r with
                                                          | [] ->
                                                            rev_append
                                                              (s_bad :: acc)
                                                              []
                                                          | n0 :: r1 ->
                                                            (match hex_to_N n0 with
                                                             | Some n1 ->
                                                               run_ops fuel'
                                                                 { s_info =
                                                                 st.s_info;
                                                                 s_file =
                                                                 (firstn
                                                                   (N.to_nat
                                                                    n1)
                                                                   st.s_file);
                                                                 s_w =
                                                                 st.s_w;
                                                                 s_mode =
                                                                 st.s_mode;
                                                                 s_pre =
                                                                 st.s_pre }
                                                                 r1 acc
                                                             | None ->
                                                               rev_append
                                                                 (s_bad :: acc)
                                                                 []))
                                                    else if chr (Npos (XO (XI
                                                              (XI (XO (XO (XO
                                                              XH))))))) op
                                                         then run_ops fuel'
                                                                st r
                                                                ((bytes_to_hex
                                                                   (strip_trailing_zeros
                                                                    st.s_file)) :: acc)
                                                         else if chr (Npos
                                                                   (XO (XO
                                                                   (XI (XO
                                                                   (XO (XO
                                                                   XH)))))))
                                                                   op
                                                              then (match r with
                                                                    | [] ->
                                                                    rev_append
                                                                    (s_bad :: acc)
                                                                    []
                                                                    | a :: l ->
                                                                    (match l with
                                                                    | [] ->
                                                                    rev_append
                                                                    (s_bad :: acc)
                                                                    []
                                                                    | b :: r1 ->
                                                                    (match 
                                                                    hex_to_N a with
                                                                    | Some a0 ->
                                                                    (match 
                                                                    hex_to_N b with
                                                                    | Some b0 ->
                                                                    run_ops
                                                                    fuel' st
                                                                    r1
                                                                    ((show_dump
                                                                    (dump_segment
                                                                    st.s_file
                                                                    st.s_info.si_base
                                                                    a0 b0)) :: acc)
                                                                    | None ->
                                                                    rev_append
                                                                    (s_bad :: acc)
                                                                    [])
                                                                    | None ->
                                                                    rev_append
                                                                    (s_bad :: acc)
                                                                    [])))
                                                              else rev_append
                                                                    (s_bad :: acc)
                                                                    [])

(** val run_seg : str list -> str **)

let run_seg = function
| [] -> s_bad
| b :: l0 ->
  (match l0 with
   | [] -> s_bad
   | i :: l1 ->
     (match l1 with
      | [] -> s_bad
      | c :: l2 ->
        (match l2 with
         | [] -> s_bad
         | l :: l3 ->
           (match l3 with
            | [] -> s_bad
            | fsz :: ops ->
              (match hex_to_N b with
               | Some b0 ->
                 (match hex_to_N i with
                  | Some i0 ->
                    (match hex_to_N c with
                     | Some c0 ->
                       (match hex_to_N l with
                        | Some l4 ->
                          (match hex_to_N fsz with
                           | Some fsz0 ->
                             let info = { si_id = i0; si_base = b0; si_min =
                               b0; si_max = N0; si_codec = c0;
                               si_index_start = N0; si_sealed = false;
                               si_size_limit = l4 }
                             in
                             let f0 = zeros (N.to_nat fsz0) in
                             join
                               (run_ops (S (length ops)) { s_info = info;
                                 s_file = f0; s_w = (init_empty info);
                                 s_mode = MTail; s_pre = f0 } ops [])
                           | None -> s_bad)
                        | None -> s_bad)
                     | None -> s_bad)
                  | None -> s_bad)
               | None -> s_bad)))))

(** val rs_magic : n **)

let rs_magic =
  Npos (XI (XO (XI (XI (XO (XO (XO (XO (XI (XI (XO (XI (XO (XI (XI (XO (XI
    (XI (XO (XI (XO (XI (XI (XI (XO (XO (XO (XI (XI (XO
    XH))))))))))))))))))))))))))))))

(** val rs_version : n **)

let rs_version =
  N0

(** val rs_t_invalid : n **)

let rs_t_invalid =
  N0

(** val rs_t_entry : n **)

let rs_t_entry =
  Npos XH

(** val rs_t_index : n **)

let rs_t_index =
  Npos (XO XH)

(** val rs_t_commit : n **)

let rs_t_commit =
  Npos (XI XH)

(** val rs_max_entry : n **)

let rs_max_entry =
  Npos (XO (XO (XO (XO (XO (XO (XO (XO (XO (XO (XO (XO (XO (XO (XO (XO (XO
    (XO (XO (XO (XO (XO (XO (XO (XO (XO XH))))))))))))))))))))))))))

(** val rs_header_len : n **)

let rs_header_len =
  Npos (XO (XO (XO (XO (XO XH)))))

type rs_header = { h_base : n; h_id : n; h_codec : n }

(** val rs_pad : n -> n **)

let rs_pad n0 =
  N.modulo
    (N.sub (Npos (XO (XO (XO XH)))) (N.modulo n0 (Npos (XO (XO (XO XH))))))
    (Npos (XO (XO (XO XH))))

(** val rs_frame : n -> bytes -> bytes **)

let rs_frame typ payload =
  app (typ :: (N0 :: (N0 :: (N0 :: []))))
    (app (le32 (len payload))
      (app payload (zeros (N.to_nat (rs_pad (len payload))))))

(** val rs_frame_size : n -> n **)

let rs_frame_size n0 =
  N.add (N.add (Npos (XO (XO (XO XH)))) n0) (rs_pad n0)

type rs_batch = bytes list * bool

(** val rs_entries : bytes list -> bytes **)

let rs_entries ps =
  flat_map (rs_frame rs_t_entry) ps

(** val rs_index_start_from : n -> rs_batch list -> n **)

let rec rs_index_start_from pos = function
| [] -> N0
| r0 :: r ->
  let (ps, seal) = r0 in
  if seal
  then N.add (N.add pos (len (rs_entries ps))) (Npos (XO (XO (XO XH))))
  else rs_index_start_from
         (N.add (N.add pos (len (rs_entries ps))) (Npos (XO (XO (XO XH))))) r

(** val rs_index_start : rs_batch list -> n **)

let rs_index_start bs =
  rs_index_start_from rs_header_len bs

(** val rs_slice : bytes -> n -> n -> bytes **)

let rs_slice f off n0 =
  firstn (N.to_nat n0) (skipn (N.to_nat off) f)

type rs_pst = { p_cur : bytes list; p_seal : bool; p_offs : n list;
                p_start : n; p_done : rs_batch list }

(** val rs_finish : rs_pst -> rs_batch list option **)

let rs_finish st =
  match st.p_cur with
  | [] -> if st.p_seal then None else Some st.p_done
  | _ :: _ -> None

(** val rs_pad_ok : bytes -> n -> n -> bool **)

let rs_pad_ok f off n0 =
  let pad = rs_slice f off n0 in (&&) (N.eqb (len pad) n0) (all_zero pad)

(** val rs_parse_frames :
    nat -> bytes -> n -> rs_pst -> rs_batch list option **)

let rec rs_parse_frames fuel f off st =
  match fuel with
  | O -> None
  | S fuel' ->
    let h = rs_slice f off (Npos (XO (XO (XO XH)))) in
    if N.ltb (len h) (Npos (XO (XO (XO XH))))
    then rs_finish st
    else let t = nth O h N0 in
         let v = rd32 (skipn (S (S (S (S O)))) h) in
         if N.eqb t rs_t_invalid
         then if all_zero h then rs_finish st else None
         else if N.eqb t rs_t_entry
              then let p = rs_slice f (N.add off (Npos (XO (XO (XO XH))))) v
                   in
                   if (||)
                        ((||) ((||) (N.ltb rs_max_entry v) (N.ltb (len p) v))
                          (negb
                            (rs_pad_ok f
                              (N.add (N.add off (Npos (XO (XO (XO XH))))) v)
                              (rs_pad v)))) st.p_seal
                   then None
                   else rs_parse_frames fuel' f (N.add off (rs_frame_size v))
                          { p_cur = (app st.p_cur (p :: [])); p_seal = false;
                          p_offs = (app st.p_offs (off :: [])); p_start =
                          st.p_start; p_done = st.p_done }
              else if N.eqb t rs_t_index
                   then let want = flat_map le32 st.p_offs in
                        let p =
                          rs_slice f (N.add off (Npos (XO (XO (XO XH))))) v
                        in
                        if (||)
                             ((||) (negb (beq_bytes p want))
                               (negb
                                 (rs_pad_ok f
                                   (N.add
                                     (N.add off (Npos (XO (XO (XO XH))))) v)
                                   (rs_pad v)))) st.p_seal
                        then None
                        else rs_parse_frames fuel' f
                               (N.add off (rs_frame_size v)) { p_cur =
                               st.p_cur; p_seal = true; p_offs = st.p_offs;
                               p_start = st.p_start; p_done = st.p_done }
                   else if N.eqb t rs_t_commit
                        then if N.eqb
                                  (crc32c
                                    (rs_slice f st.p_start
                                      (N.sub off st.p_start))) v
                             then rs_parse_frames fuel' f
                                    (N.add off (Npos (XO (XO (XO XH)))))
                                    { p_cur = []; p_seal = false; p_offs =
                                    st.p_offs; p_start =
                                    (N.add off (Npos (XO (XO (XO XH)))));
                                    p_done =
                                    (app st.p_done ((st.p_cur,
                                      st.p_seal) :: [])) }
                             else None
                        else None

(** val rs_parse_header : bytes -> rs_header option **)

let rs_parse_header f =
  let h = rs_slice f N0 rs_header_len in
  if N.ltb (len h) rs_header_len
  then None
  else if negb (N.eqb (rd32 h) rs_magic)
       then None
       else if negb
                 (N.eqb (nth (S (S (S (S (S (S (S O))))))) h N0) rs_version)
            then None
            else Some { h_base =
                   (rd64 (skipn (S (S (S (S (S (S (S (S O)))))))) h)); h_id =
                   (rd64
                     (skipn (S (S (S (S (S (S (S (S (S (S (S (S (S (S (S (S
                       O)))))))))))))))) h)); h_codec =
                   (rd64
                     (skipn (S (S (S (S (S (S (S (S (S (S (S (S (S (S (S (S
                       (S (S (S (S (S (S (S (S O)))))))))))))))))))))))) h)) }

(** val parse : bytes -> (rs_header * rs_batch list) option **)

let parse f =
  match rs_parse_header f with
  | Some h ->
    (match rs_parse_frames (S (S
             (Nat.div (length f) (S (S (S (S (S (S (S (S O))))))))))) f
             rs_header_len { p_cur = []; p_seal = false; p_offs = [];
             p_start = N0; p_done = [] } with
     | Some bs -> Some (h, bs)
     | None -> None)
  | None -> None

(** val s_empty : str **)

let s_empty =
  (Npos (XI (XO (XI (XO (XO (XI XH))))))) :: ((Npos (XI (XO (XI (XI (XO (XI
    XH))))))) :: ((Npos (XO (XO (XO (XO (XI (XI XH))))))) :: ((Npos (XO (XO
    (XI (XO (XI (XI XH))))))) :: ((Npos (XI (XO (XO (XI (XI (XI
    XH))))))) :: []))))

(** val s_bad_parse : str **)

let s_bad_parse =
  (Npos (XO (XI (XO (XO (XO (XI XH))))))) :: ((Npos (XI (XO (XO (XO (XO (XI
    XH))))))) :: ((Npos (XO (XO (XI (XO (XO (XI XH))))))) :: ((Npos (XO (XI
    (XO (XI (XI XH)))))) :: ((Npos (XO (XO (XO (XO (XI (XI
    XH))))))) :: ((Npos (XI (XO (XO (XO (XO (XI XH))))))) :: ((Npos (XO (XI
    (XO (XO (XI (XI XH))))))) :: ((Npos (XI (XI (XO (XO (XI (XI
    XH))))))) :: ((Npos (XI (XO (XI (XO (XO (XI XH))))))) :: []))))))))

(** val s_bad_hdr : str **)

let s_bad_hdr =
  (Npos (XO (XI (XO (XO (XO (XI XH))))))) :: ((Npos (XI (XO (XO (XO (XO (XI
    XH))))))) :: ((Npos (XO (XO (XI (XO (XO (XI XH))))))) :: ((Npos (XO (XI
    (XO (XI (XI XH)))))) :: ((Npos (XO (XO (XO (XI (XO (XI
    XH))))))) :: ((Npos (XO (XO (XI (XO (XO (XI XH))))))) :: ((Npos (XO (XI
    (XO (XO (XI (XI XH))))))) :: []))))))

(** val s_bad_seal : str **)

let s_bad_seal =
  (Npos (XO (XI (XO (XO (XO (XI XH))))))) :: ((Npos (XI (XO (XO (XO (XO (XI
    XH))))))) :: ((Npos (XO (XO (XI (XO (XO (XI XH))))))) :: ((Npos (XO (XI
    (XO (XI (XI XH)))))) :: ((Npos (XI (XI (XO (XO (XI (XI
    XH))))))) :: ((Npos (XI (XO (XI (XO (XO (XI XH))))))) :: ((Npos (XI (XO
    (XO (XO (XO (XI XH))))))) :: ((Npos (XO (XO (XI (XI (XO (XI
    XH))))))) :: [])))))))

(** val s_bad_index : str **)

let s_bad_index =
  (Npos (XO (XI (XO (XO (XO (XI XH))))))) :: ((Npos (XI (XO (XO (XO (XO (XI
    XH))))))) :: ((Npos (XO (XO (XI (XO (XO (XI XH))))))) :: ((Npos (XO (XI
    (XO (XI (XI XH)))))) :: ((Npos (XI (XO (XO (XI (XO (XI
    XH))))))) :: ((Npos (XO (XI (XI (XI (XO (XI XH))))))) :: ((Npos (XO (XO
    (XI (XO (XO (XI XH))))))) :: ((Npos (XI (XO (XI (XO (XO (XI
    XH))))))) :: ((Npos (XO (XO (XO (XI (XI (XI XH))))))) :: []))))))))

(** val pad8 : bytes -> bytes **)

let pad8 bs =
  app bs
    (zeros
      (N.to_nat
        (N.modulo
          (N.sub (Npos (XO (XO (XO XH))))
            (N.modulo (len bs) (Npos (XO (XO (XO XH)))))) (Npos (XO (XO (XO
          XH)))))))

(** val run_rdm : str list -> str **)

let run_rdm = function
| [] -> s_bad
| b :: l ->
  (match l with
   | [] -> s_bad
   | i :: l0 ->
     (match l0 with
      | [] -> s_bad
      | c :: l1 ->
        (match l1 with
         | [] -> s_bad
         | sl :: l2 ->
           (match l2 with
            | [] -> s_bad
            | ist :: l3 ->
              (match l3 with
               | [] -> s_bad
               | hx :: l4 ->
                 (match l4 with
                  | [] ->
                    (match hex_to_N b with
                     | Some b0 ->
                       (match hex_to_N i with
                        | Some i0 ->
                          (match hex_to_N c with
                           | Some c0 ->
                             (match hex_to_N sl with
                              | Some sl0 ->
                                (match hex_to_N ist with
                                 | Some ist0 ->
                                   (match hex_to_bytes hx with
                                    | Some bs ->
                                      if all_zero bs
                                      then s_empty
                                      else (match parse (pad8 bs) with
                                            | Some p ->
                                              let (h, batches) = p in
                                              if negb
                                                   ((&&)
                                                     ((&&)
                                                       (N.eqb h.h_base b0)
                                                       (N.eqb h.h_id i0))
                                                     (N.eqb h.h_codec c0))
                                              then s_bad_hdr
                                              else let sealed0 =
                                                     existsb snd batches
                                                   in
                                                   if negb
                                                        (eqb sealed0
                                                          (negb
                                                            (N.eqb sl0 N0)))
                                                   then s_bad_seal
                                                   else if (&&) sealed0
                                                             (negb
                                                               (N.eqb
                                                                 (rs_index_start
                                                                   batches)
                                                                 ist0))
                                                        then s_bad_index
                                                        else let ps =
                                                               flat_map fst
                                                                 batches
                                                             in
                                                             join
                                                               (s_ok :: (
                                                               (n_to_hex
                                                                 (N.of_nat
                                                                   (length ps))) :: 
                                                               (map
                                                                 bytes_to_hex
                                                                 ps)))
                                            | None -> s_bad_parse)
                                    | None -> s_bad)
                                 | None -> s_bad)
                              | None -> s_bad)
                           | None -> s_bad)
                        | None -> s_bad)
                     | None -> s_bad)
                  | _ :: _ -> s_bad))))))

(** val k_enc : str **)

let k_enc =
  (Npos (XI (XO (XI (XO (XO (XI XH))))))) :: ((Npos (XO (XI (XI (XI (XO (XI
    XH))))))) :: ((Npos (XI (XI (XO (XO (XO (XI XH))))))) :: []))

(** val k_dec : str **)

let k_dec =
  (Npos (XO (XO (XI (XO (XO (XI XH))))))) :: ((Npos (XI (XO (XI (XO (XO (XI
    XH))))))) :: ((Npos (XI (XI (XO (XO (XO (XI XH))))))) :: []))

(** val k_seg : str **)

let k_seg =
  (Npos (XI (XI (XO (XO (XI (XI XH))))))) :: ((Npos (XI (XO (XI (XO (XO (XI
    XH))))))) :: ((Npos (XI (XI (XI (XO (XO (XI XH))))))) :: []))

(** val k_rdm : str **)

let k_rdm =
  (Npos (XO (XI (XO (XO (XI (XI XH))))))) :: ((Npos (XO (XO (XI (XO (XO (XI
    XH))))))) :: ((Npos (XI (XO (XI (XI (XO (XI XH))))))) :: []))

(** val run_line : str -> str **)

let run_line line =
  match tokens line with
  | [] -> s_bad
  | cmd :: args ->
    if str_eqb cmd k_enc
    then run_enc args
    else if str_eqb cmd k_dec
         then run_dec args
         else if str_eqb cmd k_seg
              then run_seg args
              else if str_eqb cmd k_rdm then run_rdm args else s_bad
